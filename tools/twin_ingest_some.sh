#!/bin/bash
# usage: twin_ingest_some.sh C01 C02 ...   (worktrees /tmp/seed/<Cxx>t; parallel across properties)
for p in "$@"; do
  (
    for n in 1 2 3; do
      /venv/bin/python /verif/tools/twin_ingest.py /tmp/seed/${p}t $n ${p}t-$n $p 2>&1 | grep -E 'OK|REJECT'
    done
  ) &
done
wait
echo INGEST-DONE
