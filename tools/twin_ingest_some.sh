#!/bin/bash
# usage: twin_ingest_some.sh [-s suffix] C01 C02 ...   (worktrees /tmp/seed/<Cxx><suffix>, default suffix t)
S=t; if [ "$1" = "-s" ]; then S=$2; shift 2; fi
for p in "$@"; do
  (
    for n in 1 2 3; do
      /venv/bin/python /verif/tools/twin_ingest.py /tmp/seed/${p}$S $n ${p}$S-$n $p 2>&1 | grep -E 'OK|REJECT'
    done
  ) &
done
wait
echo INGEST-DONE
