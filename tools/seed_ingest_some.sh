#!/bin/bash
# usage: seed_ingest_some.sh C07b C11b ...   (worktree names under /tmp/seed)
for b in "$@"; do
  d=/tmp/seed/$b
  prop=${b:0:3}
  for n in 1 2 3; do
    if [ -f $d/patch$n.diff ] && [ ! -d /verif/seeded/$b-$n ]; then
      /venv/bin/python /verif/tools/seed_ingest.py $d $n $b-$n $prop "see agent_notes.md (section for change $n)" 2>&1 | tail -2
    fi
  done
done
echo INGEST-DONE
