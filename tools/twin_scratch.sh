#!/bin/bash
# usage: twin_scratch.sh <twin-or-seed-id> [prop ...]  -> scratch copy of /repo with the patch applied under /tmp/tw/<checker dir name>/<id>; runs the given checks on it
id=$1; shift
here="$(cd "$(dirname "$0")/.." && pwd)"
d=/tmp/tw/$(basename "$here")/$id
echo "scratch tree: $d"
rm -rf $d; mkdir -p $d
cp -r /repo/clastic $d/clastic
find $d -name __pycache__ -prune -exec rm -rf {} \; 2>/dev/null
p=/verif/twins/$id/patch.diff
[ -f $p ] || p=/verif/seeded/$id/patch.diff
(cd $d && patch -p1 -s -f < $p) || echo "PATCH FAILED"
for prop in "$@"; do
  (cd "$(dirname "$0")/.." && /venv/bin/python -W ignore -m vt check $prop --root $d 2>&1 | grep -vE 'KNOWN-FINDING' | cut -c1-500 | tail -12)
done
