#!/venv/bin/python
"""Confirm a seeded change produced by a sub-agent and file it under /verif/seeded/<id>/.

usage: seed_ingest.py <worktree> <n> <seed-id> <property> "<what it needs to manifest>"

Steps (all in the scratch worktree, never in /repo):
  1. worktree clean            -> demo<n>.py must exit 0
  2. git apply patch<n>.diff   -> demo<n>.py must exit != 0
  3. patched                   -> test suite: 89 passed
  4. git checkout -- .         -> clean again
Then patch.diff, demo.py and meta.json are written to /verif/seeded/<seed-id>/.
"""
import json
import os
import shutil
import subprocess
import sys
import time

PY = '/venv/bin/python'


def run(cmd, cwd):
    p = subprocess.run(cmd, cwd=cwd, shell=True, stdout=subprocess.PIPE, stderr=subprocess.STDOUT, text=True, timeout=900)
    return p.returncode, p.stdout


def main():
    wt, n, sid, prop, needs = sys.argv[1:6]
    patch = os.path.join(wt, 'patch%s.diff' % n)
    demo = os.path.join(wt, 'demo%s.py' % n)
    assert os.path.isfile(patch) and os.path.isfile(demo), 'missing patch/demo'
    ran = []
    rc, out = run('git checkout -- . && git status --short | grep -v "^??" | wc -l', wt)
    rc, out = run('%s -W ignore %s' % (PY, os.path.basename(demo)), wt)
    ran.append({'cmd': 'clean: python demo.py', 'exit': rc, 'tail': out[-300:]})
    if rc != 0:
        print('REJECT: demo fails on clean code\n' + out[-600:])
        return 1
    rc, out = run('git apply %s' % os.path.basename(patch), wt)
    if rc != 0:
        print('REJECT: patch does not apply\n' + out[-600:])
        return 1
    try:
        rc, out = run('%s -W ignore %s' % (PY, os.path.basename(demo)), wt)
        ran.append({'cmd': 'patched: python demo.py', 'exit': rc, 'tail': out[-300:]})
        if rc == 0:
            print('REJECT: demo passes with the patch\n' + out[-600:])
            return 1
        rc, out = run('%s -m pytest -q -p no:cacheprovider 2>&1 | tail -1' % PY, wt)
        ran.append({'cmd': 'patched: pytest', 'exit': rc, 'tail': out[-200:]})
        if '89 passed' not in out:
            print('REJECT: test suite does not pass with the patch: ' + out[-300:])
            return 1
        rc, out = run('%s -c "import clastic, os; print(os.path.dirname(clastic.__file__))"' % PY, wt)
        ran.append({'cmd': 'import path', 'exit': rc, 'tail': out.strip()[-200:]})
    finally:
        run('git checkout -- . && git clean -fdq clastic', wt)
    d = os.path.join('/verif/seeded', sid)
    os.makedirs(d, exist_ok=True)
    shutil.copyfile(patch, os.path.join(d, 'patch.diff'))
    shutil.copyfile(demo, os.path.join(d, 'demo.py'))
    notes = os.path.join(wt, 'NOTES.md')
    meta = {'id': sid, 'property': prop, 'needs_to_manifest': needs, 'source': 'independent sub-agent (saw only the property text and a scratch worktree)',
            'confirmed': time.strftime('%Y-%m-%d'), 'confirmation': ran,
            'how_to_run': 'git -C /repo apply /verif/seeded/%s/patch.diff; (cd /repo && /venv/bin/python /verif/seeded/%s/demo.py); git -C /repo checkout -- .' % (sid, sid)}
    with open(os.path.join(d, 'meta.json'), 'w') as f:
        json.dump(meta, f, indent=1)
    if os.path.isfile(notes):
        shutil.copyfile(notes, os.path.join(d, 'agent_notes.md'))
    print('OK filed %s' % d)
    return 0


if __name__ == '__main__':
    sys.exit(main())
