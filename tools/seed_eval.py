#!/venv/bin/python
"""Run the checks against every seeded change under /verif/seeded (on scratch copies, /repo is not touched).

usage: seed_eval.py [--all-props] [--write] [seed-id ...]
Prints one line per seed: which properties' checks report a violation (and the rules), or MISSED.
Writes /verif/seeded/RESULTS.json.
"""
import json
import os
import shutil
import subprocess
import sys
import tempfile
from concurrent.futures import ProcessPoolExecutor

sys.path.insert(0, os.path.dirname(os.path.dirname(os.path.abspath(__file__))))
SEEDED = '/verif/seeded'
ALL = ['C%02d' % i for i in range(1, 21)]


def one(args):
    sid, props, root = args
    from vt.selftest import _copy_tree
    from vt.core import Report, AnalysisError, load_known
    from vt.loader import Repo
    import importlib
    d = os.path.join(SEEDED, sid)
    meta = json.load(open(os.path.join(d, 'meta.json')))
    base = tempfile.mkdtemp(prefix='seed_')
    try:
        _copy_tree(root, base)
        # copy non-python assets the patch might touch
        p = subprocess.run('patch -p1 -s < %s' % os.path.join(d, 'patch.diff'), cwd=base, shell=True, stdout=subprocess.PIPE, stderr=subprocess.STDOUT, text=True)
        if p.returncode != 0:
            return sid, meta['property'], {'error': 'patch failed: ' + p.stdout[-300:]}
        res = {}
        from vt.core import known_set, is_known
        kk = known_set()
        for pid in props:
            pm = importlib.import_module('vt.props.%s' % pid.lower())
            try:
                rep = Report(pid, 'quick', Repo(base))
                pm.run(rep)
                v = [(o.rule, o.key, o.detail[:200]) for o in rep.obligations if not o.ok and not is_known(pid, o.rule, o.key, kk)]
                if not v and rep.gaps:
                    res[pid] = ('analysis-error', [('', '', '; '.join(rep.gaps)[:300])])
                else:
                    res[pid] = ('viol', v) if v else ('ok', [])
            except AnalysisError as e:
                res[pid] = ('analysis-error', [('', '', str(e)[:300])])
            except Exception as e:
                import traceback
                res[pid] = ('crash', [('', '', traceback.format_exc()[-500:])])
        return sid, meta['property'], res
    finally:
        shutil.rmtree(base, ignore_errors=True)


def main():
    args = [a for a in sys.argv[1:] if not a.startswith('--')]
    allp = '--all-props' in sys.argv
    seeds = sorted(s for s in os.listdir(SEEDED) if os.path.isfile(os.path.join(SEEDED, s, 'meta.json')))
    if args:
        seeds = [s for s in seeds if s in args]
    jobs = []
    want_props = [a[8:].split(',') for a in sys.argv[1:] if a.startswith('--props=')]
    for s in seeds:
        meta = json.load(open(os.path.join(SEEDED, s, 'meta.json')))
        if want_props and meta['property'] not in want_props[0]:
            continue
        jobs.append((s, ALL if allp else [meta['property']], '/repo'))
    out = {}
    with ProcessPoolExecutor(max_workers=16) as ex:
        for sid, prop, res in ex.map(one, jobs):
            if 'error' in res:
                print('%-28s %s ERROR %s' % (sid, prop, res['error']))
                continue
            own = res.get(prop, ('?', []))
            others = sorted(p for p, (st, v) in res.items() if st == 'viol' and p != prop)
            line = 'CAUGHT ' + ','.join(sorted(set(r for r, _, _ in own[1]))) if own[0] == 'viol' else own[0].upper() if own[0] != 'ok' else 'MISSED'
            print('%-28s %s %-40s %s' % (sid, prop, line, ('also: ' + ','.join(others)) if others else ''))
            if own[0] in ('analysis-error', 'crash'):
                print('      ', own[1][0][2][:300])
            out[sid] = {'property': prop, 'own': own[0], 'rules': sorted(set(r for r, _, _ in own[1])),
                        'details': [list(x) for x in own[1][:4]], 'also_caught_by': others}
    if not args and '--write' in sys.argv:
        with open(os.path.join(SEEDED, 'RESULTS.json'), 'w') as f:
            json.dump(out, f, indent=1, sort_keys=True)
    n = len(out)
    c = sum(1 for v in out.values() if v['own'] == 'viol')
    print('seeded: %d, caught by own property check: %d, missed: %d' % (n, c, n - c))


if __name__ == '__main__':
    main()
