#!/bin/bash
# all checks on /repo, the checker's own variants, the seeded changes and the independent refactorings
cd /verif
echo "== vt all"
/venv/bin/python -W ignore -m vt all 2>&1 | grep -vE '^C.. quick: .* 0 violations|KNOWN-FINDING' | cut -c1-300 | tail -30
echo "== selftest"
/venv/bin/python -W ignore -m vt selftest 2>&1 | cut -c1-400 | tail -${1:-25}
echo "== twins"
/venv/bin/python -W ignore tools/twin_eval.py > /tmp/demo/twin_out.txt 2>&1; tail -1 /tmp/demo/twin_out.txt
echo CYCLE-DONE
