import sys
sys.path.insert(0, '/verif')
from vt.loader import Repo
from vt.props.noninterf import RequestPath, path_text
from vt.core import norm

repo = Repo(sys.argv[1] if len(sys.argv) > 1 else '/repo')
rp = RequestPath(repo)
print('reachable functions:', len(rp.reach))
for fi, path in sorted(rp.reach.items(), key=lambda kv: kv[0].key):
    print('  ', fi.key, '   <=', path_text(path)[:150])
print()
for fi, e, cls, why, path in rp.effects():
    if cls != 'fresh':
        print('%-14s %-55s %-50s %s' % (cls, fi.key[-55:], norm(e.node)[:50], why))
