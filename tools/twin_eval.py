#!/venv/bin/python
"""Run ALL checks against every refactoring under /verif/twins (scratch copies); every check must stay silent.

usage: twin_eval.py [--props=C05,C07] [--write] [twin-id ...]   -> prints alarms; --write stores /verif/twins/RESULTS.json
"""
import json
import os
import shutil
import subprocess
import sys
import tempfile
from concurrent.futures import ProcessPoolExecutor

sys.path.insert(0, os.path.dirname(os.path.dirname(os.path.abspath(__file__))))
TW = '/verif/twins'
ALL = ['C%02d' % i for i in range(1, 21)]


def one(tid):
    from vt.selftest import _copy_tree
    from vt.core import Report, AnalysisError, load_known
    from vt.loader import Repo
    import importlib
    d = os.path.join(TW, tid)
    base = tempfile.mkdtemp(prefix='twin_')
    try:
        _copy_tree('/repo', base)
        p = subprocess.run('patch -p1 -s < %s' % os.path.join(d, 'patch.diff'), cwd=base, shell=True, stdout=subprocess.PIPE, stderr=subprocess.STDOUT, text=True)
        if p.returncode != 0:
            return tid, {'error': p.stdout[-300:]}
        from vt.core import known_set, is_known
        kk = known_set()
        res = {}
        for pid in ALL:
            pm = importlib.import_module('vt.props.%s' % pid.lower())
            try:
                rep = Report(pid, 'quick', Repo(base))
                pm.run(rep)
                v = [(o.rule, o.key, o.detail[:220]) for o in rep.obligations if not o.ok and not is_known(pid, o.rule, o.key, kk)]
                if v:
                    res[pid] = ('viol', v)
                elif rep.gaps:
                    res[pid] = ('analysis-error', [('', '', '; '.join(rep.gaps)[:300])])
            except AnalysisError as e:
                res[pid] = ('analysis-error', [('', '', str(e)[:300])])
            except Exception:
                import traceback
                res[pid] = ('crash', [('', '', traceback.format_exc()[-500:])])
        return tid, res
    finally:
        shutil.rmtree(base, ignore_errors=True)


def main():
    args = [a for a in sys.argv[1:] if not a.startswith('--')]
    only_props = [a[8:].split(',') for a in sys.argv[1:] if a.startswith('--props=')]
    global ALL
    if only_props:
        ALL = only_props[0]
    tw = sorted(t for t in os.listdir(TW) if os.path.isfile(os.path.join(TW, t, 'meta.json')))
    if args:
        tw = [t for t in tw if t in args]
    out = {}
    with ProcessPoolExecutor(max_workers=16) as ex:
        for tid, res in ex.map(one, tw):
            out[tid] = dict((k, {'status': v[0], 'details': [list(x) for x in v[1][:3]]}) for k, v in res.items()) if 'error' not in res else res
            if not res:
                continue
            print('%-14s ALARM %s' % (tid, 'ERROR ' + res['error'] if 'error' in res else ''))
            if 'error' not in res:
                for pid, (st, v) in sorted(res.items()):
                    for r, k, dtl in v[:3]:
                        print('      %s %s [%s] %s -- %s' % (pid, st, r, k[:90], dtl[:160]))
    silent = sum(1 for t in tw if not out.get(t))
    print('twins: %d, silent: %d, alarms: %d' % (len(tw), silent, len(tw) - silent))
    if not args and '--write' in sys.argv:
        with open(os.path.join(TW, 'RESULTS.json'), 'w') as f:
            json.dump(out, f, indent=1, sort_keys=True)
    elif args and '--merge' in sys.argv:
        # add / replace the entries of the named twins only (the others keep the verdicts of the last full run)
        rp = os.path.join(TW, 'RESULTS.json')
        cur = json.load(open(rp)) if os.path.exists(rp) else {}
        for t in tw:
            cur[t] = out.get(t, {})
        with open(rp, 'w') as f:
            json.dump(cur, f, indent=1, sort_keys=True)


if __name__ == '__main__':
    main()
