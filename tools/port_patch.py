#!/venv/bin/python
"""Port a seeded / twin patch across a repair commit of /repo (3-way): the patch is applied to the parent of the repair in a
scratch worktree, the repair is cherry-picked on top, and the difference to the repaired tree is the ported patch.

usage: tools/port_patch.py <repair commit> <id> [<id> ...]     -> writes /tmp/port/<id>.diff or reports a conflict
"""
import os
import subprocess
import sys

WT = '/tmp/port/wt'


def sh(cmd, cwd=None):
    p = subprocess.run(cmd, shell=True, cwd=cwd, stdout=subprocess.PIPE, stderr=subprocess.STDOUT, text=True)
    return p.returncode, p.stdout


def main():
    fix = sys.argv[1]
    os.makedirs('/tmp/port', exist_ok=True)
    for pid in sys.argv[2:]:
        src = None
        for base in ('/verif/seeded', '/verif/twins'):
            if os.path.isfile(os.path.join(base, pid, 'patch.diff')):
                src = os.path.join(base, pid, 'patch.diff')
        sh('git -C /repo worktree remove --force %s' % WT)
        rc, out = sh('git -C /repo worktree add --detach %s %s^' % (WT, fix))
        rc, out = sh('patch -p1 -s -f < %s' % src, WT)
        if rc != 0:
            print(pid, 'does not apply to the parent of the repair:', out[-200:])
            continue
        sh('git add -A && git -c user.name=x -c user.email=x@x commit -q -m ported', WT)
        rc, out = sh('git -c user.name=x -c user.email=x@x cherry-pick %s' % fix, WT)
        if rc != 0:
            print(pid, 'CONFLICT:', out[-300:])
            rc2, diff = sh('git diff', WT)
            open('/tmp/port/%s.conflict' % pid, 'w').write(diff)
            continue
        rc, diff = sh('git diff %s HEAD -- clastic' % fix, WT)
        open('/tmp/port/%s.diff' % pid, 'w').write(diff)
        print(pid, 'ported: /tmp/port/%s.diff (%d lines)' % (pid, diff.count('\n')))
    sh('git -C /repo worktree remove --force %s' % WT)
    sh('git -C /repo worktree prune')


if __name__ == '__main__':
    main()
