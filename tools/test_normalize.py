#!/venv/bin/python
"""Differential test of vt/normalize.py (the checker's own front-end, not clastic): for small modules with helper
functions of every supported shape, the normalised module must compute the same results / raise the same exception
types as the original, and the helpers must actually have been inlined.  Also normalises every module of /repo and
checks the result still compiles.

usage: tools/test_normalize.py   -> prints PASS / FAIL lines, exit 1 on any failure
"""
import ast
import os
import sys

sys.path.insert(0, os.path.dirname(os.path.dirname(os.path.abspath(__file__))))
from vt import normalize  # noqa

CASES = []


def case(name, src, calls, expect_inlined=True):
    CASES.append((name, src, calls, expect_inlined))


case('single return', '''
def _h(a, b=2):
    x = a * b
    return x + 1
def f(v):
    r = _h(v)
    return r, _unused if False else r
_unused = 0
''', ['f(1)', 'f(5)'])

case('guard clauses', '''
def _h(a):
    if a < 0:
        return 'neg'
    if a == 0:
        return 'zero'
    return 'pos'
def f(v):
    s = _h(v)
    return s + '!'
''', ['f(-1)', 'f(0)', 'f(3)'])

case('return context', '''
def _h(a):
    if a:
        return [a]
    return []
def f(v):
    return _h(v)
''', ['f(0)', 'f(2)'])

case('expr context with raise', '''
def _check(a):
    if a > 3:
        raise ValueError('big')
    return None
def f(v):
    _check(v)
    return v * 2
''', ['f(1)', 'f(9)'])

case('try/except return (tag request shape)', '''
class R(object):
    pass
def _tag(r, n):
    try:
        r.x = 10 // n
    except Exception:
        return
    r.y = r.x + 1
def f(n):
    r = R()
    _tag(r, n)
    return getattr(r, 'x', None), getattr(r, 'y', None)
''', ['f(0)', 'f(5)'])

case('try body returns, handler falls', '''
def _conv(s):
    try:
        return int(s)
    except ValueError:
        pass
    return -1
def f(s):
    v = _conv(s)
    return v + 1
''', ['f("3")', 'f("x")'])

case('loop with return', '''
def _find(xs, k):
    for i, x in enumerate(xs):
        if x == k:
            return i
    return None
def f(k):
    pos = _find([4, 5, 6], k)
    return ('at', pos)
''', ['f(5)', 'f(9)'])

case('tuple return into tuple target', '''
def _pick(a, flag):
    if flag:
        return a, 'yes'
    return None, 'no'
def f(a, flag):
    x, y = _pick(a, flag)
    return [x, y]
''', ['f(1, True)', 'f(1, False)'])

case('method helper and keyword args', '''
class K(object):
    def __init__(self):
        self.base = {'r': 1}
    def _layer(self, builtins, overrides):
        d = dict(builtins)
        d.update(self.base)
        d.update(overrides)
        return d
    def run(self, **kw):
        inj = self._layer({'a': 0}, overrides=kw)
        return sorted(inj.items())
def f(**kw):
    return K().run(**kw)
''', ['f()', 'f(a=5, z=1)'])

case('static and class helpers', '''
class K(object):
    tag = 'k'
    @staticmethod
    def _s(a):
        return a + 1
    @classmethod
    def _c(cls, a):
        return cls.tag + str(a)
    def run(self, a):
        x = self._s(a)
        y = self._c(x)
        z = K._s(x)
        return x, y, z
def f(a):
    return K().run(a)
''', ['f(1)'])

case('helper call in if-test and in expression', '''
def _ok(a):
    return a % 2 == 0
def _dbl(a):
    return a * 2
def f(a):
    if _ok(a):
        return 'even', 1 + _dbl(a)
    return 'odd', _dbl(a) - 1
''', ['f(2)', 'f(3)'])

case('nested helpers', '''
def _inner(a):
    if a is None:
        return 0
    return a
def _outer(a, b):
    x = _inner(a)
    y = _inner(b)
    return x + y
def f(a, b):
    t = _outer(a, b)
    return t
''', ['f(None, 2)', 'f(1, None)', 'f(3, 4)'])

case('name clash between helper local and caller local', '''
def _h(a):
    x = a + 1
    y = x * 2
    return y
def f(a):
    x = 100
    r = _h(a)
    return x, r
''', ['f(1)'])

case('argument that is not simple is evaluated once', '''
calls = []
def _noisy(a):
    calls.append(a)
    return a
def _h(p):
    return p + p
def f(a):
    del calls[:]
    r = _h(_noisy2(a))
    return r, list(calls)
def _noisy2(a):
    calls.append(a)
    return a
''', ['f(2)'], expect_inlined=True)

case('parameter re-assigned in helper', '''
def _h(a):
    a = a or 'dflt'
    return a.upper()
def f(a):
    v = _h(a)
    return v, a
''', ['f("")', 'f("x")'])

case('conditional expression / getattr canon', '''
class O(object):
    a = 3
def f(flag):
    o = O()
    t = getattr(o, 'a') if flag else 0
    return t if not t == 3 else 'three'
''', ['f(True)', 'f(False)'], expect_inlined=False)

case('generator helper is not inlined', '''
def _gen(xs):
    for x in xs:
        yield x + 1
def f():
    return list(_gen([1, 2]))
''', ['f()'], expect_inlined=False)

case('recursive helper is not inlined', '''
def _fact(n):
    if n <= 1:
        return 1
    return n * _fact(n - 1)
def f(n):
    return _fact(n)
''', ['f(5)'], expect_inlined=False)

case('helper falling off the end', '''
def _h(a, out):
    if a:
        out.append(a)
def f(a):
    out = []
    r = _h(a, out)
    return r, out
''', ['f(0)', 'f(7)'])

case('with block returning', '''
import io
def _read(s):
    with io.StringIO(s) as fh:
        return fh.read().upper()
def f(s):
    v = _read(s)
    return v
''', ['f("ab")'])

case('for/else and continue inside helper', '''
def _collect(xs):
    out = []
    for x in xs:
        if x < 0:
            continue
        out.append(x)
    else:
        out.append('end')
    return out
def f():
    return _collect([1, -1, 2])
''', ['f()'])


case('x = _h(x) and result name equal to a caller variable', '''
def _h(v):
    res = []
    for i in v:
        res.append(i * 2)
    return res
def f(x):
    res = 'keep'
    x = _h(x)
    y = _h(x)
    return res, x, y
''', ['f([1, 2])'])

case('default referring to a module constant; kw-only parameter', '''
_D = 7
def _h(a, b=_D, *, c=1):
    return a + b + c
def f(a):
    u = _h(a)
    v = _h(a, 1, c=5)
    w = _h(b=2, a=a)
    return u, v, w
''', ['f(1)'])

case('helper local shadows a name used in an argument expression', '''
def _h(p):
    q = 10
    return p + q
def f(q):
    r = _h(q + 1)
    return r, q
''', ['f(1)'])

case('exception type preserved through try with handler that re-raises', '''
def _h(a):
    try:
        return 10 // a
    except ZeroDivisionError:
        raise ValueError('zero')
def f(a):
    try:
        v = _h(a)
    except ValueError:
        return 'caught'
    return v
''', ['f(0)', 'f(2)'])

case('helper used twice in one statement', '''
def _inc(a):
    return a + 1
def f(a):
    return _inc(a) * _inc(a + 1)
''', ['f(1)'])

case('early return inside else branch of nested if', '''
def _h(a, b):
    if a:
        if b:
            return 'ab'
        tail = 'a'
    else:
        if b:
            return 'b'
        tail = '-'
    return tail * 2
def f(a, b):
    v = _h(a, b)
    return v
''', ['f(0, 0)', 'f(0, 1)', 'f(1, 0)', 'f(1, 1)'])

case('method helper overridden in a subclass is left alone', '''
class A(object):
    def _h(self):
        return 'A'
    def run(self):
        return self._h()
class B(A):
    def _h(self):
        return 'B'
def f():
    return A().run(), B().run()
''', ['f()'], expect_inlined=False)

case('single-expression helper on the right of `and` / in a conditional expression branch', '''
def _timed(e):
    return e not in ('never', 'session') and e is not None
def f(cookie, e):
    if cookie and _timed(e):
        return 'stamp'
    return ('no', 1 if _timed(e) else 0)
''', ['f({}, 5)', 'f({1: 1}, 5)', 'f({1: 1}, "never")', 'f({1: 1}, None)'])

case('boolean context: helper on the right of `and` is not hoisted', '''
log = []
def _side(a):
    log.append(a)
    return True
def f(a):
    del log[:]
    r = a and _side(a)
    return r, list(log)
''', ['f(0)', 'f(1)'], expect_inlined=False)


case('loop over a tuple of variables is unrolled (and stays equivalent)', '''
def f(a, b, c):
    out = []
    for x in (a, b, c):
        if x is None:
            continue
        out.append(x * 2)
    total = 0
    for y in (a, b):
        if y:
            total += y
        else:
            break
    return out, total
''', ['f(1, None, 3)', 'f(0, 5, 1)', 'f(2, 3, None)'], expect_inlined=False)

case('local closure called after its definition', '''
def f(items):
    seen = {}
    def reg(k, v):
        seen.setdefault(k, []).append(v)
        return len(seen[k])
    n = 0
    for k, v in items:
        n += reg(k, v)
    reg('z', 0)
    return seen, n
''', ['f([("a", 1), ("a", 2), ("b", 3)])'])

case('closure passed as a value is not inlined', '''
def f(xs):
    def key(x):
        return -x
    return sorted(xs, key=key)
''', ['f([1, 3, 2])'], expect_inlined=False)

case('closure whose local clashes with the enclosing function', '''
def f(a):
    t = 100
    def h(x):
        t = x + 1
        return t * 2
    r = h(a)
    return t, r
''', ['f(1)'])

case('closure reading an enclosing variable that changes between calls', '''
def f():
    base = 1
    def add(x):
        return base + x
    a = add(1)
    base = 10
    b = add(1)
    return a, b
''', ['f()'])


case('helper that mutates its **kw gets its own copy of the mapping', '''
class K(object):
    def _bind(self, app, **kwargs):
        kwargs.setdefault('x', 1)
        return sorted(kwargs.items()), app
    def run(self, app, **kwargs):
        r = self._bind(app, **kwargs)
        return r, sorted(kwargs.items())
def f(**kw):
    return K().run('A', **kw)
''', ['f()', 'f(x=5, y=2)'])

case('helper that only passes **kw on', '''
def target(app, **kw):
    return app, sorted(kw.items())
class K(object):
    def _bind(self, app, **kwargs):
        if app is None:
            return None
        return target(app, **kwargs)
    def run(self, app, **kwargs):
        r = self._bind(app, **kwargs)
        return r, sorted(kwargs.items())
def f(app, **kw):
    return K().run(app, **kw)
''', ['f(None)', 'f("A", x=5, y=2)'])

# ---------------------------------------------------------------------------------------- second half (normalize2)
case('walrus guard', '''
def f(xs):
    if (n := len(xs)) > 2:
        return n
    if not (ys := [x for x in xs if x]):
        return 'empty'
    return ys
''', ['f([1,2,3])', 'f([0])', 'f([1])'])

case('walrus not first: left alone', '''
log = []
def g(x):
    log.append(x)
    return x
def f(a):
    if g(a) and (m := g(a + 1)):
        return m
    return list(log)
''', ['f(0)', 'f(1)'], expect_inlined=False)

case('context manager: exception translation', '''
from contextlib import contextmanager
class Refused(Exception):
    pass
@contextmanager
def _refuse():
    try:
        yield
    except (ValueError, OSError):
        raise Refused()
def f(x):
    with _refuse():
        v = int(x)
    return v
''', ['f("3")', 'f("x")', 'f(None)'])

case('context manager: finally, as-target, early return in body', '''
import contextlib
log = []
@contextlib.contextmanager
def _tracked(name, factor=2):
    log.append('enter ' + name)
    h = [factor]
    try:
        yield h
    finally:
        log.append('exit ' + name)
def f(x):
    with _tracked('a') as h:
        if x < 0:
            return ('neg', list(log))
        h.append(x * h[0])
    return (h, list(log))
''', ['f(1)', 'f(-1)', 'f(2)'])

case('context manager with code behind the yield and a returning body: left alone', '''
from contextlib import contextmanager
log = []
@contextmanager
def _cm():
    yield
    log.append('after')
def f(x):
    with _cm():
        if x:
            return list(log)
    return list(log)
''', ['f(0)', 'f(1)', 'f(1)'], expect_inlined=False)

case('context manager method swallowing', '''
from contextlib import contextmanager
class K(object):
    def __init__(self):
        self.seen = []
    @contextmanager
    def _quiet(self, tag):
        try:
            yield
        except KeyError as e:
            self.seen.append((tag, 'key'))
        else:
            self.seen.append((tag, 'fine'))
    def run(self, d, k):
        with self._quiet(k):
            d[k]
        return list(self.seen)
def f(k):
    return K().run({'a': 1}, k)
''', ['f("a")', 'f("b")'])

case('chain loop', '''
from itertools import chain
def f(a, b, rs):
    seen = []
    for x in chain(a, reversed(b), chain.from_iterable(r['m'] for r in rs if r)):
        if x in seen:
            continue
        seen.append(x)
    return seen
''', ['f([1,2],[2,3],[{"m":[3,4]},{},{"m":[9]}])', 'f([],[],[])'])

case('chain loop with break: left alone', '''
import itertools
def f(a, b):
    out = []
    for x in itertools.chain(a, b):
        if x == 0:
            break
        out.append(x)
    return out
''', ['f([1,0],[2])', 'f([1],[2])'], expect_inlined=False)

case('chain loop whose body mutates a later iterable: left alone', '''
from itertools import chain
def f(a, b):
    out = []
    for x in chain(a, b):
        out.append(x)
        if x == 1:
            b.append(7)
    return out
''', ['f([1],[2])'], expect_inlined=False)

case('table of predicates: any / all', '''
def _neg(x, y):
    return x < 0
def _big(x, y):
    return x > y
def _odd(x, y):
    return x % 2
_CHECKS = (_neg, _big, _odd)
def f(x, y):
    if any(c(x, y) for c in _CHECKS):
        return 'skip'
    v = all(c(x, y) for c in _CHECKS)
    return ('go', v, any(c(x, y) for c in _CHECKS))
''', ['f(-1, 0)', 'f(2, 5)', 'f(7, 5)', 'f(3, 9)'])

case('table of converters: for with return', '''
_NOT = object()
def _a(o):
    if isinstance(o, dict):
        return sorted(o)
    return _NOT
def _b(o):
    try:
        return list(o)
    except TypeError:
        return _NOT
_CONVS = (_a, _b)
def f(o):
    for conv in _CONVS:
        r = conv(o)
        if r is not _NOT:
            return r
    raise TypeError('no')
''', ['f({"b":1,"a":2})', 'f((1,2))', 'f(5)'])

case('table of (name, getter) rows', '''
import operator
def _ep(o):
    return o['ep'].upper()
_FIELDS = (('pattern', operator.attrgetter('pattern')), ('ep', _ep), ('repr', repr))
class O(dict):
    pattern = '/x'
def f():
    o = O(ep='e')
    d = {}
    for name, get in _FIELDS:
        d[name] = get(o)
    return sorted(d.items())
''', ['f()'])

case('rebound table: left alone', '''
def _a(x):
    return x + 1
_T = (_a,)
_T = _T + (_a,)
def f(x):
    for g in _T:
        x = g(x)
    return x
''', ['f(1)'], expect_inlined=False)

case('namedtuple container', '''
from collections import namedtuple
_Phase = namedtuple('_Phase', 'funcs provides')
def _collect(mws, attr):
    sigs = [(m[attr], m[attr + '_p']) for m in mws if m.get(attr)]
    funcs, provides = list(zip(*sigs)) or ((), ())
    return _Phase(funcs, provides)
def f(mws):
    ep = _collect(mws, 'e')
    rn = _collect(mws, 'r')
    return ep.funcs, ep.provides, rn[0], len(rn.provides), ep
''', ['f([{"e":1,"e_p":2,"r":3,"r_p":4},{"e":5,"e_p":6}])', 'f([])'])

case('record class as a function object', '''
class _Builder(object):
    SEP = '/'
    def __init__(self, mode, names=None):
        self.mode = mode
        self.parts = []
        self.names = dict(names or {})
    def add(self, p, name=None):
        if name is not None:
            if name in self.names:
                raise ValueError(name)
            self.names[name] = len(self.parts)
        self.parts.append(self._quote(p))
    def _quote(self, p):
        return p.upper() if self.mode == 'U' else p
    def build(self):
        return self.SEP.join(self.parts), self.names
def f(mode, segs):
    b = _Builder(mode)
    for s in segs:
        if s.startswith('<'):
            b.add(s, name=s.strip('<>'))
        else:
            b.add(s)
    return b.build()
def g(mode):
    return _Builder(mode, {'z': 9}).build()
''', ['f("U", ["a", "<b>", "c"])', 'f("x", ["<a>", "<a>"])', 'g("U")', 'f("U", [])'])

case('record class whose instance escapes: left alone', '''
class _Conv(object):
    def __init__(self, k):
        self.k = k
    def run(self, x):
        return x * self.k
def f(k):
    c = _Conv(k)
    return c
def g(k):
    return f(k).run(2)
''', ['g(3)'], expect_inlined=False)

case('method moved into a private mixin listed after a foreign base', '''
class Base(object):
    pass
class _Mixin(object):
    def _build(self, a, x=0):
        return (self.tag, a, x)
class K(Base, _Mixin):
    tag = 'k'
    def run(self, a):
        return self._build(a, x=1)
def f(a):
    return K().run(a)
''', ['f(1)'])

case('copy propagation keeps order of re-binding', '''
class O(object):
    def __init__(self, v):
        self.v = v
def f(a, b):
    x = a
    r1 = x.v
    a = b
    r2 = x.v           # still the old a
    y = 'v'
    r3 = getattr(a, y)
    for i in range(2):
        r4 = getattr(x, y)
        y = 'w' if i else 'v'
    z = x
    g = lambda: z.v    # late binding
    z = b
    try:
        k = 'v'
        q = getattr(a, k)
    except AttributeError:
        q = None
    return r1, r2, r3, g(), q, [x.v for x in (a, b)], x.v
def h():
    o1, o2 = O(1), O(2)
    o1.w = 10
    return f(o1, o2)
''', ['h()'], expect_inlined=False)

case('lazy temporaries feeding a chain loop', '''
import itertools
def _append_unseen(seen, candidates):
    for c in candidates:
        if c not in seen:
            seen.append(c)
def f(routes, own):
    seen = []
    _append_unseen(seen, own)
    per_route = (r['m'] for r in reversed(routes))
    cands = itertools.chain.from_iterable(per_route)
    _append_unseen(seen, cands)
    return seen
''', ['f([{"m":[1,2]},{"m":[2,3]}],[3,9])', 'f([],[])'])

case('lazy temporary whose source is re-bound in between: left alone', '''
from itertools import chain
def f(a, b):
    t = chain(a, b)
    a = [7]
    out = []
    for x in t:
        out.append(x)
    return out
''', ['f([1],[2])'], expect_inlined=False)

case('explicit keywords landing in a pass-through **kw', '''
def target(a, x=0, y=0, z=0):
    return (a, x, y, z)
class _Mixin(object):
    def _build(self, a, **opts):
        return target(a, x=self.k, **opts)
class K(_Mixin):
    k = 5
    def run(self, a, m):
        more = {'z': 3}
        return self._build(a, y=m), self._build(a, y=m, **more), self._build(a)
def f(a, m):
    return K().run(a, m)
''', ['f(1, 2)'])

case('default evaluated once (a call) is not re-evaluated per call', '''
_n = [0]
def _tick():
    _n[0] += 1
    return _n[0]
def _pick(given=None, fallback=_tick()):
    return given or fallback
def f(v):
    return _pick(v), _pick(None), _pick()
''', ['f(0)', 'f(7)', 'f(None)'], expect_inlined=False)

case('mutable default is one object for all calls', '''
def _collect(x, acc=[]):
    acc.append(x)
    return list(acc)
def f(v):
    return _collect(v), _collect(v + 1)
''', ['f(1)', 'f(5)'], expect_inlined=False)

case('constant / named / tuple defaults are still materialised', '''
_MISSING = object()
def _h(a, b=-1, c=(1, 'x'), d=_MISSING, e=None):
    return (a, b, c, d is _MISSING, e)
def f(v):
    return _h(v), _h(v, 2)
''', ['f(1)'])

case('class method of a private named-tuple container, called through the class name', '''
from collections import namedtuple
class _Opts(namedtuple('_Opts', ['prefix', 'flag'])):
    __slots__ = ()
    @classmethod
    def from_kwargs(cls, kw):
        o = cls(prefix=kw.pop('prefix', ''), flag=kw.pop('flag', True))
        if kw:
            raise TypeError('left: %r' % sorted(kw))
        return o
    @staticmethod
    def describe(o):
        return '%s/%s' % (o.prefix, o.flag)
def f(**kwargs):
    opts = _Opts.from_kwargs(kwargs)
    return opts.prefix + 'x', opts.flag, opts[0], _Opts.describe(opts), type(opts).__name__, kwargs
''', ['f()', 'f(prefix="/a")', 'f(flag=0, prefix="p")', 'f(other=1)'])

case('named-tuple subclass with its own constructor / a re-bound class name: left alone', '''
from collections import namedtuple
class _P(namedtuple('_P', 'a b')):
    def __new__(cls, a, b=5):
        return super(_P, cls).__new__(cls, a, b * 2)
class _Q(namedtuple('_Q', 'a b')):
    @classmethod
    def make(cls, a):
        return cls(a, 1)
_Q2 = _Q
class _Q(namedtuple('_Q', 'a b')):
    @classmethod
    def build(cls, a):
        return cls(a, 2)
def f(x):
    p = _P(x, 3)
    q = _Q.build(x)
    return p.a, p.b, q.b, _Q2.make(x).b
''', ['f(1)'], expect_inlined=False)

case('for over a one-loop generator method', '''
class App(object):
    def __init__(self, routes):
        self.routes = routes
    def _iter_matches(self, path, base):
        wanted = path.strip('/')
        for name, methods in self.routes:
            if name != wanted and name != '*':
                continue
            params = dict(base, name=name)
            yield name, methods, params
    def dispatch(self, path, method):
        seen = []
        for route, methods, params in self._iter_matches(path, {'k': 1}):
            seen.append(route)
            if method not in methods:
                continue
            if route == '*':
                break
            return ('hit', route, sorted(params.items()), seen)
        return ('miss', seen)
def f(path, method):
    return App([('a', 'GP'), ('b', 'G'), ('*', 'GP'), ('a', 'P')]).dispatch(path, method)
''', ['f("/a", "G")', 'f("/a", "X")', 'f("/b", "P")', 'f("/zz", "G")'])

case('generator with code behind its loop: left alone', '''
log = []
def _gen(xs):
    for x in xs:
        yield x
    log.append('done')
def f(xs):
    out = []
    for x in _gen(xs):
        if x == 2:
            break
        out.append(x)
    return out, list(log)
''', ['f([1, 2, 3])', 'f([1])'], expect_inlined=False)

case('helper that consumes its **kw', '''
class R(object):
    def __init__(self):
        self.res = {'r': 1}
    def _make(self, request, overrides, **extra):
        d = {'request': request}
        d.update(extra)
        d.update(self.res)
        d.update(overrides)
        extra['seen'] = True
        return d
    def execute(self, request, **kwargs):
        return sorted(self._make(request, kwargs).items())
    def execute_error(self, request, _error, **kwargs):
        more = {'z': 26}
        return sorted(self._make(request, kwargs, _error=_error).items()), sorted(self._make(request, kwargs, **more).items()), more
def f():
    r = R()
    return r.execute('q', a=1), r.execute_error('q', 'E', b=2)
''', ['f()'])
case('one-element list read back in the block of its one append', '''
def g(v):
    if v > 2:
        raise ValueError(v)
    return [v]
def f(v):
    box = []
    try:
        put = box.append
        r = g(v)
        put(r)
        got = box[0]
        tag = 'ok %d' % len(got)
    except ValueError as e:
        tag = 'bad'
        got = None
    return tag, got, box, box[-1] if box else None
''', ['f(1)', 'f(3)'], expect_inlined=False)       # (the list is also read whole: left alone)

case('one-element list: direct append, both indices', '''
def f(v):
    box = []
    r = [v, v]
    box.append(r)
    a = box[0]
    if v:
        b = box[-1]
    else:
        b = None
    return a is r, b is r or b is None
''', ['f(1)', 'f(0)'])

case('one-element list: through a bound-method temporary inside try', '''
def g(v):
    if v > 2:
        raise ValueError(v)
    return [v]
def f(v):
    box = []
    try:
        put = box.append
        r = g(v)
        put(r)
        got = box[0]
        tag = 'ok %d' % len(got)
    except ValueError as e:
        tag = 'bad'
        got = None
    return tag, got
''', ['f(1)', 'f(3)'])

case('one-element list: value re-bound before the read', '''
def f(v):
    box = []
    r = [v]
    box.append(r)
    r = 'other'
    return box[0], r
''', ['f(1)'], expect_inlined=False)

case('one-element list: append inside a loop', '''
def f(v):
    box = []
    for r in (v, v + 1):
        box.append(r)
        last = box[0]
    return last
''', ['f(1)'], expect_inlined=False)

case('one-element list: two append sites', '''
def f(v):
    box = []
    r = v + 1
    if v:
        box.append(v)
    box.append(r)
    return box[0]
''', ['f(1)', 'f(0)'], expect_inlined=False)

case('one-element list: the list escapes', '''
def h(b):
    b.insert(0, 'x')
def f(v):
    box = []
    r = v + 1
    box.append(r)
    h(box)
    return box[0]
''', ['f(1)'], expect_inlined=False)

case('one-element list: read before the append / in another block', '''
def f(v):
    box = []
    r = v + 1
    try:
        if v:
            box.append(r)
        out = box[0]
    except IndexError:
        out = 'empty'
    return out
''', ['f(1)', 'f(0)'], expect_inlined=False)


case('generator consumed by a for loop (one loop ending in its only yield)', '''
class R(object):
    def __init__(self, n):
        self.n = n
    def match(self, p):
        return {'n': self.n} if p % self.n == 0 else None
class App(object):
    def __init__(self):
        self.routes = [R(2), R(3), R(5)]
        self.log = []
    def _iter_matches(self, req, path, base):
        self.log.append('start')
        for route in self.routes + [R(1)]:
            found = route.match(path)
            if found is None:
                continue
            req['last'] = found
            yield route, dict(base, **found)
    def run(self, path, stop):
        req, out, route = {}, [], None
        base = {'b': 1}
        for route, params in self._iter_matches(req, path, base):
            out.append((route.n, sorted(params.items()), dict(req)))
            if route.n == stop:
                break
            if route.n == 3:
                continue
            out.append('tail')
        else:
            out.append('exhausted')
        return out, self.log, route.n
def f(path, stop):
    return App().run(path, stop)
''', ['f(6, 0)', 'f(6, 3)', 'f(30, 5)', 'f(7, 1)', 'f(0, 9)'])

case('generator argument re-bound by the consuming loop: left alone', '''
class App(object):
    def _gen(self, xs):
        for x in xs:
            yield x
    def run(self, xs):
        out = []
        for y in self._gen(xs):
            xs = [9]
            out.append(y)
        return out
def f():
    return App().run([1, 2])
''', ['f()'], expect_inlined=False)

case('table lookup with next() and the call through the looked-up function', '''
A, B = 'a', 'b'
def _on_a(x, log):
    log.append('a')
    return x + 1
def _on_b(x, log):
    log.append('b')
    return None
_HANDLERS = ((A, _on_a), (B, _on_b))
def _lookup(mode):
    return next((h for m, h in _HANDLERS if mode == m), None)
def f(mode, x):
    log = []
    handle = _lookup(mode)
    if handle is not None:
        r = handle(x, log)
        if r is not None:
            return r, log
        return 'none', log
    return 'no handler', log
def g(mode, x):
    log = []
    handle = _lookup(mode)
    r = handle(x, log)
    return r, log
''', ['f("a", 1)', 'f("b", 1)', 'f("c", 1)', 'g("a", 2)', 'g("b", 2)', 'g("zz", 2)'])

case('classmethod of a private namedtuple subclass', '''
from collections import namedtuple
class _Opts(namedtuple('_Opts', ['prefix', 'flag'])):
    "options"
    __slots__ = ()
    @classmethod
    def from_kwargs(cls, kw):
        opts = cls(prefix=kw.pop('prefix', ''), flag=kw.pop('flag', True))
        if kw:
            raise TypeError('unexpected: %r' % sorted(kw))
        return opts
def f(**kw):
    opts = _Opts.from_kwargs(kw)
    return opts.prefix + 'x', (1 if opts.flag else 2), tuple(opts)
''', ['f()', 'f(prefix="p")', 'f(flag=False, prefix="q")', 'f(other=1)'])


case('helper that reads its **kw as a mapping, called with explicit keywords', '''
class C(object):
    def __init__(self):
        self.res = {'r': 1, 'request': 'shadowed?'}
    def _mk(self, req, over, **extra):
        d = {'_route': 'me'}
        d.update(extra)
        d['request'] = req
        d.update(self.res)
        d.update(over)
        extra['seen'] = True
        return d, sorted(extra)
    def a(self, req, **kw):
        d, e = self._mk(req, kw)
        return sorted(d.items()), e
    def b(self, req, err, **kw):
        d, e = self._mk(req, kw, _error=err, _route=err)
        return sorted(d.items()), e
def f(x):
    c = C()
    return c.a(x, k=1), c.b(x, 'E', k=2), c.a(x), c.b(x, None)
''', ['f(1)', 'f("q")'])

case('helper that reads its **kw as a mapping, called with **', '''
def _mk(base, **extra):
    d = dict(base)
    d.update(extra)
    extra.clear()
    return d
def f(m):
    return sorted(_mk({'a': 1}, **m).items()), sorted(m)
''', ['f({"b": 2})', 'f({})'])

case('generator that is a loop head, fused with the loop consuming it', '''
class A(object):
    def __init__(self):
        self.items = [1, 2, 3, 4, 5, 6, 7]
        self.log = []
    def _pairs(self, k, base):
        # yields (item, params) for the items that qualify
        for it in self.items:
            v = it * k
            if v % 4 == 0:
                self.log.append(('skip', it))
                continue
            self.log.append(('give', it))
            yield (it, dict(base, v=v))
    def run(self, k, stop):
        out = []
        it = 'before'
        item = None
        for item, d in self._pairs(k, {'b': 0}):
            self.log.append(('got', item))
            if item == stop:
                break
            if item % 3 == 0:
                continue
            out.append((item, sorted(d.items())))
        return out, self.log, item, it
def f(k, stop):
    return A().run(k, stop)
''', ['f(2, 5)', 'f(2, 99)', 'f(1, 1)', 'f(4, 0)', 'f(1, 7)'])

case('generator loop head whose argument the consuming loop re-binds: left alone', '''
def _scaled(xs, k):
    for x in xs:
        yield x * k
def f(n):
    k = 2
    out = []
    for v in _scaled(range(n), k):
        k = k + 1
        out.append((v, k))
    return out
''', ['f(0)', 'f(4)'], expect_inlined=False)

case('generator with code behind the yield / a break: left alone', '''
def _g(xs, log):
    for x in xs:
        if x > 3:
            break
        yield x
        log.append(x)
def f(n):
    log = []
    out = []
    for v in _g(range(n), log):
        if v == 2:
            break
        out.append(v)
    return out, log
''', ['f(2)', 'f(6)'], expect_inlined=False)


case('local closure that reads its **kw as a mapping', '''
def f(x):
    def build(base, **extra):
        d = dict(base)
        d.update(extra)
        return sorted(d.items()), len(extra)
    return build({'a': x}, b=x), build({'a': 1})
''', ['f(1)', 'f("s")'])


case('read-only property read on self (also from a subclass and from another property; public name; other receivers left alone)', '''
class R(object):
    def __init__(self, cap):
        self._data, self._cap = [], cap
    @property
    def _n(self):
        return len(self._data)
    @property
    def room(self):
        "capacity left"
        return self._cap - self._n
    def add(self, v):
        if self._n < self._cap:
            self._data.append(v)
            return True
        return False
    def has_room(self, len=None):
        return self.room > 0, self._n
    def __repr__(self):
        return '<R %r/%r room=%r>' % (self._n, self._cap, self.room)
class S(R):
    def add2(self, v):
        return (self._n, R.add(self, v), self._n)
class Q(object):
    @property
    def _q(self):
        return 5
    def get(self, other):
        return self._q + other._q, type(Q._q).__name__
def f(k):
    r = S(2)
    out = [r.add(i) for i in range(k)]
    return out, repr(r), r.room, r.add2(9), r.has_room(), Q().get(Q())
''', ['f(0)', 'f(1)', 'f(3)'])

case('property with a setter / re-defined in a subclass / instance parameter re-bound is left alone', '''
class R(object):
    def __init__(self):
        self._v = 1
    @property
    def _p(self):
        return self._v + 1
    @_p.setter
    def _p(self, v):
        self._v = v
    def get(self):
        return self._p
class B(object):
    @property
    def _k(self):
        return 1
    def get(self):
        return self._k
class D(B):
    @property
    def _k(self):
        return 2
class E(object):
    @property
    def _e(self):
        return 3
    def get(self, other):
        self = other
        return self._e
def f(x):
    r = R()
    r._p = x
    return r.get(), B().get(), D().get(), E().get(E())
''', ['f(1)', 'f(4)'], expect_inlined=False)


def run_case(name, src, calls, expect_inlined):
    tree = ast.parse(src)
    normalize._ANCHORS = set()      # nothing is an anchor in these toy modules
    new, n = normalize.normalize_tree(ast.parse(src), lambda ident: False)
    out = ast.unparse(new)
    try:
        code_a = compile(tree, '<orig>', 'exec')
        code_b = compile(ast.parse(out), '<norm>', 'exec')
    except SyntaxError as e:
        return 'normalised module does not compile: %s\n%s' % (e, out)
    ga, gb = {}, {}
    exec(code_a, ga)
    exec(code_b, gb)
    for c in calls:
        ra = rb = None
        try:
            ra = ('ok', eval(c, ga))
        except Exception as e:
            ra = ('exc', type(e).__name__)
        try:
            rb = ('ok', eval(c, gb))
        except Exception as e:
            rb = ('exc', type(e).__name__)
        if ra != rb:
            return '%s: original %r, normalised %r\n%s' % (c, ra, rb, out)
    if expect_inlined and n == 0:
        return 'nothing was inlined\n%s' % out
    if not expect_inlined and n != 0:
        return 'something was inlined that should not have been\n%s' % out
    if expect_inlined:
        # the caller f must not call a private helper any more
        f = [s for s in new.body if isinstance(s, ast.FunctionDef) and s.name == 'f']
        local_defs = set(d.name for s in f for d in ast.walk(s) if isinstance(d, ast.FunctionDef) and d is not s)
        left = [c.func.id for s in f for c in ast.walk(s) if isinstance(c, ast.Call) and isinstance(c.func, ast.Name)
                and (c.func.id.startswith('_') or c.func.id in local_defs) and c.func.id not in ('_noisy2', '_Phase', '_Opts')]
        if left:
            return 'helper calls left in f: %s\n%s' % (left, out)
    return None


def imported_helper_case():
    """A helper imported by name from a private module of the package is expanded at its calls when every free name of its body
    means the same in both modules (``split``: PAT is imported alongside); not otherwise (``shadow`` reads the other module's LIM)."""
    other = ("import re\nPAT = re.compile('(?P<a>x+)(?P<b>y*)')\nLIM = 3\n"
             "def split(s):\n    m = PAT.match(s)\n    if m is None:\n        return None\n    return m.group('a', 'b')\n"
             "def shadow(s):\n    return len(s) > LIM\n")
    src = ("from ._priv import PAT, split, shadow\nLIM = 1\n"
           "def f(s):\n    r = split(s)\n    if r is None:\n        return 'lit'\n    a, b = r\n    return a + '|' + b\n"
           "def g(s):\n    return shadow(s)\n")
    normalize._ANCHORS = set()
    new, n = normalize.normalize_tree(ast.parse(src), lambda ident: False, lambda node: ast.parse(other) if node.module == '_priv' else None)
    out = ast.unparse(new)
    names = lambda fn: [c.func.id for s_ in new.body if isinstance(s_, ast.FunctionDef) and s_.name == fn for c in ast.walk(s_)
                        if isinstance(c, ast.Call) and isinstance(c.func, ast.Name)]
    if 'split' in names('f') or 'shadow' not in names('g'):
        return 'imported helper: split must be expanded in f, shadow must stay a call in g\n' + out
    go = {}
    exec(compile(other, '<priv>', 'exec'), go)
    res = []
    for text in (src, out):
        g_ = dict((k, go[k]) for k in ('PAT', 'split', 'shadow'))
        exec(compile(text.split('\n', 1)[1], '<mod>', 'exec'), g_)
        res.append([g_['f']('xxy'), g_['f']('q'), g_['f']('x'), g_['g']('abcd'), g_['g']('ab')])
    if res[0] != res[1]:
        return 'imported helper: original %r, normalised %r\n%s' % (res[0], res[1], out)
    return None


def main():
    bad = 0
    msg = imported_helper_case()
    print('%-4s %s' % ('FAIL' if msg else 'ok', 'helper imported from a private module'))
    if msg:
        print('     ' + msg.replace('\n', '\n     '))
        bad += 1
    for name, src, calls, exp in CASES:
        try:
            msg = run_case(name, src, calls, exp)
        except Exception:
            import traceback
            msg = traceback.format_exc()
        print('%-4s %s' % ('FAIL' if msg else 'ok', name))
        if msg:
            print('     ' + msg.replace('\n', '\n     '))
            bad += 1
    # every module of the analysed tree still compiles after normalisation
    normalize._ANCHORS = None
    root = sys.argv[1] if len(sys.argv) > 1 else '/repo'
    n_mod = n_inl = 0
    for dp, dn, fn in os.walk(os.path.join(root, 'clastic')):
        dn[:] = [d for d in dn if d != '__pycache__']
        for f in fn:
            if f.endswith('.py'):
                p = os.path.join(dp, f)
                with open(p) as fh:
                    src = fh.read()
                try:
                    t, n = normalize.normalize_tree(ast.parse(src), lambda ident: False)
                    compile(ast.parse(ast.unparse(t)), p, 'exec')
                    n_mod += 1
                    n_inl += n
                except Exception as e:
                    print('FAIL %s: %r' % (p, e))
                    bad += 1
    print('%d modules of %s normalised and re-compiled, %d helper call(s) inlined' % (n_mod, root, n_inl))
    print('FAIL' if bad else 'PASS')
    return 1 if bad else 0


if __name__ == '__main__':
    sys.exit(main())
