#!/venv/bin/python
"""Confirm a behaviour-preserving refactoring from a sub-agent and file it under /verif/twins/<id>/.

usage: twin_ingest.py <worktree> <n> <twin-id> <property>
clean -> demo PASS; patched -> demo PASS and suite 89 passed.
"""
import json
import os
import shutil
import subprocess
import sys
import time

PY = '/venv/bin/python'


def run(cmd, cwd):
    p = subprocess.run(cmd, cwd=cwd, shell=True, stdout=subprocess.PIPE, stderr=subprocess.STDOUT, text=True, timeout=900)
    return p.returncode, p.stdout


def main():
    wt, n, tid, prop = sys.argv[1:5]
    patch = os.path.join(wt, 'patch%s.diff' % n)
    demo = os.path.join(wt, 'demo%s.py' % n)
    if not (os.path.isfile(patch) and os.path.isfile(demo)):
        print('REJECT %s: missing patch/demo' % tid)
        return 1
    run('git checkout -- . && git clean -fdq clastic', wt)
    rc, out = run('%s -W ignore %s' % (PY, os.path.basename(demo)), wt)
    if rc != 0:
        print('REJECT %s: demo fails on clean code' % tid)
        return 1
    rc, out = run('git apply %s' % os.path.basename(patch), wt)
    if rc != 0:
        print('REJECT %s: patch does not apply' % tid)
        return 1
    try:
        rc, out = run('%s -W ignore %s' % (PY, os.path.basename(demo)), wt)
        if rc != 0:
            print('REJECT %s: demo fails with the refactoring: %s' % (tid, out[-300:]))
            return 1
        rc, out = run('%s -m pytest -q -p no:cacheprovider 2>&1 | tail -1' % PY, wt)
        if '89 passed' not in out:
            print('REJECT %s: suite: %s' % (tid, out[-200:]))
            return 1
    finally:
        run('git checkout -- . && git clean -fdq clastic', wt)
    d = os.path.join('/verif/twins', tid)
    os.makedirs(d, exist_ok=True)
    shutil.copyfile(patch, os.path.join(d, 'patch.diff'))
    shutil.copyfile(demo, os.path.join(d, 'demo.py'))
    if os.path.isfile(os.path.join(wt, 'NOTES.md')):
        shutil.copyfile(os.path.join(wt, 'NOTES.md'), os.path.join(d, 'agent_notes.md'))
    with open(os.path.join(d, 'meta.json'), 'w') as f:
        json.dump({'id': tid, 'property': prop, 'kind': 'behaviour-preserving refactoring (independent sub-agent)',
                   'confirmed': time.strftime('%Y-%m-%d'),
                   'confirmation': 'demo passes on clean and refactored code; unedited suite 89 passed with the refactoring'}, f, indent=1)
    print('OK filed %s' % d)
    return 0


if __name__ == '__main__':
    sys.exit(main())
