#!/venv/bin/python
"""Generate /verif/MANIFEST.json from the table below (run from /verif)."""
import json
import os
import sys

HERE = os.path.dirname(os.path.dirname(os.path.abspath(__file__)))

# pid -> (technique, decided clauses, declined clauses)
P = {
 'C01': ('set-algebra truth tables over symbolic atoms (abstract interpretation of chain_argspec/make_chain), '
         'must-pass-through on CFGs, sibling signature-accessor cross-check',
         'eager binding on every construction path (R01.a); unresolved => NameError (R01.b); exact required/provided/optional '
         'set arithmetic (R01.c); per-phase availability sets (R01.d); all consumers of a signature enumerate the same parameters, '
         'parameter-kind exhaustiveness (R01.e); level alignment of chain_argspec and generated code, each generated level filters its kwargs before recursing (R01.f)',
         'that every accepted configuration serves every request (depends on CPython introspection of arbitrary callables)'),
 'C02': ('template analysis of the generated chain code, layer-order abstract domain for dict merges, dataflow',
         'generated calls are keyword-only name=name (R02.a); only declared names are passed (R02.b); precedence of '
         'defaults < sources and of resource/built-in/URL layers (R02.c); values are moved between dicts, never copied; the per-route parameter dict and match_path result are fresh per route/request, no memo (R02.d)',
         'values handed to next() by user middlewares; URL conversion values'),
 'C03': ('template analysis of generated code (hole-filled and parsed as AST), sequence-order domain, role dataflow',
         'each generated level is a pure tail call with next bound to the inner def (R03.a); index/indent follow level (R03.b); '
         'process_request calls endpoint once, render only for non-Responses (R03.c); middleware list order and merge order, middleware equality on exact type (R03.d)',
         'behaviour of user middlewares; Python exception unwinding itself'),
 'C04': ('exhaustiveness / writer-reader table agreement over folded constants, CFG dominance',
         'conflict map folds every provides attribute and every source (R04.a); injected built-in names are all reserved (R04.b); '
         'resources vs reserved names raise before binding (R04.c); middleware slot tables agree, next-first enforced (R04.d)',
         'nothing of substance; Python raising NameError/TypeError is assumed'),
 'C05': ('regex-AST queries (re._parser) on folded pattern constants, table agreement, CFG rules on the compiler',
         'type tables pair converter and pattern, patterns cannot consume "/" or match empty (R05.a); operator tables agree with '
         'regex quantifiers (R05.b); five InvalidPattern rejections (R05.c); anchoring, separators, no-raise matching (R05.d); '
         'converter shapes for optional/multi (R05.e); the instantiated segment template is language-equal (NFA product) to (SEP TYPE)QUANT for all type x operator x mode combinations (R05.f); BoundRoute always recompiles from the bound pattern',
         'the pattern x path matching semantics as a whole (language equality of a run-time built regex), conversion values'),
 'C06': ('CFG path rules (typestate of the dispatch loop), who-may-mutate effect analysis, provenance dataflow',
         'routes list is only appended/inserted in order (R06.a); loop typestate: mismatch => continue, method mismatch records '
         'methods, only non-breaking HTTP errors fall through (R06.b); sentinel priority last-exception/405/404 (R06.c); method '
         'normalisation (R06.d); the 405 carries Allow from allowed_methods (R06.e)',
         'which pattern matches (C05); full response content'),
 'C07': ('CFG dominance of the redirect call, taint analysis path->Location, kwarg-name plumbing agreement',
         'redirect only under matched path+method, branch route, non-canonical path, redirect mode (R07.a); Location path is '
         'URL-quoted, query passed through (R07.b); slash-mode inheritance plumbing (R07.c); shape of normalize_path: empty segments dropped, one leading slash, trailing slash iff branch (R07.d)',
         'idempotence of normalize_path and one-hop as value statements; behaviour of werkzeug.redirect'),
 'C08': ('interprocedural must-catch over the call graph (incl. the closure through unprotected call sites for partial primitives), CFG rules, effect analysis',
         'user code runs under an Exception handler on every path from __call__ (R08.a); non-Response results are converted '
         'inside the same region (R08.b); re-raise only on reraise_uncaught (R08.c); no shared store on the request path (R08.d); error serialisers never use error text as a format template (R08.e); URL converters run under a handler mapping failure to no-match (R08.f)',
         'exceptions from primitive operations outside the protected region; completeness of werkzeug responses'),
 'C09': ('status table vs http.HTTPStatus, table exhaustiveness, taint analysis to HTML/XML sinks, Dust template escaping analysis',
         'status codes and class hierarchy (R09.a); format table exhaustive and body/Content-Type from one pair (R09.b); every '
         'interpolated field is html-escaped with quote=True (R09.c); shipped templates auto-escape (R09.d); JSON carries the four fields (R09.e)',
         'well-formedness of produced bytes, Accept negotiation by werkzeug, JSON parseability'),
 'C10': ('sequence-order and dataflow rules over bind_all / BoundRoute.__init__, kwarg-name agreement',
         're-binding covers every inner route in order (R10.a); prefixing composes (R10.b); error handling comes from the outer '
         'application (R10.d); rebind_render / inherit_slashes plumbing (R10.e); plus R03.d, R02.c, R07.c',
         'response equivalence nested vs flat; render_factory selection as a value computation'),
 'C11': ('effect analysis (fresh / parameter / shared receivers), CFG ordering, module-state inventory',
         'binding writes only to the new object and copies containers (R11.a); add() binds before the first mutation (R11.b); '
         'process-wide mutable state and its writers match the frozen inventory (R11.d)',
         'behavioural equality of responses before/after; state inside third-party objects'),
 'C12': ('static non-interference: call-graph closure from __call__ + effect classification of every store',
         'no store to shared objects on the request path (R12.a); BoundRoute/Application immutable after set-up (R12.b); request '
         'ids come from one never-rebound itertools.count (R12.c); built-in middleware per-request self-writes inventory (R12.d)',
         'interleavings inside werkzeug/user code; memory-model questions'),
 'C13': ('CFG exactly-one-delegate rule, sequence-order domain for wrapper order, provenance of the wrapper sources, open/hand-over pairing',
         'every path of _dispatch_wsgi delegates once with the untouched (environ, start_response), environ is not mutated (R13.a); wrappers applied in '
         'reversed order, error-handler wrapper innermost (R13.b); opened file is handed to the response and the body is not replaced (R13.c)',
         'status line/header validity, close() semantics, byte-ness of bodies (inside werkzeug)'),
 'C14': ('sanitise-then-use dataflow on find_file, must-catch for filesystem primitives, CFG must-assign',
         'the joined value is the normalised, root-checked one (R14.a); every failure raises non-breaking 403/404 (R14.b); every '
         'filesystem call on the serving path is under an OSError handler (R14.c); 304 and success headers (R14.d); route shape (R14.e)',
         'byte equality of bodies, MIME guessing, date formatting'),
 'C15': ('attribute-protocol typestate: attributes touched on next() results vs attributes every flowing class defines; nullable-descriptor dereference check against the pinned werkzeug source',
         'every attribute used on a next() result is defined by BaseResponse or guarded (R15.a); pass-through by default, no request-body reader is called by a pass-through middleware (R15.b); '
         'handlers around next() re-raise (R15.c); gzip bookkeeping (R15.d)',
         'losslessness of compression, equality of decoded bodies'),
 'C16': ('interprocedural must-catch across clastic and the pinned secure_cookie source, CFG dominance (MAC before use)',
         'malformed cookies cannot fail the request: uncovered decoding primitives of the dependency are under a clastic handler '
         '(R16.a); unquote is total and quote/unquote agree on serializer and charset (R16.b); MAC comparison dominates unquote/expiry (R16.c); key plumbing and save (R16.d)',
         'cryptographic strength, JSON round-trip fidelity, clock behaviour around expiry'),
 'C17': ('symtable scope resolution, light bytes/str/int type flow for constant-false tests, CFG label-follows-test rules',
         'every name on the render paths resolves (R17.a); no type-confused classification tests, feasible labels (R17.b); '
         'classification order and label-follows-test (R17.c); dev-mode fallback (R17.d); format tables agree (R17.e)',
         'JSON validity / round trip, HTML table shapes, streaming'),
 'C18': ('taint analysis of resource values in meta.py, must-catch for peripheral sections, Dust template escaping analysis',
         'resource values are only read on the non-secret branch, the tested key is the intact key, defaults are exported by name (R18.a); middleware info never reads key/secret attributes (R18.b); '
         'sections fail soft (R18.c); meta templates auto-escape (R18.d)',
         '200 for arbitrary host applications beyond fail-soft sections; secrets inside reprs of non-secret-named resources'),
 'C19': ('CFG exactly-once rule (finally), ordering rule, difference-constraint entailment for bounded stores',
         'one hit per call on normal and exceptional paths (R19.a); report computed before reset (R19.b); every append/indexed store '
         'on the sample store is entailed in-bounds by its path condition, count incremented once (R19.c)',
         'sampling statistics; totals per status over histories'),
 'C20': ('symtable scope resolution, must-catch around the traceback parser, Dust template escaping analysis',
         'every name in flaw.py resolves (R20.a); parsing can never prevent the page, both routes share endpoint/template, resource '
         'names = endpoint parameters, caller list not truncated, failsafe static app non-breaking (R20.b); every reference of the page template is auto-escaped (R20.c)',
         '"200 for every text" over non-text inputs (ashes on bytes/None); traceback grammar coverage'),
}

IMPLEMENTED = sorted(f[:-3].upper() for f in os.listdir(os.path.join(HERE, 'vt', 'props'))
                     if f.startswith('c') and f[1:3].isdigit() and f.endswith('.py'))


def live_clauses(pid):
    """What the rule module itself registers (rep.decide / rep.decline / rep.rule) when run on /repo, so that the
    manifest text cannot drift away from the rules."""
    import importlib
    sys.path.insert(0, HERE)
    from vt.core import Report
    from vt.loader import Repo
    pm = importlib.import_module('vt.props.%s' % pid.lower())
    rep = Report(pid, 'quick', Repo('/repo'))
    pm.run(rep)
    rules = '; '.join('%s: %s' % (r, d) for r, d in sorted(rep.rule_docs.items()))
    return '; '.join(rep.decided) + ' [' + rules + ']', '; '.join(rep.declined)


def main():
    checks = []
    na = []
    for pid in sorted(P):
        tech, decided, declined = P[pid]
        if pid in IMPLEMENTED:
            try:
                decided, declined = live_clauses(pid)
            except Exception as e:     # keep the static table text if a module cannot be run here
                print('note: %s: using the table text (%s)' % (pid, e))
        if pid not in IMPLEMENTED:
            na.append({'property_id': pid,
                       'reason': 'static rules designed (DESIGN.md section 3, %s) but not yet implemented in this commit; '
                                 'not claimed until the check exists' % pid})
            continue
        checks.append({
            'property_id': pid,
            'quick_cmd': '/venv/bin/python -W ignore -m vt check %s --tier quick' % pid,
            'thorough_cmd': '/venv/bin/python -W ignore -m vt check %s --tier thorough' % pid,
            'evidence_file': '/verif/evidence/%s.json' % pid,
            'replay_cmd_template': '/venv/bin/python -W ignore -m vt replay {path}',
            'engine': 'vt',
            'technique': 'static analysis: ' + tech,
            'level_claimed': {
                'category': 'other',
                'text': 'Static analysis of /repo\'s current source (nothing is run). Decides, for all inputs / configurations / '
                        'schedules, these necessary clauses of the property: ' + decided + '. It does NOT decide: ' + declined +
                        '. A green run means every listed rule instance (obligation) was discharged on the parsed tree; it is not '
                        'a claim about the behaviour as a whole.',
                'design_ref': 'DESIGN.md section 3, ' + pid,
            },
            'level_note': 'Trusted base: CPython ast/symtable/re._parser; the rule tables and transfer functions in /verif/vt; the '
                          'pinned third-party sources (werkzeug 1.0.1, boltons 23.1.1, secure-cookie 0.1.0, ashes 19.2.0) meaning '
                          'what their syntax says; Python scoping and exception semantics. Thorough tier additionally runs the '
                          'checker\'s own breaking/twin variants for this property on scratch copies.',
        })
    man = {
        'version': 1,
        'setup_cmd': 'true',
        'hooks': {
            'guard': 'CLASTIC_VERIF',
            'enable': 'none needed: the checks parse /repo/clastic, no instrumentation exists in clastic',
            'baseline_off_cmd': 'cd /repo && /venv/bin/python -m pytest -q -p no:cacheprovider --timeout=900',
            'source_commits': [],
            'add_only': True,
        },
        'engines': [{'name': 'vt', 'path': '/verif/vt', 'serves_properties': [c['property_id'] for c in checks],
                     'kind_free_text': 'repository-specific static analyser: ast/symtable loader, statement CFG with exception '
                                       'edges, CHA call graph, effect classification, set-algebra / layer-order abstract domains, '
                                       'Dust and generated-code template analysers, regex-AST queries; a normalising front-end (helper inlining, conditional expressions as statements, keyword/positional unification) so that equivalent spellings have one shape'}],
        'checks': checks,
        'not_applicable': na,
        'notes': 'All checks are static analysis (family fixed by the task). Every property is claimed only for the clauses named in '
                 'level_claimed.text; value-level clauses are declined there and in DESIGN.md section 6. Known findings: '
                 '/verif/known_findings.json. Exit codes: 0 ok, 1 violation, 2 ANALYSIS-ERROR.',
    }
    with open(os.path.join(HERE, 'MANIFEST.json'), 'w') as f:
        json.dump(man, f, indent=1)
    print('MANIFEST.json: %d checks, %d not_applicable' % (len(checks), len(na)))


if __name__ == '__main__':
    main()
