# -*- coding: utf-8 -*-
"""demo3: GzipMiddleware never changes status / decoded body, and is lossless.

Standalone; prints PASS and exits 0.
"""
import os
import re
import sys
import gzip
import random
import warnings

warnings.simplefilter('ignore')
sys.path.insert(0, os.path.dirname(os.path.abspath(__file__)))

from werkzeug.wrappers import Response

from clastic import Application, render_basic, redirect, GET, POST
from clastic.errors import (NotFound, Forbidden, BadRequest, ServiceUnavailable,
                            ImATeapot)
from clastic.middleware import GzipMiddleware

rng = random.Random(15)

BODIES = {
    'empty': b'',
    'one': b'x',
    'short': b'hello world',
    'edge': b'a' * 24,            # around the size where gzip stops paying off
    'compressible': b'clastic ' * 4000,
    'random': bytes(bytearray(rng.getrandbits(8) for _ in range(5000))),
    'text_utf8': (u'ümläut ☃ ' * 500).encode('utf8'),
    'binary_zeros': b'\x00' * 70000,
}

MIMETYPES = {
    'empty': 'text/plain', 'one': 'text/plain', 'short': 'text/html',
    'edge': 'application/json', 'compressible': 'text/plain',
    'random': 'application/octet-stream', 'text_utf8': 'text/plain',
    'binary_zeros': 'image/png',
}


def body_ep(name):
    return Response(BODIES[name], mimetype=MIMETYPES[name])


def no_ctype_ep():
    resp = Response(b'no content type ' * 300)
    del resp.headers['Content-Type']
    return resp


def js_ep():
    return Response(b'var x = 1;\n' * 500, mimetype='application/javascript')


def pre_encoded_ep():
    resp = Response(b'pretend this is brotli ' * 100, mimetype='text/plain')
    resp.content_encoding = 'br'
    return resp


def streamed_ep():
    def gen():
        for i in range(200):
            yield b'chunk %d of a streamed response\n' % i
    return Response(gen(), mimetype='text/plain')


def ctx_ep():
    return {'greeting': 'hello ' * 400, 'n': 3}


def redirect_ep():
    return redirect('/body/short')


def raise_404():
    raise NotFound('raised by the application ' * 50)


def return_403():
    return Forbidden('returned by the application ' * 50)


def raise_418():
    raise ImATeapot()


def return_503():
    return ServiceUnavailable(detail='down ' * 300, mimetype='text/html')


def nonbreaking():
    raise BadRequest('try the next route ' * 30, is_breaking=False)


def after_nonbreaking():
    return Response(b'second route answered ' * 100, mimetype='text/plain')


def boom():
    raise ValueError('uncaught ' * 100)


def post_only():
    return Response(b'posted ' * 500, mimetype='text/plain')


def make_app(middlewares):
    routes = [('/body/<name>', body_ep),
              ('/noctype', no_ctype_ep),
              ('/js', js_ep),
              ('/preencoded', pre_encoded_ep),
              ('/streamed', streamed_ep),
              ('/ctx', ctx_ep, render_basic),
              ('/redirect', redirect_ep),
              ('/raise404', raise_404),
              ('/return403', return_403),
              ('/raise418', raise_418),
              ('/return503', return_503),
              GET('/nb', nonbreaking),
              GET('/nb', after_nonbreaking),
              GET('/nb_only', nonbreaking),
              ('/boom', boom),
              POST('/post_only', post_only)]
    return Application(routes, middlewares=middlewares)


REQUESTS = ([('GET', '/body/' + name) for name in sorted(BODIES)] +
            [('HEAD', '/body/compressible'),
             ('GET', '/noctype'), ('GET', '/js'), ('GET', '/preencoded'),
             ('GET', '/streamed'), ('GET', '/ctx'), ('GET', '/ctx?format=json'),
             ('GET', '/redirect'),
             ('GET', '/raise404'), ('GET', '/return403'), ('GET', '/raise418'),
             ('GET', '/return503'), ('GET', '/nb'), ('GET', '/nb_only'),
             ('GET', '/boom'), ('GET', '/unknown/url'), ('GET', '/post_only'),
             ('POST', '/post_only'), ('PUT', '/post_only'),
             ('POST', '/body/short'), ('GET', '/body')])

# (Accept-Encoding value or None for absent, does the client accept gzip?)
ACCEPT_ENCODINGS = [(None, False), ('', False), ('identity', False),
                    ('gzip;q=0', False), ('gzip;q=0, identity', False),
                    ('deflate, br', False),
                    ('gzip', True), ('gzip, deflate', True), ('*', True),
                    ('gzip;q=0.5, identity;q=0.1', True), ('GZIP', True),
                    ('x-gzip', True)]

USER_AGENTS = [None,
               'Mozilla/5.0 (X11; Linux x86_64; rv:80.0) Gecko/20100101 Firefox/80.0',
               'Mozilla/4.0 (compatible; MSIE 8.0; Windows NT 6.1; Trident/4.0)',
               'curl/7.68.0']


def normalize(path, body):
    """The body of a framework-generated 500 mentions the number of stack
    frames (and, as JSON, the frames themselves), which legitimately includes
    the frames of the installed middlewares: mask that."""
    if path == '/boom':
        body = re.sub(br'\(\d+ frames', b'(N frames', body)
        body = body.partition(b'"exc_info"')[0]
    return body


def fetch(app, method, path, accept_encoding, user_agent, accept=None):
    headers = {}
    if accept_encoding is not None:
        headers['Accept-Encoding'] = accept_encoding
    if user_agent is not None:
        headers['User-Agent'] = user_agent
    if accept is not None:
        headers['Accept'] = accept
    client = app.get_local_client()
    return client.open(path, method=method, headers=headers)


def main():
    plain_app = make_app([])
    gzip_apps = [make_app([GzipMiddleware()]),
                 make_app([GzipMiddleware(compress_level=1)]),
                 make_app([GzipMiddleware(9)])]
    n_checked = n_compressed = 0
    for method, path in REQUESTS:
        for accept_encoding, accepts_gzip in ACCEPT_ENCODINGS:
            for user_agent in USER_AGENTS:
                for accept in (None, 'text/html', 'application/json'):
                    ref = fetch(plain_app, method, path, accept_encoding,
                                user_agent, accept)
                    ref_body = normalize(path, ref.get_data())
                    for app in gzip_apps:
                        got = fetch(app, method, path, accept_encoding,
                                    user_agent, accept)
                        what = (method, path, accept_encoding, user_agent, accept)
                        assert got.status_code == ref.status_code, what
                        raw = got.get_data()
                        encoding = got.headers.get('Content-Encoding')
                        if encoding == 'gzip':
                            assert accepts_gzip, what
                            assert ref.headers.get('Content-Encoding') is None, what
                            body = gzip.decompress(raw) if method != 'HEAD' else raw
                            assert len(raw) < len(ref_body) or method == 'HEAD', what
                            assert 'accept-encoding' in got.headers['Vary'].lower(), what
                            if method != 'HEAD':
                                assert got.headers['Content-Length'] == str(len(raw)), what
                            n_compressed += 1
                        else:
                            # untouched (possibly pre-encoded by the application)
                            assert encoding == ref.headers.get('Content-Encoding'), what
                            body = raw
                            if 'Content-Length' in got.headers and method != 'HEAD':
                                assert got.headers['Content-Length'] == str(len(raw)), what
                        assert normalize(path, body) == ref_body, what
                        assert got.headers.get('Content-Type') == ref.headers.get('Content-Type'), what
                        assert got.headers.get('Location') == ref.headers.get('Location'), what
                        assert got.headers.get('Allow') == ref.headers.get('Allow'), what
                        if not accepts_gzip:
                            assert encoding != 'gzip', what
                        n_checked += 1

    # spot checks of the exact decisions of the middleware
    app = gzip_apps[0]
    msie = USER_AGENTS[2]
    r = fetch(app, 'GET', '/body/compressible', 'gzip', None)
    assert r.headers['Content-Encoding'] == 'gzip' and r.headers['Vary'] == 'Accept-Encoding'
    assert gzip.decompress(r.get_data()) == BODIES['compressible']
    r = fetch(app, 'GET', '/body/compressible', None, None)
    assert 'Content-Encoding' not in r.headers and r.headers['Vary'] == 'Accept-Encoding'
    assert r.get_data() == BODIES['compressible']
    # incompressible / tiny bodies are left alone even for gzip clients
    for name in ('empty', 'one', 'short', 'random'):
        r = fetch(app, 'GET', '/body/' + name, 'gzip', None)
        assert 'Content-Encoding' not in r.headers, name
        assert r.get_data() == BODIES[name]
        assert r.headers['Vary'] == 'Accept-Encoding'
    # MSIE: only text/* and javascript are compressed
    assert fetch(app, 'GET', '/body/binary_zeros', 'gzip', msie).headers.get('Content-Encoding') is None
    assert fetch(app, 'GET', '/body/binary_zeros', 'gzip', None).headers.get('Content-Encoding') == 'gzip'
    assert fetch(app, 'GET', '/noctype', 'gzip', msie).headers.get('Content-Encoding') is None
    assert fetch(app, 'GET', '/noctype', 'gzip', None).headers.get('Content-Encoding') == 'gzip'
    assert fetch(app, 'GET', '/js', 'gzip', msie).headers.get('Content-Encoding') == 'gzip'
    assert fetch(app, 'GET', '/body/compressible', 'gzip', msie).headers.get('Content-Encoding') == 'gzip'
    # already encoded / streamed responses pass through, but Vary is announced
    r = fetch(app, 'GET', '/preencoded', 'gzip', None)
    assert r.headers['Content-Encoding'] == 'br' and r.headers['Vary'] == 'Accept-Encoding'
    r = fetch(app, 'GET', '/streamed', 'gzip', None)
    assert 'Content-Encoding' not in r.headers and r.headers['Vary'] == 'Accept-Encoding'
    assert r.get_data().count(b'\n') == 200
    # framework-generated errors are BaseResponses: untouched, no Vary
    for method, path, code in [('GET', '/unknown/url', 404), ('PUT', '/post_only', 405),
                               ('GET', '/raise404', 404), ('GET', '/return403', 403),
                               ('GET', '/boom', 500), ('GET', '/nb_only', 400)]:
        r = fetch(app, method, path, 'gzip', None)
        assert r.status_code == code, (path, r.status_code)
        assert 'Content-Encoding' not in r.headers and 'Vary' not in r.headers, path
    assert fetch(app, 'PUT', '/post_only', 'gzip', None).headers['Allow'] == 'POST'

    assert n_compressed > 100 and n_checked > 5000, (n_compressed, n_checked)
    print('checked %d responses (%d gzipped)' % (n_checked, n_compressed))
    print('PASS')


if __name__ == '__main__':
    main()
