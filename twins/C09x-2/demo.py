# -*- coding: utf-8 -*-
"""C09 demo: error responses carry the right status, a negotiated format
and fully escaped dynamic fields.  Prints PASS and exits 0."""
import json
import sys
import xml.etree.ElementTree as ET
from html import escape
from html.parser import HTMLParser

from werkzeug.test import Client
from werkzeug.wrappers import BaseResponse

import clastic
from clastic import Application, errors
from clastic.errors import (HTTPException, MIME_SUPPORT_MAP, DEFAULT_MIME,
                            ErrorHandler, ContextualErrorHandler)
from clastic import application as app_mod

assert MIME_SUPPORT_MAP == {'text/html': 'html', 'application/json': 'json',
                            'text/plain': 'text', 'application/xml': 'xml'}
assert list(MIME_SUPPORT_MAP) == ['text/html', 'application/json',
                                  'text/plain', 'application/xml']
assert DEFAULT_MIME == 'text/plain'
assert app_mod.MIME_SUPPORT_MAP is errors.MIME_SUPPORT_MAP

EXPECTED_CODES = {
    'BadRequest': 400, 'Unauthorized': 401, 'PaymentRequired': 402,
    'Forbidden': 403, 'NotFound': 404, 'MethodNotAllowed': 405,
    'NotAcceptable': 406, 'ProxyAuthenticationRequired': 407,
    'RequestTimeout': 408, 'Conflict': 409, 'Gone': 410,
    'LengthRequired': 411, 'PreconditionFailed': 412,
    'RequestEntityTooLarge': 413, 'RequestURITooLong': 414,
    'UnsupportedMediaType': 415, 'RequestedRangeNotSatisfiable': 416,
    'ExpectationFailed': 417, 'ImATeapot': 418, 'UnprocessableEntity': 422,
    'UpgradeRequired': 426, 'PreconditionRequired': 428,
    'TooManyRequests': 429, 'RequestHeaderFieldsTooLarge': 431,
    'UnavailableForLegalReasons': 451, 'InternalServerError': 500,
    'NotImplemented': 501, 'BadGateway': 502, 'ServiceUnavailable': 503,
    'GatewayTimeout': 504, 'HTTPVersionNotSupported': 505}
# the code map keeps the LAST class defined for a code (module order)
_LAST = {404: 'ContextualNotFound', 500: 'ContextualInternalServerError'}
assert errors.__all__ == [_LAST.get(c, n) for n, c in EXPECTED_CODES.items()], \
    errors.__all__
assert set(errors.ERROR_CODE_MAP) == set(EXPECTED_CODES.values()) | {None}
assert errors.ERROR_CODE_MAP[None] is HTTPException
for _name, _code in EXPECTED_CODES.items():
    assert getattr(errors, _name).code == _code
    assert errors.ERROR_CODE_MAP[_code] is getattr(errors, _LAST.get(_code, _name))
ALL_ERROR_NAMES = list(EXPECTED_CODES)

NASTY = ['<script>alert(1)</script>', '"q\' & <b>', '{code} {0} {{x}} {#req}',
         u'caf\xe9 ☃ <i>', 'a\x01b<u>', '0', 'http://x/?a=1&b=<2>',
         'https://e.net/"onmouseover="x', '&amp;&lt;', '</detail><code>9']
ALLOWED_TAGS = {'html', 'head', 'title', 'body', 'h1', 'p', 'a'}


class TagCollector(HTMLParser):
    def __init__(self):
        HTMLParser.__init__(self, convert_charrefs=True)
        self.tags, self.attrs, self.text = [], [], []

    def handle_starttag(self, tag, attrs):
        self.tags.append(tag)
        self.attrs.extend(attrs)

    def handle_data(self, data):
        self.text.append(data)


def ref_text(code, message, detail, error_type):
    lines = ['%s - %s' % (code, message)]
    if detail:
        lines += ['', detail]
    if error_type:
        lines += ['', 'Error type: %s' % error_type]
    return '\n'.join(lines)


def esc(v):
    if v is None:
        return ''
    return escape(v if isinstance(v, str) else repr(v), True)


def ref_html(code, message, detail, error_type):
    c, m, d, t = esc(code), esc(message), esc(detail), esc(error_type)
    out = ['<!doctype html><html>',
           '<head><title>%s - %s</title></head>' % (c, m),
           '<body><h1>%s</h1>' % m]
    if d:
        out.append('<p>%s</p>' % d)
    if t:
        if t.startswith('http'):
            out.append('<p>Error type: <a target="_blank" href="%s">%s</a></p>'
                       % (t, t))
        else:
            out.append('<p>Error type: %s</p>' % t)
    out.append('</body></html>')
    return '\n'.join(out)


def ref_xml(code, message, detail, error_type):
    return ('<http_error><code>%s</code><message>%s</message>'
            '<detail>%s</detail><error_type>%s</error_type></http_error>'
            % (esc(code), esc(message), esc(detail), esc(error_type)))


def xml_ok(text):
    return all(ch in '\t\n\r' or ord(ch) >= 0x20 for ch in text)


def full_ct(mimetype):
    # werkzeug adds the charset to textual types only
    if mimetype == 'application/json':
        return mimetype
    return mimetype + '; charset=utf-8'


def check_body(resp, mimetype, code, message, detail, error_type):
    """resp: an HTTPException (already adapted) or a test-client Response."""
    body = resp.get_data().decode('utf-8')
    assert resp.status_code == code, (resp.status_code, code)
    fmt = MIME_SUPPORT_MAP.get(mimetype, 'text')
    exp_ct = (mimetype if mimetype in MIME_SUPPORT_MAP else 'text/plain')
    assert resp.headers['Content-Type'] == full_ct(exp_ct), \
        (resp.headers['Content-Type'], exp_ct)
    if fmt == 'json':
        data = json.loads(body)
        for key, val in (('code', code), ('message', message),
                         ('detail', detail), ('error_type', error_type)):
            assert data[key] == val, (key, data[key], val)
    elif fmt == 'text':
        assert body == ref_text(code, message, detail, error_type), body
    elif fmt == 'xml':
        assert body == ref_xml(code, message, detail, error_type), body
        if all(xml_ok(x) for x in (message, detail, error_type or '')):
            root = ET.fromstring(body.encode('utf-8'))
            assert [el.tag for el in root] == ['code', 'message', 'detail',
                                               'error_type']
            assert root.find('detail').text == (detail or None)
            assert all(len(el) == 0 for el in root)
    else:
        assert body == ref_html(code, message, detail, error_type), body
        tc = TagCollector()
        tc.feed(body)
        tc.close()
        assert set(tc.tags) <= ALLOWED_TAGS, tc.tags
        assert all(k in ('target', 'href') for k, _ in tc.attrs), tc.attrs
        assert detail in ''.join(tc.text)


def check_direct():
    count = 0
    mimetypes = list(MIME_SUPPORT_MAP) + ['image/png', None, '', 'TEXT/HTML']
    for name in ALL_ERROR_NAMES:
        cls = getattr(errors, name)
        variants = [dict(), dict(code=499), dict(message='M <m> & "m"')]
        variants += [dict(detail=n, error_type=t)
                     for n, t in zip(NASTY, NASTY[3:] + NASTY[:3])]
        variants += [dict(detail='', error_type=''),
                     dict(detail=None, error_type='plain <type>'),
                     dict(detail='d', message='', code=0)]
        for kw in variants:
            for mt in mimetypes:
                kw2 = dict(kw)
                exc = cls(kw2.pop('detail', None), **kw2)
                # the constructor always starts as text/plain
                if cls is not errors.MethodNotAllowed:
                    assert exc.detail == (kw.get('detail') or cls.detail)
                exp_type = kw.get('error_type')
                assert exc.error_type == exp_type
                check_body(exc, 'text/plain', kw.get('code', cls.code),
                           kw.get('message', cls.message), exc.detail, exp_type)
                exc.adapt(mt)
                check_body(exc, mt, kw.get('code', cls.code),
                           kw.get('message', cls.message), exc.detail, exp_type)
                # mimetype= at construction adapts as well
                exc2 = cls(kw.get('detail'), mimetype=mt or DEFAULT_MIME, **kw2)
                check_body(exc2, mt or DEFAULT_MIME, kw.get('code', cls.code),
                           kw.get('message', cls.message), exc2.detail, exp_type)
                count += 1
    # non-string fields are repr()'d then escaped
    try:
        errors.BadRequest(['<x>', 1])
    except TypeError:
        pass
    else:
        raise AssertionError('the text body needs a string detail')
    exc = errors.BadRequest()
    exc.detail, exc.error_type = ['<x>', 1], ('<t>',)
    exc.adapt('text/html')
    assert esc(['<x>', 1]) in exc.get_data(True) and '<x>' not in exc.get_data(True)
    exc.adapt('application/xml')
    assert ET.fromstring(exc.get_data()).find('detail').text == repr(['<x>', 1])
    return count


def check_405():
    mna = errors.MethodNotAllowed
    for methods in (None, [], ['POST'], ('PUT', 'GET', 'DELETE'), {'b<', 'a&'}):
        exc = mna(methods)
        assert exc.allowed_methods == set(methods or [])
        ordered = sorted(set(methods or []))
        if ordered:
            assert exc.headers['Allow'] == ', '.join(ordered)
            assert exc.detail == '%s Allowed methods: %r' % (mna.detail, ordered)
        else:
            assert 'Allow' not in exc.headers
            assert exc.detail == mna.detail
        for mt in MIME_SUPPORT_MAP:
            exc.adapt(mt)
            check_body(exc, mt, 405, mna.message, exc.detail, None)
    try:
        mna(['GET', 1])
    except TypeError:
        pass
    else:
        raise AssertionError('unorderable methods must raise TypeError')
    exc = mna(['GET'], 'custom <d>', code=499)
    assert exc.detail == 'custom <d>' and exc.headers['Allow'] == 'GET'


def check_500_error_type():
    from boltons.tbutils import ExceptionInfo
    ise = errors.InternalServerError
    url = errors.STDLIB_EXC_URL

    def info_for(exc):
        try:
            raise exc
        except Exception:
            return ExceptionInfo.from_current()

    class Custom(Exception):
        pass

    True_ = type('True', (Exception,), {})       # builtins.True has no __name__
    len_ = type('len', (Exception,), {})
    assert ise(exc_info=info_for(ValueError('<v>'))).error_type == url + 'ValueError'
    assert ise(exc_info=info_for(Custom('<v>'))).error_type is None
    assert ise(exc_info=info_for(True_())).error_type is None
    assert ise(exc_info=info_for(len_())).error_type == url + 'len'
    assert ise().error_type is None
    assert ise(exc_info=object()).error_type is None
    assert ise(exc_info=info_for(KeyError(1)), error_type='').error_type == ''
    assert ise(exc_info=info_for(KeyError(1)), error_type='<t>').error_type == '<t>'
    exc = ise('d', exc_info=info_for(KeyError('<k>')))
    assert set(exc.to_dict()) == {'code', 'message', 'detail', 'error_type',
                                  'exc_info'}
    exc.adapt('application/json')
    data = json.loads(exc.get_data(True))
    assert data['exc_info']['exc_type'] == 'KeyError'
    assert data['error_type'] == url + 'KeyError'
    exc.adapt('text/html')
    check_body(exc, 'text/html', 500, ise.message, 'd', url + 'KeyError')


ACCEPTS = [('text/html', 'text/html'), ('application/json', 'application/json'),
           ('application/xml', 'application/xml'), ('text/plain', 'text/plain'),
           ('*/*', 'text/html'), ('text/*', 'text/html'),
           ('application/*', 'application/json'),
           ('text/html;q=0.1, application/xml;q=0.9', 'application/xml'),
           ('application/json;q=0.5, text/plain;q=0.5', 'application/json'),
           ('image/png', 'text/plain'), ('', 'text/plain'), (None, 'text/plain'),
           (';;;,,q=', 'text/plain'), ('text/html;q=0, */*;q=0.2', None),
           ('image/png, application/xml;q=0.1', 'application/xml')]


def make_app(handler, debug=False):
    def boom(request):
        secret_local = '<b id="loc">local & value</b>'
        raise RuntimeError('<script>alert("exc")</script> & {braces}')

    def teapot(request):
        raise errors.ImATeapot(request.args.get('d'),
                               error_type=request.args.get('t'))

    def returned(request):
        return errors.Conflict(request.args.get('d'))

    def only_post():
        return BaseResponse('ok')

    routes = [('/boom', boom), ('/teapot', teapot), ('/returned', returned),
              clastic.POST('/only_post', only_post)]
    return Application(routes, error_handler=handler, debug=debug)


def get(client, path, accept, **kw):
    headers = {} if accept is None else {'Accept': accept}
    return client.get(path, headers=headers, **kw)


def check_apps():
    for handler_type in (ErrorHandler, ContextualErrorHandler):
        contextual = handler_type is ContextualErrorHandler
        app = make_app(handler_type())
        client = Client(app, BaseResponse)
        for accept, exp_mt in ACCEPTS:
            if exp_mt is None:
                continue
            for d in NASTY:
                t = NASTY[(NASTY.index(d) + 4) % len(NASTY)]
                resp = get(client, '/teapot', accept, query_string={'d': d, 't': t})
                check_body(resp, exp_mt, 418, errors.ImATeapot.message, d, t)
                resp = get(client, '/returned', accept, query_string={'d': d})
                check_body(resp, exp_mt, 409, errors.Conflict.message, d, None)
            # 405 through the null route
            resp = get(client, '/only_post', accept)
            assert resp.status_code == 405 and resp.headers['Allow'] == 'POST'
            check_body(resp, exp_mt, 405, errors.MethodNotAllowed.message,
                       "%s Allowed methods: ['POST']"
                       % errors.MethodNotAllowed.detail, None)
            # 404 with markup in the path
            path = '/no/<script>alert(1)</script>/"&\'{x}'
            resp = get(client, path, accept)
            assert resp.status_code == 404
            body = resp.get_data(True)
            ctype = resp.headers['Content-Type']
            assert ctype == full_ct(exp_mt), (ctype, exp_mt)
            if exp_mt == 'text/html':
                assert '<script>alert(1)' not in body
                if contextual:
                    assert '&lt;script&gt;alert(1)&lt;/script&gt;' in body
                else:
                    assert body == ref_html(404, 'Not found',
                                            errors.NotFound.detail, None)
            elif exp_mt == 'application/json':
                data = json.loads(body)
                assert data['code'] == 404 and data['message'] == 'Not found'
                if contextual:
                    assert data['request']['path'] == path
                    assert [r['pattern'] for r in data['routes']][:2] == \
                        ['/boom', '/teapot']
            elif exp_mt == 'application/xml':
                assert ET.fromstring(body).find('code').text == '404'
            else:
                assert body == ref_text(404, 'Not found',
                                        errors.NotFound.detail, None)
            # uncaught exception
            resp = get(client, '/boom', accept)
            assert resp.status_code == 500
            body = resp.get_data(True)
            assert resp.headers['Content-Type'] == full_ct(exp_mt)
            url = errors.STDLIB_EXC_URL + 'RuntimeError'
            if exp_mt == 'text/html':
                assert '<script>alert("exc")' not in body
                assert '<b id="loc">' not in body
                assert 'RuntimeError' in body
                tc = TagCollector()
                tc.feed(body)
                tc.close()
                assert 'b' not in tc.tags
                if contextual:
                    assert '&lt;script&gt;alert(&quot;exc&quot;)' in body
                    assert 'secret_local' in body
                else:
                    assert set(tc.tags) <= ALLOWED_TAGS
                    assert ('href', url) in tc.attrs
            elif exp_mt == 'application/json':
                data = json.loads(body)
                assert data['code'] == 500 and data['error_type'] == url
                assert '<script>alert("exc")</script>' in json.dumps(
                    data, ensure_ascii=False).replace('\\"', '"')
            elif exp_mt == 'application/xml':
                root = ET.fromstring(body)
                assert root.find('error_type').text == url
                assert len(root.find('detail')) == 0
                assert 'alert("exc")' in root.find('detail').text
            else:
                assert body.startswith('500 - Internal server error\n\n')
                assert body.endswith('\n\nError type: ' + url)
    # a route whose render_error breaks falls back on default_render_error
    app = make_app(ErrorHandler())
    for rt in app.routes:
        rt.render_error = None
    client = Client(app, BaseResponse)
    resp = get(client, '/teapot', 'application/xml', query_string={'d': '<d>'})
    check_body(resp, 'application/xml', 418, errors.ImATeapot.message, '<d>', None)
    resp = get(client, '/nope', 'application/json')
    check_body(resp, 'application/json', 404, 'Not found',
               errors.NotFound.detail, None)
    # a non-error response passes through dispatch untouched
    resp = client.post('/only_post')
    assert resp.status_code == 200 and resp.get_data() == b'ok'
    # reraise_uncaught
    app = make_app(ErrorHandler(reraise_uncaught=True))
    try:
        Client(app, BaseResponse).get('/boom')
    except RuntimeError as exc:
        assert 'alert' in str(exc)
    else:
        raise AssertionError('expected the RuntimeError to propagate')


def main():
    n = check_direct()
    check_405()
    check_500_error_type()
    check_apps()
    assert n > 3000, n
    print('PASS')
    return 0


if __name__ == '__main__':
    sys.exit(main())
