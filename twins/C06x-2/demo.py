# -*- coding: utf-8 -*-
"""Demo for C06 (dispatch: first match in order, methods, 404/405,
non-breaking fallthrough).  Compares clastic against a small independent
model over randomly drawn routing tables.  Prints PASS and exits 0.
"""
import itertools
import random
import sys

from clastic import Application, Route, Response
from clastic.errors import (Forbidden, NotFound, BadRequest,
                            MethodNotAllowed, HTTPException)
from clastic.route import NullRoute, BoundRoute, InvalidMethod, GET, POST
from clastic.application import DispatchState  # public import path must keep working

PATTERNS = ['/a', '/a/<x>', '/<x>', '/b', '/a/b', '/<x>/<y>']
METHOD_SETS = [None, (), ['GET'], ['post'], ['PUT', 'delete'], ('Head',),
               ['get', 'POST']]
BEHAVIOURS = ['ok', 'raise403nb', 'ret404nb', 'raise400', 'ret403', 'boom',
              'state']
PATHS = ['/a', '/a/b', '/b', '/zzz', '/a/b/c', '/']
REQ_METHODS = ['GET', 'POST', 'HEAD', 'get', 'pOsT', 'PURGE', 'DELETE']


def make_endpoint(tag, behaviour):
    hdr = {'X-Route': tag}
    if behaviour == 'ok':
        def ep():
            return Response('ok', headers=hdr)
    elif behaviour == 'raise403nb':
        def ep():
            raise Forbidden(is_breaking=False, headers=hdr)
    elif behaviour == 'ret404nb':
        def ep():
            return NotFound(is_breaking=False, headers=hdr)
    elif behaviour == 'raise400':
        def ep():
            raise BadRequest(headers=hdr)
    elif behaviour == 'ret403':
        def ep():
            return Forbidden(headers=hdr)
    elif behaviour == 'boom':
        def ep():
            raise ValueError('boom ' + tag)
    elif behaviour == 'state':
        def ep(_dispatch_state):
            assert isinstance(_dispatch_state, DispatchState)
            val = '%s|%s' % (','.join(sorted(_dispatch_state.allowed_methods)),
                             len(_dispatch_state.exceptions))
            return Response('st', headers={'X-Route': tag, 'X-State': val})
    else:
        raise AssertionError(behaviour)
    return ep


# ---- the model -----------------------------------------------------------

def model_methods(methods):
    if not methods:
        return None
    ret = set(m.upper() for m in methods)
    if 'GET' in ret:
        ret.add('HEAD')
    return ret


def model_match(pattern, path):
    psegs = [s for s in pattern.split('/') if s]
    segs = [s for s in path.split('/') if s]
    if len(psegs) != len(segs):
        return False
    for p, s in zip(psegs, segs):
        if p.startswith('<'):
            continue
        if p != s:
            return False
    return True


CODES = {'raise403nb': 403, 'ret404nb': 404, 'raise400': 400, 'ret403': 403}


def model_dispatch(table, path, method):
    """table: list of (tag, pattern, methods, behaviour) in final order."""
    allowed = set()
    last_nb = None
    n_exc = 0
    for tag, pattern, methods, behaviour in table:
        if not model_match(pattern, path):
            continue
        mset = model_methods(methods)
        if mset and method.upper() not in mset:
            allowed |= mset
            continue
        if behaviour == 'ok':
            return (200, tag, None, None)
        if behaviour == 'state':
            return (200, tag, None, '%s|%s' % (','.join(sorted(allowed)), n_exc))
        if behaviour == 'boom':
            return (500, None, None, None)
        if behaviour in ('raise400', 'ret403'):
            return (CODES[behaviour], tag, None, None)
        last_nb = (CODES[behaviour], tag, None, None)
        n_exc += 1
    if last_nb:
        return last_nb
    if allowed:
        return (405, None, ', '.join(sorted(allowed)), None)
    return (404, None, None, None)


def observe(client, path, method):
    resp = client.open(path=path, method=method)
    return (resp.status_code, resp.headers.get('X-Route'),
            resp.headers.get('Allow'), resp.headers.get('X-State'))


def build(rng, specs):
    """Build the app either by constructor or by add(entry, index) calls;
    returns (app, table in final order)."""
    entries = []
    for i, (pattern, methods, behaviour) in enumerate(specs):
        tag = 'R%d' % i
        ep = make_endpoint(tag, behaviour)
        form = rng.randrange(3)
        if form == 0:
            entry = Route(pattern, ep, methods=methods)
        elif form == 1 and methods is None:
            entry = (pattern, ep)
        else:
            entry = Route(pattern, ep, methods=methods)
        entries.append((entry, (tag, pattern, methods, behaviour)))
    if rng.random() < 0.4:
        app = Application([e for e, _ in entries])
        table = [t for _, t in entries]
    else:
        app = Application()
        table = []
        for e, t in entries:
            if rng.random() < 0.5:
                app.add(e)
                table.append(t)
            else:
                idx = rng.randrange(len(table) + 1)
                app.add(e, index=idx)
                table.insert(idx, t)
    assert len(app.routes) == len(table)
    return app, table


def main():
    rng = random.Random(6006)
    n_req = 0
    seen = set()
    for _ in range(260):
        size = rng.randrange(0, 5)
        specs = [(rng.choice(PATTERNS), rng.choice(METHOD_SETS),
                  rng.choice(BEHAVIOURS)) for _ in range(size)]
        app, table = build(rng, specs)
        client = app.get_local_client()
        for path, method in itertools.product(PATHS, REQ_METHODS):
            want = model_dispatch(table, path, method)
            got = observe(client, path, method)
            assert got == want, (table, path, method, got, want)
            seen.add(want[0])
            n_req += 1
        # routes are never reordered by dispatching
        assert [r.pattern for r in app.routes] == [t[1] for t in table]
    assert seen >= {200, 400, 403, 404, 405, 500}, seen

    # --- fixed edge cases ---
    # method normalisation and aliasing corner cases
    assert Route('/x', lambda: None, methods=['get']).methods == {'GET', 'HEAD'}
    assert Route('/x', lambda: None, methods=('post',)).methods == {'POST'}
    assert Route('/x', lambda: None).methods is None
    empty = []
    assert Route('/x', lambda: None, methods=empty).methods is empty
    assert Route('/x', lambda: None, methods=()).methods == ()
    assert Route('/x', lambda: None, methods=iter(['put'])).methods == {'PUT'}
    assert GET('/x', lambda: None).methods == {'GET', 'HEAD'}
    assert POST('/x', lambda: None).methods == {'POST'}
    try:
        Route('/x', lambda: None, methods=['GET', 'PURGE'])
    except InvalidMethod as e:
        assert 'PURGE' in str(e)
    else:
        raise AssertionError('InvalidMethod expected')

    # match_method returns real booleans, empty/None request method admitted
    br = Route('/x', lambda: None, methods=['GET']).bind(Application())
    assert br.match_method('get') is True and br.match_method('HEAD') is True
    assert br.match_method('POST') is False
    assert br.match_method('') is True and br.match_method(None) is True
    br2 = Route('/x', lambda: None).bind(Application())
    assert br2.match_method('ANYTHING') is True

    # DispatchState
    ds = DispatchState()
    assert ds.exceptions == [] and ds.allowed_methods == set()
    assert ds.attempted_routes == []
    ds.update_methods(None)
    ds.update_methods(set())
    ds.update_methods({'GET'})
    ds.update_methods(['PUT', 'GET'])
    assert ds.allowed_methods == {'GET', 'PUT'}
    marker = object()
    ds.add_exception(marker)
    ds.add_route(marker)
    assert ds.exceptions == [marker] and ds.attempted_routes == [marker]
    assert repr(ds).startswith('<DispatchState exceptions=[')
    assert 'allowed_methods=' in repr(ds)
    assert DispatchState().exceptions is not DispatchState().exceptions

    # the sentinel: last exception wins, else 405, else 404
    app = Application()
    null = app._null_route
    assert isinstance(null, BoundRoute) and isinstance(null.unbound_route, NullRoute)
    assert null.slash_mode == 'rewrite' and null.methods is None
    hsc = null.unbound_route.handle_sentinel_condition
    s = DispatchState()
    r = hsc(request=None, _application=app, _route=null, _dispatch_state=s)
    assert type(r) is NotFound and r.dispatch_state is s and r.status_code == 404
    s.update_methods({'PUT', 'GET'})
    r = hsc(request=None, _application=app, _route=null, _dispatch_state=s)
    assert type(r) is MethodNotAllowed and r.allowed_methods == {'PUT', 'GET'}
    assert r.allowed_methods is not s.allowed_methods
    assert r.headers['Allow'] == 'GET, PUT'
    assert "Allowed methods: ['GET', 'PUT']" in r.detail
    e1, e2 = Forbidden(is_breaking=False), NotFound(is_breaking=False)
    s.add_exception(e1)
    s.add_exception(e2)
    assert hsc(request=None, _application=app, _route=null, _dispatch_state=s) is e2

    # MethodNotAllowed without methods: no Allow header, default detail
    m = MethodNotAllowed()
    assert m.allowed_methods == set() and 'Allow' not in m.headers
    assert m.detail == MethodNotAllowed.detail
    assert HTTPException().is_breaking is True
    assert Forbidden(is_breaking=False).is_breaking is False

    # non-Response return value -> 500 via TypeError, message unchanged
    app = Application([('/t', lambda: 'text', lambda context: context)])
    assert app.get_local_client().get('/t').status_code == 500
    try:
        app.error_handler.reraise_uncaught = True
        app.get_local_client().get('/t')
    except TypeError as te:
        assert str(te) == "expected Response, received <class 'str'>", str(te)
    else:
        raise AssertionError('TypeError expected')

    assert n_req > 5000
    print('PASS')
    return 0


if __name__ == '__main__':
    sys.exit(main())
