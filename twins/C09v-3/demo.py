# -*- coding: utf-8 -*-
"""demo3: the debug (contextual) 404 / 500 pages -- template registration,
HTML rendering with everything escaped, and the other negotiated formats."""
import hashlib
import json
import warnings
import xml.etree.ElementTree as ET
from html.parser import HTMLParser

warnings.simplefilter('ignore')

from clastic import Application, render_basic, errors, POST
from clastic import _contextual_errors as ce
from clastic.errors import (ContextualNotFound, ContextualInternalServerError,
                            ContextualErrorHandler, NotFound, InternalServerError,
                            HTTPException)


def sha(text):
    return hashlib.sha256(text.encode('utf8')).hexdigest()


# --- templates and their registration ------------------------------------------
assert (len(ce.HTML_500_TMPL), sha(ce.HTML_500_TMPL)) == \
    (13381, '53531faacbeb2bc830864235ab0b6133d5e45992217ce859d67ee99981e876ce')
assert (len(ce.HTML_404_TMPL), sha(ce.HTML_404_TMPL)) == \
    (6704, '5bad05e941dba3e6f42f8cffbdcac9b7944e45958fabf14936b80ca4f8068c67')
assert (len(ce.STYLE_SCRIPT_STUFF), sha(ce.STYLE_SCRIPT_STUFF)) == \
    (5458, 'bcb3a8e6dcc8c182d92ff78e566cc03d3e6227d56bf362517f24a873c3d11abd')
for tmpl in (ce.HTML_500_TMPL, ce.HTML_404_TMPL):
    assert '__STYLE_SCRIPT_STUFF__' not in tmpl
    assert tmpl.count(ce.STYLE_SCRIPT_STUFF) == 1
assert list(ce.CONTEXTUAL_ENV.templates) == ['500.html', '404.html']
assert errors.CONTEXTUAL_ENV is ce.CONTEXTUAL_ENV
assert ce.CONTEXTUAL_ENV.render('404.html', {}) == \
    ce.CONTEXTUAL_ENV.render('404.html', {'unused': '<x>'})

# --- class relationships ----------------------------------------------------------
assert issubclass(ContextualNotFound, NotFound)
assert issubclass(ContextualInternalServerError, InternalServerError)
assert errors.ERROR_CODE_MAP[404] is ContextualNotFound
assert errors.ERROR_CODE_MAP[500] is ContextualInternalServerError
assert all(issubclass(c, HTTPException) for c in errors.ERROR_CODE_MAP.values())
assert 'ContextualNotFound' in errors.__all__
assert 'ContextualInternalServerError' in errors.__all__
assert not [n for n in errors.__all__ if n.startswith('_')]
assert ContextualErrorHandler.not_found_type is ContextualNotFound
assert ContextualErrorHandler.server_error_type is ContextualInternalServerError
assert ContextualNotFound.code == 404 and ContextualInternalServerError.code == 500


class Tokens(HTMLParser):
    def __init__(self):
        HTMLParser.__init__(self, convert_charrefs=True)
        self.tags, self.text, self.attrs = [], [], []

    def handle_starttag(self, tag, attrs):
        self.tags.append(tag)
        self.attrs.extend(attrs)

    def handle_data(self, data):
        self.text.append(data)


def tokens(body):
    p = Tokens()
    p.feed(body)
    p.close()
    return p


def full_ctype(mime):
    return mime if mime == 'application/json' else mime + '; charset=utf-8'


EVIL = ['<script>alert(1)</script>', '"><img src=x onerror=a()>', "a&b 'c' \"d\"",
        '{routes}{#routes}x{/routes}', '{>"500.html"/}', u'\xe9☃<b>', '</title><h1>']
FORBIDDEN_TAGS = {'img', 'b'}

# --- bare instances (no request / application / exc_info) --------------------------
for cls, title in ((ContextualNotFound, 'Page not found'),
                   (ContextualInternalServerError, 'Exception')):
    base_tags = tokens(cls().to_html()).tags
    assert base_tags[:3] == ['html', 'head', 'meta'], base_tags[:5]
    for evil in EVIL:
        err = cls(detail=evil, message=evil, error_type=evil)
        html = err.to_html()
        assert html == err.to_html('ignored', also='ignored') or cls is not ContextualNotFound
        toks = tokens(html)
        assert toks.tags == base_tags, (cls, evil)
        assert title in ''.join(toks.text)
        err.adapt('text/html')
        assert err.status_code == cls.code
        assert err.headers['Content-Type'] == 'text/html; charset=utf-8'
        assert tokens(err.get_data(True)).tags == base_tags
        err.adapt('application/json')
        data = json.loads(err.get_data(True))
        assert (data['code'], data['message'], data['detail'], data['error_type']) \
            == (cls.code, evil, evil, evil)
        err.adapt('application/xml')
        root = ET.fromstring(err.get_data())
        assert [c.tag for c in root] == ['code', 'message', 'detail', 'error_type']
        assert root.find('detail').text == evil and all(len(c) == 0 for c in root)
        err.adapt('image/png')
        assert err.headers['Content-Type'] == 'text/plain; charset=utf-8'
        assert err.get_data(True).startswith('%s - %s' % (cls.code, evil))


# to_html renders whatever to_dict() returns (dynamic dispatch kept)
class MyNotFound(ContextualNotFound):
    def to_dict(self):
        return {'request': {'path': '/<from-to_dict>', 'method': 'M&M'},
                'routes': [{'pattern': '/<p>', 'regex': '"rx"', 'methods': ['<G>']}]}


page = MyNotFound().to_html()
assert '/&lt;from-to_dict&gt;' in page and 'M&amp;M' in page
assert 'title="&quot;rx&quot;"' in page and '/&lt;p&gt;' in page and '&lt;G&gt;' in page
assert '<from-to_dict>' not in page and '<p>' not in page.split('<ol>')[1].split('</ol>')[0]


class MyISE(ContextualInternalServerError):
    def to_dict(self):
        return {'exc_type': '<T>', 'exc_value': '<V>&', 'req': {'path': '/<r>'}}


page = MyISE().to_html()
assert '&lt;T&gt;' in page and '&lt;V&gt;&amp;' in page and '/&lt;r&gt;' in page
assert '<T>' not in page and '<V>' not in page and '<r>' not in page

# --- through an application in debug mode ---------------------------------------------
def boom(request):
    secret_local = '<img src=x onerror=alert(2)>'
    raise RuntimeError(request.args.get('m', '<b>boom</b>'))


def api(name):
    return name


for app in (Application([('/boom', boom, render_basic),
                         ('/api/<name>', api, render_basic),
                         POST('/post', lambda: 'p', render_basic)], debug=True),
            Application([('/boom', boom, render_basic),
                         ('/api/<name>', api, render_basic)],
                        error_handler=ContextualErrorHandler())):
    cl = app.get_local_client()
    skeleton_404 = None
    for path in ['/nope', '/<script>alert(1)</script>', '/"><img src=x>', '/a&b;c',
                 '/{request.path}', '/%3Cb%3Ebold%3C/b%3E', u'/caf\xe9', '/api/x/<i>']:
        for accept, mime in (('text/html', 'text/html'), ('*/*', 'text/html'),
                             ('application/json', 'application/json'),
                             ('application/xml', 'application/xml'),
                             ('text/plain', 'text/plain'), (None, 'text/plain'),
                             ('audio/ogg', 'text/plain')):
            resp = cl.get(path, headers={} if accept is None else {'Accept': accept})
            assert resp.status_code == 404
            assert resp.headers['Content-Type'] == full_ctype(mime)
            body = resp.get_data(True)
            if mime == 'text/html':
                toks = tokens(body)
                assert not FORBIDDEN_TAGS & set(toks.tags), toks.tags
                if skeleton_404 is None:
                    skeleton_404 = toks.tags
                assert toks.tags == skeleton_404, path
                assert '<script>alert(1)' not in body
                text = ''.join(toks.text)
                assert 'Page not found' in text and '/api/<name>' in text
                assert 'GET' in text
                assert not [v for k, v in toks.attrs if k.startswith('on')]
            elif mime == 'application/json':
                data = json.loads(body)
                assert data['code'] == 404 and data['message'] == 'Not found'
                assert data['error_type'] is None
                assert data['request']['method'] == 'GET'
                assert [r['pattern'] for r in data['routes']][:2] == ['/boom', '/api/<name>']
            elif mime == 'application/xml':
                root = ET.fromstring(body.encode('utf8'))
                assert root.find('code').text == '404'
                assert [c.tag for c in root] == ['code', 'message', 'detail', 'error_type']
            else:
                assert body.startswith('404 - Not found')

    skeleton_500 = None
    for msg in EVIL + ['']:
        for accept, mime in (('text/html', 'text/html'),
                             ('application/json', 'application/json'),
                             ('application/xml', 'application/xml'),
                             (None, 'text/plain')):
            resp = cl.get('/boom', query_string={'m': msg},
                          headers={} if accept is None else {'Accept': accept})
            assert resp.status_code == 500
            assert resp.headers['Content-Type'] == full_ctype(mime)
            body = resp.get_data(True)
            if mime == 'text/html':
                toks = tokens(body)
                assert not FORBIDDEN_TAGS & set(toks.tags), toks.tags
                if skeleton_500 is None:
                    skeleton_500 = sorted(set(toks.tags))
                assert sorted(set(toks.tags)) == skeleton_500
                text = ''.join(toks.text)
                assert 'RuntimeError' in text and '/boom' in text
                assert msg in text
                assert "'<img src=x onerror=alert(2)>'" in text  # the local, as text
                assert '<img src=x' not in body and '<script>alert(1)' not in body
                assert not [v for k, v in toks.attrs if k == 'onerror']
            elif mime == 'application/json':
                data = json.loads(body)
                assert data['code'] == 500 and data['exc_value'] == msg
                assert data['last_frame']['locals']['secret_local'] == \
                    repr('<img src=x onerror=alert(2)>')
            elif mime == 'application/xml':
                root = ET.fromstring(body.encode('utf8'))
                assert root.find('code').text == '500'
                assert msg in root.find('detail').text
            else:
                assert body.startswith('500 - Internal server error')
                assert msg in body

print('PASS')
