# -*- coding: utf-8 -*-
"""Demo for C01 (bind-time dependency check is sound and complete).

Prints PASS and exits 0 on unmodified code and with the patch applied.
"""
import sys

from werkzeug.test import Client
from werkzeug.wrappers import Response, BaseResponse

from clastic import Application, Middleware, render_basic
from clastic.sinter import (make_chain, chain_argspec, compile_code,
                            compile_chain, get_arg_names, get_fb)
from clastic.middleware.core import (make_middleware_chain, check_middleware,
                                     check_middlewares)
from clastic.route import Route, BoundRoute, check_render_error

CHECKS = [0]


def ok(cond, msg=''):
    CHECKS[0] += 1
    assert cond, msg


def rejects(builder, exc_type=NameError, needle=None):
    try:
        builder()
    except Exception as e:
        ok(type(e) is exc_type, 'expected %r got %r' % (exc_type, e))
        if needle is not None:
            ok(needle in str(e), 'expected %r in %r' % (needle, str(e)))
        return e
    raise AssertionError('construction unexpectedly succeeded')


def get(app, path, method='GET'):
    cl = Client(app, BaseResponse)
    return cl.open(path, method=method)


def text(resp):
    return resp.get_data(as_text=True)


# ---- middlewares over a small alphabet --------------------------------

class ProvA(Middleware):
    provides = ('a',)

    def request(self, next):
        return next(a='A')


class NeedsAProvB(Middleware):
    provides = ('b',)

    def request(self, next, a):
        return next(b=a + 'B')


class EpProvC(Middleware):
    endpoint_provides = ('c',)

    def endpoint(self, next, a):
        return next(c=a + 'C')


class RnProvD(Middleware):
    render_provides = ('d',)

    def render(self, next, context):
        return next(d='D')


class OptA(Middleware):
    """optional 'a' picks up a previous provider, else the default"""
    provides = ('o',)

    def request(self, next, a='dflt'):
        return next(o=a)


class KwOnly(Middleware):
    provides = ('k',)

    def request(self, next, *, a, z=5):
        return next(k='%s%s' % (a, z))


class AllThree(Middleware):
    provides = ('p',)
    endpoint_provides = ('q',)
    render_provides = ('r',)

    def request(self, next, request):
        return next(p='P')

    def endpoint(self, next, p):
        return next(q=p + 'Q')

    def render(self, next, p, context):
        return next(r=p + 'R')


class NeedsMissing(Middleware):
    def request(self, next, missing):
        return next()


class EpNeedsMissing(Middleware):
    def endpoint(self, next, missing):
        return next()


class RnNeedsMissing(Middleware):
    def render(self, next, missing):
        return next()


class NoNextFirst(Middleware):
    def request(self, request, next):
        return next()


class NotCallable(Middleware):
    request = 'nope'


class Falsy(Middleware):
    request = None
    endpoint = 0
    render = ''


def rnd(context):
    return Response(repr(context))


def main():
    # --- accepted configurations and their run-time behaviour ---------
    app = Application([('/', lambda a, b: a + b, rnd)],
                      middlewares=[ProvA(), NeedsAProvB()])
    ok(text(get(app, '/')) == repr('AAB'))
    # catch-all route runs app-level middlewares: 404 and 405
    ok(get(app, '/nope').status_code == 404)
    app405 = Application([Route('/', lambda a: a, rnd, methods=['POST'])],
                         middlewares=[ProvA()])
    ok(get(app405, '/').status_code == 405)

    # wrong order: b's provider needs a before a is provided
    rejects(lambda: Application([('/', lambda b: b, rnd)],
                                middlewares=[NeedsAProvB(), ProvA()]),
            NameError, 'unresolved request middleware arguments')

    # endpoint_provides feeds the endpoint but not a request middleware
    app = Application([('/', lambda a, c: a + c, rnd)],
                      middlewares=[ProvA(), EpProvC()])
    ok(text(get(app, '/')) == repr('AAC'))

    # render_provides feeds render only
    app = Application([('/', lambda: 'ctx', lambda context, d: Response(context + d))],
                      middlewares=[RnProvD()])
    ok(text(get(app, '/')) == 'ctxD')
    rejects(lambda: Application([('/', lambda d: d, rnd)], middlewares=[RnProvD()]),
            NameError, 'unresolved endpoint middleware arguments')

    # render depending on endpoint_provides: rejected today (render phase
    # sees request provides + context only)
    rejects(lambda: Application([('/', lambda: 'x', lambda context, c: Response(context + c))],
                                middlewares=[ProvA(), EpProvC()]),
            NameError, "unresolved render middleware arguments: ['c']")

    # optional param: with and without an earlier provider
    app = Application([('/', lambda o: o, rnd)], middlewares=[ProvA(), OptA()])
    ok(text(get(app, '/')) == repr('A'))
    app = Application([('/', lambda o: o, rnd)], middlewares=[OptA()])
    ok(text(get(app, '/')) == repr('dflt'))
    # optional param satisfied by a resource
    app = Application([('/', lambda o: o, rnd)], resources={'a': 'RES'},
                      middlewares=[OptA()])
    ok(text(get(app, '/')) == repr('RES'))

    # keyword-only params
    app = Application([('/', lambda k: k, rnd)], middlewares=[ProvA(), KwOnly()])
    ok(text(get(app, '/')) == repr('A5'))
    rejects(lambda: Application([('/', lambda k: k, rnd)], middlewares=[KwOnly()]),
            NameError, "['a']")
    app = Application([('/', lambda k: k, rnd)], resources={'z': 0},
                      middlewares=[ProvA(), KwOnly()])
    ok(text(get(app, '/')) == repr('A0'))

    # all three phases in one middleware; URL bindings; builtins
    app = Application([('/<name>', lambda name, q, request: name + q,
                        lambda context, r, _route: Response(context + r))],
                      middlewares=[AllThree()])
    ok(text(get(app, '/zed')) == 'zedPQPR')
    ok(get(app, '/').status_code == 404)

    # falsy phase attributes are skipped, not checked
    mw = Falsy()
    check_middleware(mw)
    ok(mw.requires == [] and mw.arguments == set())
    app = Application([('/', lambda: 'f', rnd)], middlewares=[mw])
    ok(text(get(app, '/')) == repr('f'))

    # requires / arguments of Middleware
    ok(sorted(AllThree().requires) == ['context', 'p', 'request'])
    ok(AllThree().arguments == {'next', 'request', 'p', 'context'})
    ok(OptA().requires == [] and OptA().arguments == {'next', 'a'})
    ok(sorted(KwOnly().requires) == ['a'])
    ok(KwOnly().arguments == {'next', 'a', 'z'})

    # --- rejections -----------------------------------------------------
    for mwcls, needle in [(NeedsMissing, 'unresolved request middleware arguments'),
                          (EpNeedsMissing, 'unresolved endpoint middleware arguments'),
                          (RnNeedsMissing, 'unresolved render middleware arguments')]:
        e = rejects(lambda: Application([('/', lambda: 'x', rnd)],
                                        middlewares=[mwcls()]), NameError, needle)
        ok(str(e).endswith("['missing']"), str(e))
        # also rejected with no routes at all (catch-all route only)
        rejects(lambda: Application([], middlewares=[mwcls()]), NameError, needle)
        # and when added later
        app = Application([])
        rejects(lambda: app.add(Route('/', lambda: 'x', rnd, middlewares=[mwcls()])),
                NameError, needle)

    rejects(lambda: Application([('/', lambda nope: nope, rnd)]), NameError,
            "unresolved endpoint middleware arguments: ['nope']")
    rejects(lambda: Application([('/', lambda: 1, lambda context, nope: 1)]),
            NameError, "unresolved render middleware arguments: ['nope']")
    # 'next' reserved: endpoint is checked before render
    ep = lambda next: 1
    e = rejects(lambda: Application([('/', ep, lambda next: 1)]), NameError,
                "argument 'next' reserved")
    ok(repr(ep) in str(e))
    rn = lambda next, context: 1
    e = rejects(lambda: Application([('/', lambda: 1, rn)]), NameError,
                "argument 'next' reserved")
    ok(repr(rn) in str(e))
    # 'context' is not available to the endpoint or request phase
    rejects(lambda: Application([('/', lambda context: 1, rnd)]), NameError,
            "['context']")
    rejects(lambda: Application([('/', lambda: 1, rnd)], resources={'next': 1},
                                middlewares=[]), NameError)

    # check_middleware errors
    rejects(lambda: Application([], middlewares=[NoNextFirst()]), TypeError,
            "'next' as the first parameter (NoNextFirst.request)")
    rejects(lambda: Application([], middlewares=[NotCallable()]), TypeError,
            'expected NotCallable.request to be a function')

    class NoArgs(Middleware):
        endpoint = staticmethod(lambda: None)
    rejects(lambda: check_middleware(NoArgs()), IndexError)

    # conflicting provides
    rejects(lambda: Application([], middlewares=[ProvA()], resources={'a': 1}),
            NameError, 'found conflicting provides')
    ok(check_middlewares([ProvA(), NeedsAProvB()], {'url': {'x'}}) is True)

    # --- the sinter layer directly --------------------------------------
    def f1(next, x, y=2):
        return next(z=x + y)

    def final(z, w=7):
        return (z, w)

    chain, args, unres = make_chain((f1,), (('z',),), final, ['x', 'w', 'q'], 'next')
    ok(args == {'x', 'w'} and unres == set())
    ok(type(args) is set and type(unres) is set)
    ok(chain(x=1, w=3) == (3, 3))
    chain, args, unres = make_chain(iter([f1]), iter([('z',)]), final, (), 'next')
    ok(args == {'x'} and unres == {'x'})
    ok(chain(x=5) == (7, 7))
    chain, args, unres = make_chain([], [], final, {'z': 1}, 'next')
    ok(args == {'z'} and unres == set() and chain(z=0) == (0, 7))
    ok(chain_argspec([f1, final], [('z',), ()], 'next') == ({'x'}, {'y', 'w'}))

    env = {'K': 3}
    fn = compile_code('def g(a):\n    return a * K\n', 'g', env)
    ok(fn(2) == 6 and env['g'] is fn)
    ok(fn.__code__.co_filename.startswith('<sinter generated g '))
    ok(fn.__code__.co_filename.endswith('>'))
    ok(len(fn.__code__.co_filename) == len('<sinter generated g >') + 16)
    import linecache
    ent = linecache.cache[fn.__code__.co_filename]
    ok(ent == (len('def g(a):\n    return a * K\n'), None,
               ['def g(a):\n', '    return a * K\n'], fn.__code__.co_filename))
    fn2 = compile_code('def h():\n    return 1\n', name='h', env={}, verbose=False)
    ok(fn2() == 1)
    cc = compile_chain([f1, final], [['x'], ['z']], 'next')
    ok(cc(x=1) == (3, 7))

    # make_middleware_chain directly
    mwc = make_middleware_chain([ProvA(), EpProvC(), RnProvD()],
                                lambda a, c: a + c,
                                lambda context, d, req: context + d + req,
                                ['req', 'next', 'context'])
    ok(mwc(req='!') == 'AACD!')
    rejects(lambda: make_middleware_chain([], lambda context: 1, lambda context: 1,
                                          ['context']), NameError, "['context']")

    # render_error check
    ok(check_render_error(lambda _error, request: 1, {}) is True)
    rejects(lambda: check_render_error(lambda zz, aa: 1, {}), NameError, "['aa', 'zz']")


    # --- BoundRoute binding options (refactoring 2 area) ----------------
    app = Application([('/x/<n:int>', lambda n, res: n + res, rnd)],
                      resources={'res': 10}, middlewares=[ProvA()])
    br = app.routes[0]
    ok(isinstance(br, BoundRoute))
    ok(br.pattern == '/x/<n:int>' and list(br.path_args) == ['n'])
    ok(list(br.endpoint_args) == ['n', 'res'])
    ok(br.resources == {'res': 10} and br.resources is not app.resources)
    ok(br.render is rnd and br.render_factory is None)
    ok(br.get_required_args() == ['n', 'res'] or sorted(br.get_required_args()) == ['n', 'res'])
    ok(text(get(app, '/x/5')) == '15')
    # merged resources dict; app-level middlewares come first
    r = Route('/y', lambda res, a, b: res + a + b, rnd, resources={'res': 'R'},
              middlewares=[NeedsAProvB()])
    outer = Application([r], resources={'res': 'APP'}, middlewares=[ProvA()])
    ok(outer.routes[0].resources == {'res': 'R'})
    ok(text(get(outer, '/y')) == repr('APPAAB'))  # dispatch passes app resources
    ok([type(m) for m in outer.routes[0].middlewares] == [ProvA, NeedsAProvB])
    # options
    b2 = r.bind(outer, prefix='/pre', inherit_slashes=False, rebind_render=False,
                rebind_render_error=False)
    ok(b2.pattern == '/pre/y' and b2.slash_mode == r.slash_mode)
    ok(b2.render is rnd and b2.render_error is r.render_error)
    e = rejects(lambda: r.bind(outer, bogus=1), TypeError, 'unexpected keyword args')
    ok('bogus' in str(e))
    # render_factory binding: string render arg goes through the app factory
    fac_app = Application([('/', lambda: {'v': 1}, 'tmpl')],
                          render_factory=lambda arg: (lambda context: Response(arg + repr(context))))
    ok(text(get(fac_app, '/')) == "tmpl{'v': 1}")
    ok(callable(fac_app.routes[0].render_factory))
    # render_factory output is dependency-checked too
    rejects(lambda: Application([('/', lambda: 1, 'tmpl')],
                                render_factory=lambda arg: (lambda context, nope: 1)),
            NameError, "unresolved render middleware arguments: ['nope']")
    # URL binding names conflict with a middleware's provides
    rejects(lambda: Application([('/<a>', lambda a: a, rnd)], middlewares=[ProvA()]),
            NameError, 'found conflicting provides')
    # no render -> _noop_render: endpoint must return a response itself
    app = Application([('/', lambda: Response('direct'))])
    ok(text(get(app, '/')) == 'direct')
    from clastic.route import _noop_render
    ok(app.routes[0].render is _noop_render and _noop_render(3) == 3)
    # nested application: sub-app routes are re-bound and re-checked
    inner = Application([('/i', lambda a: a, rnd)], middlewares=[ProvA()])
    outer = Application([('/sub', inner)], middlewares=[OptA()])
    ok(text(get(outer, '/sub/i')) == repr('A'))
    rejects(lambda: Application([('/sub', inner)], middlewares=[ProvA(), NeedsMissing()]),
            NameError, "['missing']")

    print('PASS (%d checks)' % CHECKS[0])
    return 0


if __name__ == '__main__':
    sys.exit(main())
