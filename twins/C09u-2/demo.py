# -*- coding: utf-8 -*-
"""demo2: the debug ("contextual") 404 page -- ContextualNotFound.to_dict and
everything rendered from it (JSON / HTML / XML / text), plus the plain 404.

Prints PASS and exits 0 when every assertion holds.
"""
import sys
import json
import xml.etree.ElementTree as ET
from html.parser import HTMLParser

from clastic import Application, SubApplication, render_basic, errors, GET, POST, Route
from clastic.errors import ContextualNotFound, NotFound, ContextualErrorHandler, ErrorHandler

NF_DETAIL = NotFound.detail
BASE_KEYS = {'code', 'message', 'detail', 'error_type'}


class TagCollector(HTMLParser):
    def __init__(self):
        HTMLParser.__init__(self, convert_charrefs=True)
        self.tags = []
        self.text = []
        self.attrs = []

    def handle_starttag(self, tag, attrs):
        self.tags.append(tag)
        self.attrs.extend(attrs)

    def handle_data(self, data):
        self.text.append(data)


def parse_html(body):
    tc = TagCollector()
    tc.feed(body)
    tc.close()
    return tc


def ep():
    return 'ok'


def build_app(debug):
    sub = Application([POST('/inner/<thing>', ep, render_basic)])
    routes = [('/', ep, render_basic),
              GET('/get/<xss>', ep, render_basic),
              POST('/post/<a:int>/<b*>', ep, render_basic),
              Route('/multi', ep, render_basic, methods=['put', 'delete', 'GET']),
              ('/sub', sub)]
    return Application(routes, debug=debug)


def expected_routes(app):
    ret = []
    for route in app.routes:
        cur = {'pattern': route.pattern, 'regex': route.regex.pattern}
        if route.methods:
            cur['methods'] = sorted(route.methods)
        ret.append(cur)
    return ret


NASTY_PATHS = ['/nf',
               '/<xss>alert(1)</xss>',
               '/a&b"c\'d',
               '/{request.path}{routes}{>x/}',
               '/{{x}}{%y%}',
               u'/é中文',
               '/get',           # prefix of a route, still 404
               '/post/notint/x']
ACCEPTS = {'text/html': 'text/html', 'application/json': 'application/json',
           'application/xml': 'application/xml', 'text/plain': 'text/plain',
           'image/png': 'text/plain', 'text/html;q=0.1, application/json': 'application/json'}


def check_http(debug):
    app = build_app(debug)
    assert isinstance(app.error_handler,
                      ContextualErrorHandler if debug else ErrorHandler)
    exp_routes = expected_routes(app)
    assert len(exp_routes) == 5
    assert [('methods' in r) for r in exp_routes] == [False, True, True, True, True]
    assert exp_routes[3]['methods'] == ['DELETE', 'GET', 'HEAD', 'PUT']
    cl = app.get_local_client()
    for path in NASTY_PATHS:
        for accept, ctype in ACCEPTS.items():
            for method in ('GET', 'DELETE'):
                resp = cl.open(path, method=method, headers={'Accept': accept})
                assert resp.status_code == 404, (path, resp.status_code)
                assert resp.mimetype == ctype, (accept, resp.mimetype)
                body = resp.get_data(True)
                if ctype == 'application/json':
                    data = json.loads(body)
                    assert data['code'] == 404 and data['message'] == 'Not found'
                    assert data['detail'] == NF_DETAIL and data['error_type'] is None
                    if debug:
                        assert set(data) == BASE_KEYS | {'routes', 'request'}, sorted(data)
                        assert data['routes'] == exp_routes, data['routes']
                        assert data['request'] == {'path': path, 'method': method}
                    else:
                        assert set(data) == BASE_KEYS
                elif ctype == 'application/xml':
                    root = ET.fromstring(body)
                    assert root.tag == 'http_error'
                    assert [c.tag for c in root] == ['code', 'message', 'detail', 'error_type']
                    assert [c.text for c in root] == ['404', 'Not found', NF_DETAIL, None]
                    assert all(len(c) == 0 for c in root)
                elif ctype == 'text/plain':
                    assert body == '404 - Not found\n\n' + NF_DETAIL
                else:
                    tc = parse_html(body)
                    assert 'xss' not in tc.tags and 'thing' not in tc.tags
                    assert 'a:int' not in tc.tags and 'b*' not in tc.tags
                    text = ''.join(tc.text)
                    if debug:
                        assert tc.tags[0] == 'html' and 'ol' in tc.tags
                        assert tc.tags.count('li') == len(exp_routes)
                        # path, method and every pattern show up as *text*
                        assert path in text, (path, text[-600:])
                        assert method in text
                        for r in exp_routes:
                            assert r['pattern'] in text, r
                        titles = [v for k, v in tc.attrs if k == 'title']
                        assert titles == [r['regex'] for r in exp_routes], titles
                        assert "(['DELETE', 'GET', 'HEAD', 'PUT'])" in text \
                            or 'DELETE' in text
                    else:
                        assert tc.tags == ['html', 'head', 'title', 'body', 'h1', 'p']
                        assert text.replace('\n', '') == \
                            '404 - Not foundNot found' + NF_DETAIL


class FakeRegex(object):
    def __init__(self, pattern):
        self.pattern = pattern


class FakeRoute(object):
    def __init__(self, pattern, regex, methods):
        self.pattern = pattern
        self.regex = FakeRegex(regex)
        self.methods = methods


class FakeApp(object):
    def __init__(self, routes):
        self.routes = routes


class FakeRequest(object):
    def __init__(self, path, method):
        self.path = path
        self.method = method


class FalsyRequest(FakeRequest):
    def __bool__(self):
        return False
    __nonzero__ = __bool__


class FalsyApp(FakeApp):
    def __len__(self):
        return 0


def check_direct():
    base = {'code': 404, 'message': 'Not found', 'detail': NF_DETAIL, 'error_type': None}
    # no application: nothing is added, even with a request
    for kw in ({}, {'request': FakeRequest('/p', 'GET')}, {'application': None},
               {'application': FalsyApp([FakeRoute('/x', 'x', None)]),
                'request': FakeRequest('/p', 'GET')}):
        exc = ContextualNotFound(**kw)
        assert exc.to_dict() == base, exc.to_dict()
        assert exc.status_code == 404
    # application without routes / without request / falsy request
    exc = ContextualNotFound(application=FakeApp([]))
    assert exc.to_dict() == dict(base, routes=[])
    assert list(exc.to_dict()) == ['detail', 'message', 'code', 'error_type', 'routes']
    exc = ContextualNotFound(application=FakeApp([]), request=FalsyRequest('/p', 'GET'))
    assert exc.to_dict() == dict(base, routes=[])
    exc = ContextualNotFound(application=FakeApp([]), request=FakeRequest('/<p>', 'PATCH'))
    d = exc.to_dict()
    assert d == dict(base, routes=[], request={'path': '/<p>', 'method': 'PATCH'})
    assert list(d) == ['detail', 'message', 'code', 'error_type', 'routes', 'request']
    assert list(d['request']) == ['path', 'method']
    # methods: None / empty -> no key; sets, frozensets, tuples -> sorted *list* copy
    m_set = set(['POST', 'GET'])
    m_tuple = ('PUT', 'DELETE')
    fake_routes = [FakeRoute('/<a>', '^/(?P<a>[^/]+)$', None),
                   FakeRoute('/b&', '^/b&$', set()),
                   FakeRoute('/c"', '^/c"$', m_set),
                   FakeRoute('/d', '^/d$', frozenset(['HEAD'])),
                   FakeRoute('/e', '^/e$', m_tuple),
                   FakeRoute('/f', '^/f$', [])]
    exc = ContextualNotFound('custom <detail>', application=FakeApp(fake_routes),
                             request=FakeRequest('/<q>&', 'GET'), code=410,
                             message='<gone>', error_type='<et>')
    d = exc.to_dict()
    assert d['routes'] == [
        {'pattern': '/<a>', 'regex': '^/(?P<a>[^/]+)$'},
        {'pattern': '/b&', 'regex': '^/b&$'},
        {'pattern': '/c"', 'regex': '^/c"$', 'methods': ['GET', 'POST']},
        {'pattern': '/d', 'regex': '^/d$', 'methods': ['HEAD']},
        {'pattern': '/e', 'regex': '^/e$', 'methods': ['DELETE', 'PUT']},
        {'pattern': '/f', 'regex': '^/f$'}], d['routes']
    assert [list(r) for r in d['routes']] == [
        ['pattern', 'regex'], ['pattern', 'regex'], ['pattern', 'regex', 'methods'],
        ['pattern', 'regex', 'methods'], ['pattern', 'regex', 'methods'], ['pattern', 'regex']]
    assert all(type(r.get('methods', [])) is list for r in d['routes'])
    assert d['routes'][2]['methods'] is not m_set and m_set == set(['POST', 'GET'])
    assert m_tuple == ('PUT', 'DELETE')
    assert (d['code'], d['message'], d['detail'], d['error_type']) == \
        (410, '<gone>', 'custom <detail>', '<et>')
    assert exc.status_code == 410
    # every call builds fresh containers
    d2 = exc.to_dict()
    assert d2 == d and d2 is not d and d2['routes'] is not d['routes']
    assert d2['routes'][0] is not d['routes'][0] and d2['request'] is not d['request']
    # a broken route propagates its AttributeError unchanged
    broken = ContextualNotFound(application=FakeApp([object()]))
    try:
        broken.to_dict()
    except AttributeError:
        pass
    else:
        raise AssertionError('expected AttributeError')
    # all four renderings of the object with hostile fields
    data = json.loads(exc.to_json())
    assert data['routes'] == d['routes'] and data['request'] == d['request']
    assert data['code'] == 410 and data['error_type'] == '<et>'
    root = ET.fromstring(exc.to_xml())
    assert [c.text for c in root] == ['410', '<gone>', 'custom <detail>', '<et>']
    assert exc.to_text() == '410 - <gone>\n\ncustom <detail>\n\nError type: <et>'
    tc = parse_html(exc.to_html())
    assert not set(tc.tags) & {'a', 'q', 'gone', 'detail', 'et'}, tc.tags
    text = ''.join(tc.text)
    for needle in ('/<a>', '/b&', '/c"', '/<q>&', "['GET', 'POST']"):
        assert needle in text, needle
    titles = [v for k, v in tc.attrs if k == 'title']
    assert titles == [r.regex.pattern for r in fake_routes], titles
    esc = exc.to_escaped_dict()
    assert esc['detail'] == 'custom &lt;detail&gt;' and esc['code'] == '410'
    assert '<' not in esc['routes'] and '<' not in esc['request']
    # adapt() agrees with the bodies
    for mt, fmt in errors.MIME_SUPPORT_MAP.items():
        exc.adapt(mt)
        assert exc.headers['Content-Type'] == (mt if mt.endswith('json') else mt + '; charset=utf-8')
        assert exc.get_data(True) == getattr(exc, 'to_' + fmt)()


def main():
    check_direct()
    check_http(debug=True)
    check_http(debug=False)
    print('PASS')
    return 0


if __name__ == '__main__':
    sys.exit(main())
