# -*- coding: utf-8 -*-
"""demo3: the stats report and the reset endpoint.

Checks that the report (get_stats_dict / the stats application's JSON) gives,
per route pattern and status key, the exact number of requests counted -- also
when far more requests arrived than the (shrunk) sample store can hold -- with
statistics computed from nothing but the sampled hits; that the reset
endpoint returns the totals so far, and that counting then restarts from zero.
"""
import sys
import json
import random
import datetime

from boltons.statsutils import Stats

from clastic import Application, Response, POST
from clastic.errors import BadRequest, NotImplemented
from clastic.middleware import stats as S
from clastic.middleware.stats import StatsMiddleware, create_stats_app

QUANTILES = [0.25, 0.5, 0.75, 0.95, 0.99]
STAT_KEYS = ['count', 'mean', 'std_dev', 'mad', 'min',
             '0.25', '0.5', '0.75', '0.95', '0.99', 'max',
             'last_hit', 'total_duration']


class FakeClock(object):
    "time() alternates request start / request end; durations come from a list."
    def __init__(self, start=1700000000.0):
        self.now = start
        self.durations = []
        self._in_request = False

    def time(self):
        if not self._in_request:
            self._in_request = True
            self.now += 1.0
            return self.now
        self._in_request = False
        return self.now + self.durations.pop(0)


class FakeRequest(object):
    path = '/whatever'


class FakeRoute(object):
    def __init__(self, pattern):
        self.pattern = pattern


class FakeResp(object):
    def __init__(self, status_code):
        self.status_code = status_code
        self.content_type = 'text/plain; charset=utf-8'


class FakeApp(object):
    def __init__(self, middlewares):
        self.middlewares = middlewares

    def __repr__(self):
        return '<FakeApp>'


def parse_iso(text):
    return datetime.datetime.fromisoformat(text)


def expected_entry(sampled_hits, count, last_start, durations):
    "What the report must say, computed independently from the observed facts."
    durs_ms = [round(h.duration * 1000, 2) for h in sampled_hits]
    exp = Stats(durs_ms).describe(quantiles=QUANTILES, format='dict')
    exp['count'] = count
    exp['last_hit'] = datetime.datetime.fromtimestamp(last_start).isoformat()
    total = 0.0
    for d in durations:
        total += d
    exp['total_duration'] = round(total * 1000, 2)
    return exp


def check_direct_report():
    real_time = S.time
    clock = FakeClock()
    S.time = clock
    try:
        _check_direct_report(clock)
    finally:
        S.time = real_time


def _check_direct_report(clock):
    random.seed(31337)
    rng = random.Random(2)
    mw = StatsMiddleware()
    decoy = StatsMiddleware()           # only the first installed one is reported
    fake_app = FakeApp([object(), mw, decoy])
    routes = [FakeRoute('/a'), FakeRoute('/b/<x>'), FakeRoute('/c')]
    idle_route = FakeRoute('/idle')
    req = FakeRequest()

    def boom():
        raise ValueError('boom')

    def bad():
        raise BadRequest()

    outcomes = [(lambda: FakeResp(200), '200'),
                (lambda: FakeResp(302), '302'),
                (lambda: FakeResp(404), '404'),
                (boom, "'ValueError'"),
                (bad, '400')]

    facts = {}   # (route, key) -> [durations, last_start]

    def hit_route(route, nxt, key, dur):
        clock.durations.append(dur)
        try:
            mw.request(nxt, req, route)
        except (ValueError, BadRequest):
            pass
        rec = facts.setdefault((route, key), [[], None])
        rec[0].append((clock.now + dur) - clock.now)   # the duration as measured
        rec[1] = clock.now

    # a route that was looked up but never hit must not be reported
    mw.route_hits[idle_route]
    assert S.get_stats_dict(fake_app)['route_stats'] == {}
    # make two of the sample stores tiny, so most hits fall outside the sample
    hit_route(routes[0], outcomes[0][0], '200', 0.125)
    hit_route(routes[1], boom, "'ValueError'", 0.25)
    mw.route_hits[routes[0]]['200'].resize(4)
    mw.route_hits[routes[1]]["'ValueError'"].resize(1)
    verify_report(S.get_stats_dict(fake_app), mw, facts, reset=False)

    for i in range(1500):
        route = rng.choice(routes)
        nxt, key = rng.choice(outcomes)
        hit_route(route, nxt, key, rng.randint(0, 2000) / 8192.0)
        if i in (0, 1, 10, 200, 1499):
            verify_report(S.get_stats_dict(fake_app), mw, facts, reset=False)

    assert len(list(mw.route_hits[routes[0]]['200'])) == 4
    assert len(list(mw.route_hits[routes[1]]["'ValueError'"])) == 1
    assert mw.route_hits[routes[0]]['200'].total_count > 50

    # the reset variant: same totals, then everything starts over
    old_reset = mw.last_reset
    old_hits = mw.route_hits
    ret = S.get_and_reset_stats_dict(fake_app)
    verify_report(ret, None, facts, reset=True, route_hits=old_hits, last_reset=old_reset)
    assert len(mw.route_hits) == 0 and mw.route_hits is not old_hits
    assert mw.last_reset >= old_reset
    assert len(decoy.route_hits) == 0
    after = S.get_stats_dict(fake_app)
    assert after['route_stats'] == {}
    assert after['start_time_utc'] == mw.last_reset.isoformat()

    facts.clear()
    hit_route(routes[2], outcomes[0][0], '200', 0.5)
    verify_report(S.get_stats_dict(fake_app), mw, facts, reset=False)
    assert S.get_stats_dict(fake_app)['route_stats'] == {
        '/c': {'200': expected_entry(list(mw.route_hits[routes[2]]['200']), 1, clock.now, [0.5])}}

    # no StatsMiddleware installed
    for getter in (S.get_stats_dict, S.get_and_reset_stats_dict, S._get_stats_mw):
        for mws in ([], [object(), 'x']):
            try:
                getter(FakeApp(mws))
            except NotImplemented as ni:
                assert ni.code == 501
                assert ni.detail == 'StatsMiddleware not installed on app <FakeApp>', ni.detail
            else:
                raise AssertionError('expected NotImplemented')
    assert S._get_stats_mw(fake_app) is mw
    assert S._get_stats_mw(FakeApp([decoy, mw])) is decoy


def verify_report(report, mw, facts, reset, route_hits=None, last_reset=None):
    if route_hits is None:
        route_hits, last_reset = mw.route_hits, mw.last_reset
    top_keys = ['route_stats', 'start_time_utc', 'cur_time_utc']
    if reset:
        top_keys.append('reset')
        assert report['reset'] is True
    assert list(report.keys()) == top_keys
    assert report['start_time_utc'] == last_reset.isoformat()
    assert parse_iso(report['cur_time_utc']) >= parse_iso(report['start_time_utc'])

    expected = {}
    for (route, key), (durations, last_start) in facts.items():
        sampled = list(route_hits[route][key])
        exp = expected_entry(sampled, len(durations), last_start, durations)
        expected.setdefault(route.pattern, {})[key] = exp
    assert report['route_stats'] == expected
    for pattern, by_status in report['route_stats'].items():
        for key, entry in by_status.items():
            assert type(entry) is dict
            assert list(entry.keys()) == STAT_KEYS, list(entry.keys())
    # counts per route add up to the requests that reached it
    for pattern, by_status in report['route_stats'].items():
        n_reached = sum(len(d) for (rt, _), (d, _l) in facts.items() if rt.pattern == pattern)
        assert sum(e['count'] for e in by_status.values()) == n_reached


# ------------------------------------------------------------- over HTTP

def ep_ok():
    return Response('ok')


def ep_bad():
    raise BadRequest()


def ep_boom():
    raise RuntimeError('boom')


def counts_of(data):
    return dict((p, dict((k, v['count']) for k, v in bs.items()))
                for p, bs in data['route_stats'].items())


def check_http():
    random.seed(1)
    mw = StatsMiddleware()
    app = Application([('/ok', ep_ok), ('/bad', ep_bad), ('/boom', ep_boom),
                       POST('/submit', ep_ok),
                       ('/stats', create_stats_app())],
                      middlewares=[mw])
    cl = app.get_local_client()

    def get_json(resp):
        assert resp.status_code == 200
        return json.loads(resp.get_data(True))

    assert counts_of(get_json(cl.get('/stats/'))) == {}

    assert cl.get('/ok').status_code == 200
    ok_route = [r for r in app.routes if r.endpoint is ep_ok and r.pattern == '/ok'][0]
    # shrink the live sample store, then go far beyond its capacity
    mw.route_hits[ok_route]['200'].resize(3)
    for i in range(400):
        assert cl.get('/ok').status_code == 200
    for i in range(7):
        assert cl.get('/bad').status_code == 400
    for i in range(5):
        assert cl.get('/boom').status_code == 500
    for i in range(4):
        assert cl.get('/missing/%d' % i).status_code == 404
    for i in range(3):
        assert cl.get('/submit').status_code == 405
    for i in range(2):
        assert cl.post('/submit').status_code == 200

    expected = {'/ok': {'200': 401},
                '/bad': {'400': 7},
                '/boom': {"'RuntimeError'": 5},
                '/<_ignored*>': {'404': 4, '405': 3},
                '/submit': {'200': 2},
                '/stats/': {'200': 1}}
    data = get_json(cl.get('/stats/'))
    assert counts_of(data) == expected, counts_of(data)
    assert len(list(mw.route_hits[ok_route]['200'])) == 3
    ok_entry = data['route_stats']['/ok']['200']
    assert sorted(ok_entry.keys()) == sorted(STAT_KEYS)
    sampled_ms = [round(h.duration * 1000, 2) for h in mw.route_hits[ok_route]['200']]
    assert ok_entry['min'] == min(sampled_ms) and ok_entry['max'] == max(sampled_ms)
    assert ok_entry['total_duration'] == round(mw.route_hits[ok_route]['200'].total_duration * 1000, 2)
    assert ok_entry['total_duration'] >= ok_entry['max']
    assert 'reset' not in data

    # reset: returns the totals so far (now including the read above) ...
    expected['/stats/']['200'] += 1
    start_before = data['start_time_utc']
    data = get_json(cl.post('/stats/reset'))
    assert data['reset'] is True
    assert counts_of(data) == expected
    assert data['start_time_utc'] == start_before
    # ... and counting starts again from zero; only the reset request itself,
    # which finished after the reset, is on the books
    data = get_json(cl.get('/stats/'))
    assert counts_of(data) == {'/stats/reset': {'200': 1}}
    assert parse_iso(data['start_time_utc']) >= parse_iso(start_before)
    assert cl.get('/ok').status_code == 200
    data = get_json(cl.get('/stats/'))
    assert counts_of(data) == {'/stats/reset': {'200': 1}, '/stats/': {'200': 1}, '/ok': {'200': 1}}
    # GET on the POST-only reset route does not reset anything
    assert cl.get('/stats/reset').status_code == 405
    data = get_json(cl.get('/stats/'))
    assert counts_of(data) == {'/stats/reset': {'200': 1}, '/stats/': {'200': 2}, '/ok': {'200': 1},
                               '/<_ignored*>': {'405': 1}}

    # the stats application without the middleware: 501, for reads and resets
    bare = Application([('/ok', ep_ok), ('/stats', create_stats_app())])
    bcl = bare.get_local_client()
    assert bcl.get('/ok').status_code == 200
    assert bcl.get('/stats/').status_code == 501
    assert bcl.post('/stats/reset').status_code == 501


def main():
    check_direct_report()
    check_http()
    print('PASS')
    return 0


if __name__ == '__main__':
    sys.exit(main())
