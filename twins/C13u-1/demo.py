# -*- coding: utf-8 -*-
"""demo1: Application.set_error_handler and the error handler's WSGI wrapper.

Checks, through wsgiref.validate and a recording start_response, that an
Application stays a conforming WSGI callable whatever error handler is
installed, that the error handler's wsgi_wrapper wraps _dispatch_wsgi in the
documented position (inside the middleware wrappers, applied once per
set_error_handler call, in call order), and that a rejected wrapper leaves
the application untouched.
"""
import io
import sys
import warnings
from wsgiref.validate import validator

warnings.simplefilter('ignore')

from clastic import Application, Response, render_basic
from clastic.application import RerouteWSGI
from clastic.errors import (ErrorHandler, ContextualErrorHandler,
                            REPLErrorHandler, BadRequest)
from clastic.middleware import Middleware


def make_environ(path='/', method='GET', query='', body=b'', headers=None):
    env = {'REQUEST_METHOD': method,
           'SCRIPT_NAME': '',
           'PATH_INFO': path,
           'QUERY_STRING': query,
           'SERVER_NAME': 'localhost',
           'SERVER_PORT': '80',
           'SERVER_PROTOCOL': 'HTTP/1.1',
           'HTTP_HOST': 'localhost',
           'wsgi.version': (1, 0),
           'wsgi.url_scheme': 'http',
           'wsgi.input': io.BytesIO(body),
           'wsgi.errors': io.StringIO(),
           'wsgi.multithread': False,
           'wsgi.multiprocess': False,
           'wsgi.run_once': False}
    if body or method == 'POST':
        env['CONTENT_LENGTH'] = str(len(body))
        env['CONTENT_TYPE'] = 'text/plain'
    env.update(headers or {})
    return env


def call_wsgi(app, **kw):
    """Run one request under the stdlib validator; return (status, headers,
    body, start_response call count)."""
    environ = make_environ(**kw)
    calls = []
    chunks = []

    def start_response(status, headers, exc_info=None):
        assert not chunks, 'start_response after body bytes'
        calls.append((status, list(headers)))
        return chunks.append

    app_iter = validator(app)(environ, start_response)
    try:
        for chunk in app_iter:
            assert calls, 'body bytes before start_response'
            assert isinstance(chunk, bytes)
            chunks.append(chunk)
    finally:
        app_iter.close()
    assert len(calls) == 1, 'start_response called %r times' % len(calls)
    status, headers = calls[0]
    assert isinstance(status, str) and status[:3].isdigit() and status[3] == ' '
    for k, v in headers:
        assert type(k) is str and type(v) is str, (k, v)
    body = b''.join(chunks)
    if kw.get('method') == 'HEAD':
        assert body == b'', body
    return status, headers, body, len(calls)


class Tagger(object):
    "WSGI wrapper factory appending its tag to the X-Trace header (outermost last)"
    def __init__(self, tag, log=None):
        self.tag = tag
        self.log = log

    def __call__(self, wsgi_app):
        tag, log = self.tag, self.log

        def tagged(environ, start_response):
            if log is not None:
                log.append(tag)

            def sr(status, headers, exc_info=None):
                headers = list(headers)
                prev = [v for k, v in headers if k == 'X-Trace']
                headers = [(k, v) for k, v in headers if k != 'X-Trace']
                headers.append(('X-Trace', ','.join(prev + [tag])))
                if exc_info:
                    return start_response(status, headers, exc_info)
                return start_response(status, headers)
            return wsgi_app(environ, sr)
        return tagged


def trace_of(headers):
    vals = [v for k, v in headers if k == 'X-Trace']
    return vals[0] if vals else None


def ok(request):
    return Response('fine', mimetype='text/plain')


def boom(request):
    raise ValueError('boom')


def bad(request):
    raise BadRequest('nope')


def ctx(request):
    return {'a': 1}


def make_routes():
    return [('/', ok), ('/boom', boom), ('/bad', bad),
            ('/ctx', ctx, render_basic)]


def check_conforming(app, debug=False):
    for method in ('GET', 'HEAD', 'POST', 'OPTIONS'):
        st, hd, body, n = call_wsgi(app, path='/', method=method)
        assert st.startswith('200'), st
        st, hd, body, n = call_wsgi(app, path='/boom', method=method)
        assert st.startswith('500'), st
        st, hd, body, n = call_wsgi(app, path='/bad', method=method)
        assert st.startswith('400'), st
        st, hd, body, n = call_wsgi(app, path='/missing', method=method)
        assert st.startswith('404'), st
        st, hd, body, n = call_wsgi(app, path='/ctx', method=method)
        assert st.startswith('200'), st
    st, hd, body, n = call_wsgi(app, path='/boom',
                                headers={'HTTP_ACCEPT': 'text/html'})
    assert st.startswith('500')
    if debug:
        assert b'ValueError' in body and b'boom' in body
    st, hd, body, n = call_wsgi(app, path='/boom',
                                headers={'HTTP_ACCEPT': 'application/json'})
    assert st.startswith('500')


def main():
    # 1. defaults: type chosen from the debug flag, all truthiness variants
    for debug, expected in [(None, ErrorHandler), (False, ErrorHandler),
                            (0, ErrorHandler), ('', ErrorHandler),
                            (True, ContextualErrorHandler),
                            (1, ContextualErrorHandler),
                            ('yes', ContextualErrorHandler)]:
        app = Application(make_routes(), debug=debug)
        assert type(app.error_handler) is expected, (debug, app.error_handler)
        check_conforming(app, debug=bool(debug))
        # reset to default gives a fresh instance of the same type
        prev = app.error_handler
        app.set_error_handler()
        assert type(app.error_handler) is expected
        assert app.error_handler is not prev
        app.set_error_handler(None)
        assert type(app.error_handler) is expected
        check_conforming(app, debug=bool(debug))

    # subclass-level default types are honoured, and instantiated w/o args
    made = []

    class MyEH(ErrorHandler):
        def __init__(self, *a, **kw):
            made.append((a, kw))
            super(MyEH, self).__init__(*a, **kw)

    class MyDebugEH(ContextualErrorHandler):
        pass

    class MyApp(Application):
        default_error_handler_type = MyEH
        default_debug_error_handler_type = MyDebugEH

    assert type(MyApp(make_routes()).error_handler) is MyEH
    assert made == [((), {})], made
    assert type(MyApp(make_routes(), debug=True).error_handler) is MyDebugEH
    assert made == [((), {})], made  # non-debug type not touched in debug mode

    # 2. explicit handlers are kept by identity, wrapper None is a no-op
    eh = ErrorHandler()
    app = Application(make_routes(), error_handler=eh)
    assert app.error_handler is eh
    assert trace_of(call_wsgi(app, path='/')[1]) is None
    check_conforming(app)

    # 3. an error handler's wsgi_wrapper sits inside the middleware wrappers
    log = []

    class WrapEH(ErrorHandler):
        wsgi_wrapper = Tagger('eh', log)

    class MWA(Middleware):
        wsgi_wrapper = Tagger('A', log)

    class MWB(Middleware):
        wsgi_wrapper = Tagger('B', log)

    app = Application(make_routes(), middlewares=[MWA(), MWB()],
                      error_handler=WrapEH())
    st, hd, body, n = call_wsgi(app, path='/')
    assert log == ['A', 'B', 'eh'], log   # call order: outermost first
    assert trace_of(hd) == 'eh,B,A', hd    # header order: innermost first
    check_conforming(app)

    # 4. set_error_handler after construction wraps what is there (outermost
    #    now), each call adds exactly one layer, in call order
    del log[:]

    class WrapEH2(ErrorHandler):
        wsgi_wrapper = Tagger('eh2', log)

    eh2 = WrapEH2()
    app.set_error_handler(eh2)
    assert app.error_handler is eh2
    st, hd, body, n = call_wsgi(app, path='/boom')
    assert st.startswith('500')
    assert log == ['eh2', 'A', 'B', 'eh'], log
    assert trace_of(hd) == 'eh,B,A,eh2', hd
    app.set_error_handler()  # default: no wrapper -> no new layer
    assert type(app.error_handler) is ErrorHandler
    st, hd, body, n = call_wsgi(app, path='/')
    assert trace_of(hd) == 'eh,B,A,eh2', hd
    check_conforming(app)

    # 5. rejected wrappers: TypeError with the documented message and the
    #    application keeps its previous handler and WSGI stack
    class NotCallableEH(ErrorHandler):
        wsgi_wrapper = "this should be a callable but isn't"

    class BadSigEH(ErrorHandler):
        wsgi_wrapper = staticmethod(lambda app: lambda environ, nope: 'lol')

    class NonCallableResultEH(ErrorHandler):
        wsgi_wrapper = staticmethod(lambda app: 42)

    for eh_type, needle in [(NotCallableEH, 'expected error_handler.wsgi_wrapper to be callable'),
                            (BadSigEH, 'expected valid WSGI callable from error_handler'),
                            (NonCallableResultEH, 'expected valid WSGI callable from error_handler')]:
        before_eh = app.error_handler
        before_wsgi = app._dispatch_wsgi
        try:
            app.set_error_handler(eh_type())
        except TypeError as te:
            assert needle in str(te), str(te)
        else:
            raise AssertionError('expected TypeError for %r' % eh_type)
        assert app.error_handler is before_eh
        assert app._dispatch_wsgi is before_wsgi
        try:
            Application(make_routes(), error_handler=eh_type())
        except TypeError as te:
            assert needle in str(te), str(te)
        else:
            raise AssertionError('expected TypeError for %r' % eh_type)
    st, hd, body, n = call_wsgi(app, path='/')
    assert trace_of(hd) == 'eh,B,A,eh2', hd

    # an error handler whose render_error has unsatisfiable arguments is
    # refused before any wrapping happens
    class NeedyEH(ErrorHandler):
        wsgi_wrapper = Tagger('needy')

        def render_error(self, request, _error, not_a_resource):
            return _error

    before_wsgi = app._dispatch_wsgi
    try:
        app.set_error_handler(NeedyEH())
    except NameError:
        pass
    else:
        raise AssertionError('expected NameError')
    assert app._dispatch_wsgi is before_wsgi
    assert type(app.error_handler) is ErrorHandler

    # 6. the wrapper receives the current WSGI callable itself as its argument
    seen = []

    def recording_wrapper(inner):
        seen.append(inner)
        return Tagger('rec')(inner)

    class RecEH(ErrorHandler):
        wsgi_wrapper = staticmethod(recording_wrapper)

    app2 = Application(make_routes())
    inner_before = app2._dispatch_wsgi
    app2.set_error_handler(RecEH())
    assert len(seen) == 1
    assert seen[0] == inner_before  # bound method equality
    assert seen[0].__self__ is app2
    inner_before2 = app2._dispatch_wsgi
    app2.set_error_handler(RecEH())
    assert len(seen) == 2 and seen[1] is inner_before2
    st, hd, body, n = call_wsgi(app2, path='/')
    assert trace_of(hd) == 'rec,rec', hd

    # 7. the REPL handler (wraps in werkzeug's debugger) still conforms and
    #    reroutes still see the wrapped stack
    def target(environ, start_response):
        start_response('202 Accepted', [('Content-Type', 'text/plain'),
                                        ('X-Path', environ['PATH_INFO'])])
        return [b'rerouted']

    app3 = Application([('/', ok), ('/rr', RerouteWSGI(target))],
                       error_handler=WrapEH())
    st, hd, body, n = call_wsgi(app3, path='/rr')
    assert st == '202 Accepted' and body == b'rerouted'
    assert ('X-Path', '/rr') in hd and trace_of(hd) == 'eh'
    app4 = Application([('/', ok)], error_handler=REPLErrorHandler())
    st, hd, body, n = call_wsgi(app4, path='/')
    assert st.startswith('200') and body == b'fine'

    print('PASS')


if __name__ == '__main__':
    main()
    sys.exit(0)
