# -*- coding: utf-8 -*-
"""demo3: property C06 with the focus on the error objects and on how the
routing table is built: MethodNotAllowed (Allow header = sorted union),
HTTPException.is_breaking / source_route, NotFound, and Application.add(entry,
index) -- routes end up exactly where list.insert puts them and are never
reordered afterwards.
"""
import random
import sys

from werkzeug.wrappers import Response

from clastic import Application, Route, SubApplication
from clastic.errors import (HTTPException, BadRequest, Forbidden, NotFound,
                            MethodNotAllowed, InternalServerError)


def ok(marker):
    def endpoint():
        return Response(marker, headers={'X-Route': marker})
    return endpoint


def nb_forbidden(marker):
    def endpoint():
        raise Forbidden(marker, headers={'X-Route': marker}, is_breaking=False)
    return endpoint


BASE_DETAIL = "The method used is not allowed for the requested URL."


def method_not_allowed_unit():
    for empty in (None, [], (), set(), frozenset(), '', iter([])):
        mna = MethodNotAllowed(empty)
        assert mna.allowed_methods == set() and type(mna.allowed_methods) is set
        assert mna.detail == BASE_DETAIL
        assert 'Allow' not in mna.headers
        assert mna.code == 405 and mna.status_code == 405
        assert mna.get_data() == ('405 - Method not allowed\n\n' + BASE_DETAIL).encode('ascii')
    mna = MethodNotAllowed()
    assert mna.allowed_methods == set() and 'Allow' not in mna.headers

    cases = [({'GET', 'HEAD'}, ['GET', 'HEAD']),
             (['POST', 'GET', 'POST'], ['GET', 'POST']),
             (('put',), ['put']),
             (frozenset(['PATCH', 'DELETE', 'CONNECT']), ['CONNECT', 'DELETE', 'PATCH']),
             ((m for m in ['TRACE', 'OPTIONS']), ['OPTIONS', 'TRACE'])]
    for given, ordered in cases:
        mna = MethodNotAllowed(allowed_methods=given)
        assert type(mna.allowed_methods) is set and mna.allowed_methods == set(ordered)
        assert mna.allowed_methods is not given
        assert mna.headers['Allow'] == ', '.join(ordered)
        assert mna.headers.getlist('Allow') == [', '.join(ordered)]
        assert mna.detail == '%s Allowed methods: %r' % (BASE_DETAIL, ordered)
        assert mna.detail.encode('ascii') in mna.get_data()
        assert mna.is_breaking is True and mna.source_route is None
        assert isinstance(mna, BadRequest) and isinstance(mna, Exception)

    # positional / keyword passthrough to HTTPException
    mna = MethodNotAllowed({'GET'}, 'custom detail', is_breaking=False,
                           headers={'X-Extra': '1'}, source_route='SR')
    assert mna.detail == 'custom detail'
    assert mna.headers['Allow'] == 'GET' and mna.headers['X-Extra'] == '1'
    assert mna.is_breaking is False and mna.source_route == 'SR'
    assert b'custom detail' in mna.get_data() and b'Allowed methods' not in mna.get_data()
    mna = MethodNotAllowed(['B', 'A'], mimetype='application/json')
    assert mna.headers['Allow'] == 'A, B'
    assert mna.headers['Content-Type'].startswith('application/json')
    assert b'"code": 405' in mna.get_data()
    # the caller's set is copied, not aliased
    src = {'GET'}
    mna = MethodNotAllowed(src)
    src.add('POST')
    assert mna.allowed_methods == {'GET'}
    # a non-string detail on a subclass is rendered with str()
    class OddMNA(MethodNotAllowed):
        detail = 405
    assert OddMNA(['X']).detail == "405 Allowed methods: ['X']"
    # unorderable members fail while the message is built, i.e. before the base init
    try:
        MethodNotAllowed([1, 'GET'])
    except TypeError:
        pass
    else:
        raise AssertionError('expected TypeError')


def http_exception_unit():
    exc = HTTPException()
    assert exc.is_breaking is True and exc.source_route is None
    assert exc.detail == HTTPException.detail and exc.code is None
    for value in (False, 0, None, ''):
        assert Forbidden(is_breaking=value).is_breaking is value
    assert NotFound(is_breaking=1).is_breaking == 1
    nf = NotFound('gone', dispatch_state='DS', request='R', application='A')
    assert nf.dispatch_state == 'DS' and nf.detail == 'gone' and nf.code == 404
    assert NotFound().dispatch_state is None
    assert nf.get_data() == b'404 - Not found\n\ngone'
    exc = Forbidden('', code=418, message='Teapot', error_type='http://x/y')
    assert exc.detail == Forbidden.detail and exc.status_code == 418
    assert exc.get_data().startswith(b'418 - Teapot\n\n')
    assert exc.get_data().endswith(b'Error type: http://x/y')
    exc = Forbidden('d', mimetype='text/html', headers=[('X-A', 'b')])
    assert exc.headers['X-A'] == 'b' and exc.headers['Content-Type'].startswith('text/html')
    assert b'<h1>Access forbidden</h1>' in exc.get_data()
    exc = Forbidden('d', mimetype='image/png')
    assert exc.headers['Content-Type'].startswith('text/plain')
    exc = Forbidden('d', content_type='text/x-custom')
    assert exc.headers['Content-Type'] == 'text/x-custom'
    ise = InternalServerError('oops', headers={'X-Route': 'z'})
    assert ise.is_breaking is True and ise.headers['X-Route'] == 'z'


def table_markers(app):
    return [br.unbound_route.endpoint.marker for br in app.routes]


def marked_route(pattern, marker, methods=None):
    endpoint = ok(marker)
    endpoint.marker = marker
    return Route(pattern, endpoint, methods=methods)


def add_index_cases():
    rng = random.Random(3606)
    for trial in range(120):
        app = Application()
        model = []
        for step in range(rng.randint(0, 6)):
            index = rng.choice([None, None, 0, 1, 2, -1, -2, -7, 3, 50])
            if rng.random() < 0.3:
                # a sub application contributes several routes at once
                n_sub = rng.randint(0, 3)
                markers = ['t%d_s%d_%d' % (trial, step, k) for k in range(n_sub)]
                sub = Application([marked_route('/a', m) for m in markers])
                entry = SubApplication('/', sub) if rng.random() < 0.5 else ('/', sub)
            else:
                markers = ['t%d_s%d' % (trial, step)]
                route = marked_route('/a', markers[0])
                entry = route if rng.random() < 0.5 else ('/a', route.endpoint)
            if index is None:
                if rng.random() < 0.5:
                    app.add(entry)
                else:
                    app.add(entry, index=None)
                model_index = len(model)
            else:
                app.add(entry, index)
                model_index = index
            for marker in markers:
                model.insert(model_index, marker)
                model_index += 1
            assert table_markers(app) == model, (trial, step, table_markers(app), model)
        # dispatch never reorders and always picks the first entry of the table
        before = list(app.routes)
        resp = app.get_local_client().get('/a')
        if model:
            assert (resp.status_code, resp.headers['X-Route']) == (200, model[0])
        else:
            assert resp.status_code == 404
        assert app.routes == before and table_markers(app) == model

    # constructor list keeps the given order
    markers = ['c%d' % i for i in range(5)]
    app = Application([marked_route('/a', m) for m in markers])
    assert table_markers(app) == markers
    # bad entries are rejected before the table is touched
    for bad in (None, 5, ('/a', 'not callable'), '/a'):
        try:
            app.add(bad, index=0)
        except TypeError as te:
            assert 'Could not create route' in str(te)
        else:
            raise AssertionError('expected TypeError for %r' % (bad,))
    assert table_markers(app) == markers
    try:
        app.add(marked_route('/a', 'late'), index='zero')
    except TypeError:
        pass
    else:
        raise AssertionError('expected TypeError for a str index')
    assert table_markers(app) == markers


def wsgi_cases():
    app = Application()
    app.add(Route('/a', ok('post'), methods=['POST']))
    app.add(Route('/a', ok('get'), methods=['get']), index=0)
    app.add(Route('/<x>', nb_forbidden('nb'), methods=['PUT', 'PATCH']), index=1)
    app.add(Route('/<x>', ok('del'), methods=['DELETE']), index=-1)
    # table: get, nb, del, post
    cl = app.get_local_client()
    expectations = [('/a', 'GET', 200, 'get', None),
                    ('/a', 'head', 200, 'get', None),
                    ('/a', 'POST', 200, 'post', None),
                    ('/a', 'delete', 200, 'del', None),
                    ('/a', 'PUT', 403, 'nb', None),
                    ('/a', 'patch', 403, 'nb', None),
                    ('/a', 'OPTIONS', 405, None, 'DELETE, GET, HEAD, PATCH, POST, PUT'),
                    ('/a', 'BREW', 405, None, 'DELETE, GET, HEAD, PATCH, POST, PUT'),
                    ('/b', 'GET', 405, None, 'DELETE, PATCH, PUT'),
                    ('/b', 'PUT', 403, 'nb', None),
                    ('/b', 'DELETE', 200, 'del', None),
                    ('/b/c', 'GET', 404, None, None),
                    ('/', 'GET', 404, None, None)]
    for path, method, status, marker, allow in expectations:
        resp = cl.open(path, method=method)
        got = (resp.status_code, resp.headers.get('X-Route'), resp.headers.get('Allow'))
        assert got == (status, marker, allow), (path, method, got)
        if status == 405:
            listing = repr(sorted(allow.split(', '))).encode('ascii')
            assert b'Allowed methods: ' + listing in resp.get_data()
    # 405 body adapts to the Accept header but keeps Allow
    resp = cl.open('/b', method='GET', headers={'Accept': 'application/json'})
    assert resp.status_code == 405 and resp.headers['Allow'] == 'DELETE, PATCH, PUT'
    assert resp.headers['Content-Type'].startswith('application/json')


def main():
    method_not_allowed_unit()
    http_exception_unit()
    add_index_cases()
    wsgi_cases()
    print('PASS')
    return 0


if __name__ == '__main__':
    sys.exit(main())
