# -*- coding: utf-8 -*-
"""demo3: the public import paths of the stats module keep working, the sample
store stays bounded / exact / quiet, and the middleware still counts every request
once -- before and after patch3 (Reservoir + fast_randint moved to a private module)."""
import os
import sys
import json
import copy
import pickle
import random
from collections import Counter

sys.path.insert(0, os.path.dirname(os.path.abspath(__file__)))

# every name that could be imported from the module before must still be importable
from clastic.middleware.stats import (fast_randint, Reservoir, Hit, RouteStatReservoir,
                                      StatsMiddleware, get_stats_dict,
                                      get_and_reset_stats_dict, create_stats_app,
                                      _get_route_stats, _get_stats_mw)
import clastic.middleware.stats as stats_mod
from clastic import Application, GET
from clastic.errors import BadRequest
from clastic.render import render_basic
from clastic.middleware import Middleware


def check_names():
    assert stats_mod.Reservoir is Reservoir and stats_mod.fast_randint is fast_randint
    assert RouteStatReservoir.__mro__[1] is Reservoir
    assert issubclass(RouteStatReservoir, Reservoir) and issubclass(StatsMiddleware, Middleware)
    assert Reservoir.__name__ == 'Reservoir' and fast_randint.__name__ == 'fast_randint'
    assert 'random.randint' in fast_randint.__doc__
    assert sorted(n for n in vars(Reservoir) if not n.startswith('_')) == \
        ['add', 'resize', 'to_list', 'total_count']
    assert isinstance(vars(Reservoir)['total_count'], property)
    # instances survive a pickle / deepcopy round trip through the public path
    res = Reservoir(cap=4, data='abc')
    for clone in (pickle.loads(pickle.dumps(res)), copy.deepcopy(res)):
        assert type(clone) is Reservoir and list(clone) == list('abc')
        assert clone.total_count == 3 and clone._cap == 4


def check_fast_randint():
    orig = random.random
    try:
        for frac, lo, hi, expected in ((0.0, 0, 9, 0), (0.999999, 0, 9, 9), (0.5, 0, 9, 5),
                                      (0.0, 3, 3, 3), (0.99, 3, 3, 3), (0.25, -4, 3, -2),
                                      (0.75, 10, 13, 13)):
            random.random = lambda: frac
            assert fast_randint(lo, hi) == expected, (frac, lo, hi, fast_randint(lo, hi))
    finally:
        random.random = orig
    random.seed(7)
    seen = Counter(fast_randint(0, 4) for _ in range(5000))
    assert sorted(seen) == [0, 1, 2, 3, 4]
    random.seed(7)
    first = [fast_randint(0, 100) for _ in range(20)]
    random.seed(7)
    assert first == [fast_randint(0, 100) for _ in range(20)]   # driven by the global generator


def check_store(seed, cap, n_ops):
    rng = random.Random(seed * 1000 + cap)
    random.seed(seed)
    res = Reservoir(cap=cap)
    added, total, cur_cap = set(), 0, cap
    for i in range(n_ops):
        op = rng.random()
        if op < 0.8:
            res.add(i)
            added.add(i)
            total += 1
        elif op < 0.93:
            cur_cap = rng.randint(1, 10)
            res.resize(cur_cap)
        contents = list(iter(res))
        assert contents == res.to_list()
        assert len(contents) <= cur_cap
        assert res.total_count == total
        assert set(contents) <= added and len(set(contents)) == len(contents)
        assert repr(res) == ('<Reservoir cap=%r, data_count=%r, total_count=%r>'
                             % (cur_cap, len(contents), total))


def check_replacement():
    orig = random.random
    try:
        res = Reservoir(cap=3, data=['a', 'b', 'c'])
        random.random = lambda: 0.0        # idx 0
        res.add('d')
        assert list(res) == ['d', 'b', 'c'] and res.total_count == 4
        random.random = lambda: 0.5        # int(0.5 * 6) == 3 == cap: dropped
        res.add('e')
        assert list(res) == ['d', 'b', 'c'] and res.total_count == 5
        random.random = lambda: 0.34       # int(0.34 * 7) == 2
        res.add('f')
        assert list(res) == ['d', 'b', 'f'] and res.total_count == 6
        random.random = lambda: 0.999      # far past the cap: dropped
        res.add('g')
        assert list(res) == ['d', 'b', 'f'] and res.total_count == 7
        res.resize(5)                      # room again: appended without a draw

        def no_draw():
            raise SystemExit('no random draw expected below capacity')
        random.random = no_draw
        res.add('h')
        res.add('i')
        assert list(res) == ['d', 'b', 'f', 'h', 'i'] and res.total_count == 9
        res.resize(2)
        assert list(res) == ['d', 'b'] and res.total_count == 9
    finally:
        random.random = orig

    # cap decoding, aliasing of the container, the constructor's assertion
    assert Reservoir()._cap == 16384 and Reservoir(cap=False)._cap == float('inf')
    assert Reservoir(cap=12.9)._cap == 12
    backing = ['x']
    res = Reservoir(cap=3, container=backing, data=iter('yz'))
    assert res._data is backing and backing == ['x', 'y', 'z'] and res.total_count == 3
    assert list(Reservoir(cap=3, data=None)) == [] and list(Reservoir(cap=3, data=0)) == []
    for bad in (dict(cap=1, container=['x']), dict(cap=0)):
        try:
            Reservoir(**bad)
        except AssertionError as ae:
            assert str(ae).startswith('initial count ') and 'must be lower than cap' in str(ae)
        else:
            raise SystemExit('expected AssertionError')
    for bad_cap in (None, 'many'):
        try:
            Reservoir(cap=bad_cap)
        except (TypeError, ValueError):
            pass
        else:
            raise SystemExit('expected TypeError / ValueError')


def boom():
    raise RuntimeError('boom')


def bad():
    raise BadRequest()


def check_middleware(seed):
    rng = random.Random(seed)
    mw = StatsMiddleware()
    app = Application([GET('/', lambda: {'a': 1}, render_basic),
                       ('/boom', boom), ('/bad', bad),
                       ('/stats', create_stats_app())], middlewares=[mw])
    assert _get_stats_mw(app) is mw
    client = app.get_local_client()
    outcomes = {('GET', '/'): ('/', '200'), ('GET', '/boom'): ('/boom', "'RuntimeError'"),
                ('GET', '/bad'): ('/bad', '400'), ('GET', '/nope'): ('/<_ignored*>', '404'),
                ('POST', '/'): ('/<_ignored*>', '405')}
    model = Counter()
    for step in range(80):
        op = rng.random()
        if op < 0.8:
            method, url = rng.choice(sorted(outcomes))
            try:
                client.open(url, method=method)
            except RuntimeError:
                pass
            model[outcomes[method, url]] += 1
        elif op < 0.92:
            report = json.loads(client.get('/stats/').get_data(True))
            got = Counter({(p, s): d['count'] for p, by in report['route_stats'].items()
                           for s, d in by.items()})
            assert got == model, (got, model)
            model['/stats/', '200'] += 1
        else:
            report = json.loads(client.post('/stats/reset').get_data(True))
            got = Counter({(p, s): d['count'] for p, by in report['route_stats'].items()
                           for s, d in by.items()})
            assert got == model and report['reset'] is True
            model = Counter({('/stats/reset', '200'): 1})
        live = Counter()
        for route, by_status in mw.route_hits.items():
            for status, reservoir in by_status.items():
                assert type(reservoir) is RouteStatReservoir and isinstance(reservoir, Reservoir)
                live[route.pattern, status] += reservoir.total_count
                assert len(list(reservoir)) == min(reservoir.total_count, 16384)
        assert live == model, (live, model)

    # a small per-route store: the count stays exact although the samples are capped
    mw.reset()
    for _ in range(3):
        client.get('/')
    (by_status,) = [by for rt, by in mw.route_hits.items() if rt.pattern == '/']
    by_status['200'].resize(2)
    for _ in range(40):
        client.get('/')
    store = by_status['200']
    assert store.total_count == 43 and len(list(store)) == 2
    assert all(isinstance(h, Hit) and h.status_code == '200' for h in store)
    desc = get_stats_dict(app)['route_stats']['/']['200']
    assert desc['count'] == 43
    assert _get_route_stats(by_status)['200']['count'] == 43
    assert get_and_reset_stats_dict(app)['route_stats']['/']['200']['count'] == 43
    assert get_stats_dict(app)['route_stats'] == {}


def main():
    check_names()
    check_fast_randint()
    for seed in range(40):
        for cap in (1, 2, 4, 7):
            check_store(seed, cap, 120)
    check_replacement()
    for seed in range(10):
        check_middleware(seed)
    print('PASS')


if __name__ == '__main__':
    main()
