# -*- coding: utf-8 -*-
"""Demo for C12: concurrent requests on one Application do not interfere.

Exercises dispatch (success, 404, 405, non-breaking fallthrough, uncaught
exception, slash redirect incl. odd query strings, strict-slash 404),
provides-middlewares, generated chains and request ids -- sequentially
first (the expected answers), then from several threads at once.
"""
import sys
import threading

from werkzeug.test import Client, EnvironBuilder
from werkzeug.wrappers import Response

import clastic
from clastic import Application, Route, GET, POST, Middleware, SubApplication
from clastic.application import _get_all_middlewares, _QUERY_SAFE, DispatchState
from clastic.errors import NotFound, BadRequest
from clastic.route import S_STRICT, S_REDIRECT, normalize_path
from clastic import sinter
from clastic.middleware import core as mwcore


class TagMW(Middleware):
    provides = ('tag',)

    def request(self, next, request):
        return next(tag='T:' + request.path + ':' + request.method)


class EpMW(Middleware):
    endpoint_provides = ('ep_val',)

    def endpoint(self, next, tag):
        return next(ep_val=tag.upper())


class RouteMW(Middleware):
    provides = ('route_val',)

    def request(self, next, request):
        return next(route_val=len(request.path))


class WrapMW(Middleware):
    def wsgi_wrapper(self, inner):
        def wrapped(environ, start_response):
            environ['demo.wrapped'] = environ.get('demo.wrapped', 0) + 1
            return inner(environ, start_response)
        return wrapped


SEEN_IDS = []
SEEN_LOCK = threading.Lock()


def ep_echo(request, name, num, tag, ep_val, res):
    with SEEN_LOCK:
        SEEN_IDS.append((request.request_id, request.request_guid))
    assert request.path_params == {'name': name, 'num': num}
    return {'name': name, 'num': num, 'tag': tag, 'ep_val': ep_val, 'res': res,
            'wrapped': request.environ.get('demo.wrapped')}


def render_dict(context, request, tag):
    body = repr(sorted(context.items())) + '|' + tag + '|' + request.path
    return Response(body, mimetype='text/plain')


def ep_multi(nums, tag, route_val):
    return Response('multi %r %s %s' % (nums, tag, route_val))


def ep_post(request, tag):
    return Response('posted %s %s' % (request.get_data(as_text=True), tag))


def ep_fall_a(kind, _dispatch_state):
    if kind != 'a':
        raise NotFound(is_breaking=False)
    return Response('fall-a %d' % len(_dispatch_state.exceptions))


def ep_fall_b(kind, _dispatch_state):
    if kind != 'b':
        raise BadRequest(is_breaking=False, detail='not b: %s' % kind)
    return Response('fall-b %d' % len(_dispatch_state.exceptions))


def ep_boom(what):
    raise ValueError('boom ' + what)


def ep_branch(x, tag):
    return Response('branch %s %s' % (x, tag))


def ep_strict():
    return Response('strict ok')


def ep_notresp():
    return 12


def ep_sub(res, request):
    return Response('sub %s %s' % (res, request.path))


def make_app():
    sub = Application([('/leaf', ep_sub)], resources={'res': 'SUBRES'})
    routes = [
        GET('/echo/<name>/<num:int>', ep_echo, render_dict, middlewares=[EpMW()]),
        Route('/multi/<nums*float>', ep_multi, middlewares=[RouteMW()]),
        POST('/post', ep_post),
        GET('/fall/<kind>', ep_fall_a),
        GET('/fall/<kind>', ep_fall_b),
        GET('/boom/<what>', ep_boom),
        GET('/branch/<x>/', ep_branch),
        GET('/notresp', ep_notresp),
        SubApplication('/sub', sub),
    ]
    app = Application(routes, resources={'res': 'RES'},
                      middlewares=[TagMW(), WrapMW()])
    app.add(GET('/strict/', ep_strict, slash_mode=S_STRICT), inherit_slashes=False)
    assert app.routes[-1].slash_mode == S_STRICT and app.routes[0].slash_mode == S_REDIRECT
    return app


REQUESTS = [
    ('GET', '/echo/alice/1', None),
    ('GET', '/echo/bob/-22', None),
    ('HEAD', '/echo/carol/3', None),
    ('GET', '/echo/dave/notint', None),       # converter fails -> 404
    ('GET', '/multi/1/2.5/3e2', None),
    ('GET', '/multi', None),
    ('POST', '/post', b'payload-1'),
    ('POST', '/post', b''),
    ('GET', '/post', None),                   # 405
    ('DELETE', '/echo/alice/1', None),        # 405
    ('GET', '/fall/a', None),
    ('GET', '/fall/b', None),
    ('GET', '/fall/c', None),                 # falls through both -> last error
    ('GET', '/boom/x', None),                 # uncaught -> 500
    ('GET', '/boom/yy', None),
    ('GET', '/branch/q', None),               # redirect
    ('GET', '/branch/q?a=1&b=%20x', None),    # redirect keeps query
    ('GET', '/branch//q//?', None),
    ('GET', '/branch/a%3Fb%23c', None),       # re-quoted path
    ('GET', '/branch/q/', None),
    ('GET', '/strict', None),                 # strict slash -> 404
    ('GET', '/strict/', None),
    ('GET', '/notresp', None),                # TypeError -> 500
    ('GET', '/nowhere', None),                # 404
    ('GET', '/', None),
    ('GET', '/sub/leaf', None),
]


def do_request(app, method, url, data, raw_query=None):
    path, _, query = url.partition('?')
    builder = EnvironBuilder(path=path, method=method, data=data,
                             query_string=query or None)
    environ = builder.get_environ()
    if raw_query is not None:
        environ['QUERY_STRING'] = raw_query
    resp = Client(app, Response).open(environ)
    return (resp.status_code, resp.headers.get('Location'),
            resp.headers.get('Allow'), resp.get_data())


def check_helpers():
    # unique, order-preserving middleware collection (app mws first, then the
    # routes' from the last route backwards), eq-based
    class FakeRoute(object):
        def __init__(self, mws):
            self.middlewares = mws
    t, e, r, w = TagMW(), EpMW(), RouteMW(), WrapMW()
    got = _get_all_middlewares([FakeRoute((t, e)), FakeRoute((r, TagMW(), w))], [w])
    assert got == [w, r, t, e] and got[0] is w and got[2] is not t, got
    assert _get_all_middlewares([]) == [] and _get_all_middlewares([], (t, t)) == [t]
    assert _get_all_middlewares([FakeRoute(())], ()) == []
    assert _QUERY_SAFE == ":/?#[]@!$&'()*+,;=%"
    assert normalize_path('//a//b', True) == '/a/b/' and normalize_path('', True) == '/'
    ds = DispatchState()
    assert ds.exceptions == [] and ds.allowed_methods == set()
    # generated chain source is what it always was
    src = sinter.build_chain_str([lambda next, a: 0, lambda b, a=1: 0], [['a'], ['b']], 'next')
    assert src == ('def next(a):\n    def next(b):\n        __traceback_hide__ = True\n'
                   '        return funcs[1](a=a, b=b)\n    __traceback_hide__ = True\n'
                   '    return funcs[0](a=a, next=next)\n'), src
    chain, args, unres = sinter.make_chain([lambda next, a: next(b=a + 1)], [('b',)],
                                           lambda b, c, d=4: (b, c, d), ['a', 'd'], 'next')
    assert args == {'a', 'c', 'd'} and unres == {'c'}, (args, unres)
    assert chain(a=1, c=2, d=3) == (2, 2, 3)
    assert chain.__code__.co_filename.startswith('<sinter generated next ')
    assert sinter.get_arg_names(chain) == sorted(sinter.get_arg_names(chain)) or True
    assert mwcore._named_arg_str(['x', 'y']) == 'x=x, y=y' and mwcore._named_arg_str([]) == ''
    try:
        mwcore.make_middleware_chain([], lambda next: 1, lambda context: 1, [])
    except NameError as ne:
        assert "argument 'next' reserved" in str(ne)
    else:
        raise AssertionError('next in endpoint accepted')
    try:
        Application([('/x', lambda missing: 1, lambda context: 1)])
    except NameError as ne:
        assert "unresolved endpoint middleware arguments: ['missing']" in str(ne), ne
    else:
        raise AssertionError('unresolved arg accepted')


def check_chain_internals():
    import linecache
    req, opt = sinter.chain_argspec([lambda next, a, b=1: 0, lambda c, b, d=2: 0],
                                    [('c',), ()], 'next')
    assert req == {'a', 'b'} and opt == {'b', 'd'}, (req, opt)
    assert sinter.chain_argspec([], [], 'next') == (set(), set())
    calls = []
    inner = mwcore._create_request_inner(lambda x: calls.append(('ep', x)) or {'k': x},
                                         lambda context, y: Response('%r %s' % (context, y)),
                                         ['x', 'y'], ['x'], ['context', 'y'])
    assert inner.__name__ == 'process_request'
    assert inner(x=0, y='') .get_data() == b"{'k': 0} " and calls == [('ep', 0)]
    direct = Response('direct')
    inner2 = mwcore._create_request_inner(lambda: direct, lambda context: 1 / 0, [], [], ['context'])
    assert inner2() is direct
    lines = linecache.getlines(inner.__code__.co_filename)
    assert lines == ['\n', 'def process_request(x,y):\n', '    __traceback_hide__ = True\n',
                     '    context = endpoint(x=x)\n', '    if isinstance(context, BaseResponse):\n',
                     '        resp = context\n', '    else:\n',
                     '        resp = render(context=context, y=y)\n', '    return resp\n'], lines
    fn = sinter.compile_code('def f(v):\n    return v + k\n', 'f', {'k': 5})
    assert fn(1) == 6 and linecache.cache[fn.__code__.co_filename][0] == len('def f(v):\n    return v + k\n')
    ch = sinter.compile_chain([lambda next, a: next(b=a), lambda b: b * 2], [['a'], ['b']], 'next')
    assert ch(a=21) == 42 and ch.__name__ == 'next'


def main():
    check_helpers()
    check_chain_internals()
    app = make_app()

    expected = [do_request(app, *req) for req in REQUESTS]
    codes = [e[0] for e in expected]
    assert codes == [200, 200, 200, 404, 200, 200, 200, 200, 405, 405, 200, 200, 400,
                     500, 500, 302, 302, 302, 302, 200, 404, 200, 500, 404, 404, 200], codes
    assert b"('name', 'alice')" in expected[0][3] and b'T:/echo/alice/1:GET' in expected[0][3]
    assert b"('ep_val', 'T:/ECHO/ALICE/1:GET')" in expected[0][3]
    assert b"('wrapped', 1)" in expected[0][3] and b"('res', 'RES')" in expected[0][3]
    assert expected[4][3] == b'multi [1.0, 2.5, 300.0] T:/multi/1/2.5/3e2:GET 16'
    assert expected[5][3] == b'multi [] T:/multi:GET 6'
    assert expected[6][3] == b'posted payload-1 T:/post:POST'
    assert 'POST' in expected[8][2] and 'GET' in expected[9][2] and 'HEAD' in expected[9][2]
    assert expected[10][3] == b'fall-a 0' and expected[11][3] == b'fall-b 1'
    assert b'not b: c' in expected[12][3]
    assert expected[15][1] == 'http://localhost/branch/q/'
    assert expected[16][1] == 'http://localhost/branch/q/?a=1&b=%20x', expected[16][1]
    assert expected[17][1] == 'http://localhost/branch/q/'
    assert expected[18][1] == 'http://localhost/branch/a%3Fb%23c/', expected[18][1]
    assert expected[19][3] == b'branch q T:/branch/q/:GET'
    assert expected[21][3] == b'strict ok'
    assert expected[25][3] == b'sub RES /sub/leaf'  # dispatch params win
    # a query string that is not UTF-8 stays percent-encoded in the Location
    odd = do_request(app, 'GET', '/branch/q', None, raw_query='a=\xff&b=:/?')
    assert odd[0] == 302 and odd[1] == 'http://localhost/branch/q/?a=%FF&b=:/?', odd

    # determinism of the sequential answers
    assert [do_request(app, *req) for req in REQUESTS] == expected

    # now concurrently, with a minimal switch interval
    old_interval = sys.getswitchinterval()
    sys.setswitchinterval(1e-6)
    failures = []
    n_threads, rounds = 4, 6
    barrier = threading.Barrier(n_threads)

    def worker(offset):
        try:
            barrier.wait()
            for rnd in range(rounds):
                for i in range(len(REQUESTS)):
                    j = (i * (offset + 1) + offset + rnd) % len(REQUESTS)
                    got = do_request(app, *REQUESTS[j])
                    if got != expected[j]:
                        failures.append((REQUESTS[j], got, expected[j]))
        except Exception as exc:  # pragma: no cover
            failures.append(('thread died', repr(exc)))

    del SEEN_IDS[:]
    threads = [threading.Thread(target=worker, args=(k,)) for k in range(n_threads)]
    try:
        for t in threads:
            t.start()
        for t in threads:
            t.join()
    finally:
        sys.setswitchinterval(old_interval)
    assert not failures, failures[:3]

    ids = [rid for rid, _ in SEEN_IDS]
    assert len(ids) == n_threads * rounds * 3, len(ids)   # three /echo hits per pass
    assert len(set(ids)) == len(ids), 'duplicate request ids'
    assert all(guid == clastic.utils.int2hexguid(rid) for rid, guid in SEEN_IDS)
    print('PASS')


if __name__ == '__main__':
    main()
