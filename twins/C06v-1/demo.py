# -*- coding: utf-8 -*-
"""demo1: dispatch property C06 (first match in order, methods, 404/405,
non-breaking fallthrough), with a focus on the method normalisation done by
Route.__init__ (upper-casing, unknown methods, GET implies HEAD).

Prints PASS and exits 0 when every assertion holds.
"""
import itertools
import random
import sys
import warnings

warnings.simplefilter('ignore')

from werkzeug.test import create_environ, run_wsgi_app

from clastic import Application, Route, Response
from clastic.route import InvalidMethod, HTTP_METHODS
from clastic.errors import (BadRequest, Forbidden, NotFound, Gone,
                            InternalServerError)

# ---------------------------------------------------------------- catalogue

PATHS = ['/', '/a', '/b', '/a/b', '/c/d', '/a/']

# pattern -> request paths (of PATHS) it matches
PATTERNS = {
    '/a': {'/a', '/a/'},
    '/b': {'/b'},
    '/a/b': {'/a/b'},
    '/<name>': {'/a', '/b', '/a/'},
    '/<parts*>': {'/', '/a', '/b', '/a/b', '/c/d', '/a/'},
    '/a/<sub?>': {'/a', '/a/b', '/a/'},
}

METHOD_SETS = [None, ['GET'], ['post'], ['HEAD'], ['PUT', 'delete'],
               ('get', 'POST')]

REQ_METHODS = ['GET', 'HEAD', 'POST', 'PUT', 'DELETE', 'get', 'post',
               'FROB', 'OPTIONS']

BEHAVIOURS = ['answer', 'raise400', 'return410', 'raise500',
              'raise403nb', 'return404nb', 'raise404nb', 'uncaught',
              'notresponse']


def make_endpoint(kind, marker):
    hdr = {'X-Marker': marker}

    def endpoint():
        if kind == 'answer':
            return Response(marker, headers=hdr)
        if kind == 'raise400':
            raise BadRequest(marker, headers=hdr)
        if kind == 'return410':
            return Gone(marker, headers=hdr)
        if kind == 'raise500':
            raise InternalServerError(marker, headers=hdr)
        if kind == 'raise403nb':
            raise Forbidden(marker, headers=hdr, is_breaking=False)
        if kind == 'return404nb':
            return NotFound(marker, headers=hdr, is_breaking=False)
        if kind == 'raise404nb':
            raise NotFound(marker, headers=hdr, is_breaking=False)
        if kind == 'uncaught':
            raise ValueError(marker)
        if kind == 'notresponse':
            return {'marker': marker}
        raise AssertionError(kind)
    return endpoint


STATUS = {'answer': 200, 'raise400': 400, 'return410': 410, 'raise500': 500,
          'raise403nb': 403, 'return404nb': 404, 'raise404nb': 404,
          'uncaught': 500, 'notresponse': 500}
NONBREAKING = {'raise403nb', 'return404nb', 'raise404nb'}
NO_HEADER = {'uncaught', 'notresponse'}


def effective_methods(methods):
    if not methods:
        return None
    ret = set(m.upper() for m in methods)
    if 'GET' in ret:
        ret.add('HEAD')
    return ret


def expected(specs, path, method):
    """The reference model of the property: (status, marker, allow)."""
    last_nb = None
    allowed = set()
    any_path = False
    for marker, pattern, methods, kind in specs:
        if path not in PATTERNS[pattern]:
            continue
        any_path = True
        eff = effective_methods(methods)
        if eff is not None and method.upper() not in eff:
            allowed |= eff
            continue
        if kind in NONBREAKING:
            last_nb = (STATUS[kind], marker, None)
            continue
        return (STATUS[kind], None if kind in NO_HEADER else marker, None)
    if last_nb:
        return last_nb
    if allowed:
        return (405, None, ', '.join(sorted(allowed)))
    assert not any_path or not allowed
    return (404, None, None)


def call(app, path, method):
    environ = create_environ(path=path)
    environ['REQUEST_METHOD'] = method
    app_iter, status, headers = run_wsgi_app(app, environ)
    body = b''.join(app_iter).decode('utf8')
    return int(status.split()[0]), headers, body


def observe(app, path, method):
    status, headers, body = call(app, path, method)
    return status, headers.get('X-Marker'), headers.get('Allow'), body


def build_app(specs, rng, how):
    routes = [Route(pattern, make_endpoint(kind, marker), methods=methods)
              for marker, pattern, methods, kind in specs]
    if how == 'ctor':
        return Application(routes)
    if how == 'tuples':
        # only method-less specs can be given as plain tuples
        return Application([(r.pattern, r.endpoint) if r.methods is None else r
                            for r in routes])
    # 'add': insert in a random order at the index giving the final order
    app = Application()
    order = list(range(len(routes)))
    rng.shuffle(order)
    placed = []
    for i in order:
        index = len([p for p in placed if p < i])
        if index == len(placed) and rng.random() < 0.5:
            app.add(routes[i])
        else:
            app.add(routes[i], index)
        placed.append(i)
        placed.sort()
    return app


def check_table(specs, rng, how):
    app = build_app(specs, rng, how)
    got_patterns = [r.pattern for r in app.routes]
    assert got_patterns == [s[1] for s in specs], (got_patterns, specs)
    count = 0
    for path in PATHS:
        for method in REQ_METHODS:
            exp_status, exp_marker, exp_allow = expected(specs, path, method)
            status, marker, allow, body = observe(app, path, method)
            ctx = (specs, path, method, (status, marker, allow))
            assert status == exp_status, ctx
            assert marker == exp_marker, ctx
            assert allow == exp_allow, ctx
            if method.upper() != 'HEAD':
                if exp_marker is not None:
                    assert exp_marker in body, ctx
                if status == 405:
                    assert repr(sorted(exp_allow.split(', '))) in body, ctx
            count += 1
    return count


def random_tables(seed, n_tables):
    rng = random.Random(seed)
    patterns = sorted(PATTERNS)
    total = 0
    for t in range(n_tables):
        size = rng.choice([0, 1, 2, 2, 3, 3, 4, 4])
        specs = [('M%d.%d' % (t, i), rng.choice(patterns),
                  rng.choice(METHOD_SETS), rng.choice(BEHAVIOURS))
                 for i in range(size)]
        how = rng.choice(['ctor', 'add', 'add', 'tuples'])
        total += check_table(specs, rng, how)
    return total


def handpicked_tables():
    rng = random.Random(0)
    tables = [
        [],
        # method mismatch followed by a non-breaking error
        [('r0', '/a', ['POST'], 'answer'), ('r1', '/<name>', None, 'raise403nb'),
         ('r2', '/<parts*>', ['PUT'], 'answer')],
        # two non-breaking errors: the most recent wins
        [('r0', '/a', None, 'raise403nb'), ('r1', '/<name>', None, 'return404nb')],
        [('r0', '/a', None, 'return404nb'), ('r1', '/<name>', None, 'raise403nb'),
         ('r2', '/b', None, 'answer')],
        # overlapping patterns with different methods: Allow is the union
        [('r0', '/a', ['GET'], 'answer'), ('r1', '/<name>', ['post'], 'answer'),
         ('r2', '/<parts*>', ['DELETE'], 'answer'), ('r3', '/b', ['PUT'], 'answer')],
        # HEAD only route does not admit GET
        [('r0', '/a', ['HEAD'], 'answer'), ('r1', '/a', ['GET'], 'raise400')],
        # a breaking error stops the search, an uncaught one as well
        [('r0', '/a', None, 'raise400'), ('r1', '/a', None, 'answer')],
        [('r0', '/a', None, 'uncaught'), ('r1', '/a', None, 'answer')],
        [('r0', '/a', None, 'notresponse'), ('r1', '/a', None, 'answer')],
        # non-breaking then breaking
        [('r0', '/a', None, 'raise404nb'), ('r1', '/a', None, 'return410'),
         ('r2', '/a', None, 'answer')],
        # same pattern twice: first wins
        [('r0', '/a', None, 'answer'), ('r1', '/a', None, 'answer')],
    ]
    total = 0
    for specs in tables:
        for how in ('ctor', 'add', 'add', 'add'):
            total += check_table(specs, rng, how)
    return total


# ------------------------------------------------ focus: Route method sets

def _ep():
    return Response('ok')


def check_method_normalisation():
    # falsy values are kept as they are (and admit every method)
    for falsy in (None, [], (), set(), ''):
        route = Route('/a', _ep, methods=falsy)
        assert route.methods == falsy and type(route.methods) is type(falsy)
        assert route.bind(Application()).methods == falsy
        broute = route.bind(Application())
        for m in REQ_METHODS + ['', None]:
            assert broute.match_method(m) is True
    assert Route('/a', _ep).methods is None

    cases = [
        (['GET'], {'GET', 'HEAD'}),
        (['get'], {'GET', 'HEAD'}),
        (('gEt',), {'GET', 'HEAD'}),
        (['HEAD'], {'HEAD'}),
        (['head', 'GET'], {'GET', 'HEAD'}),
        (['POST'], {'POST'}),
        (['post', 'POST', 'Post'], {'POST'}),
        ({'put', 'DELETE'}, {'PUT', 'DELETE'}),
        (frozenset(['patch']), {'PATCH'}),
        (iter(['get', 'post']), {'GET', 'HEAD', 'POST'}),
        ((m for m in ['options', 'trace', 'connect']),
         {'OPTIONS', 'TRACE', 'CONNECT'}),
        ({'get': 1}, {'GET', 'HEAD'}),
        (sorted(HTTP_METHODS), set(HTTP_METHODS)),
        ([m.lower() for m in sorted(HTTP_METHODS)], set(HTTP_METHODS)),
    ]
    for given, want in cases:
        route = Route('/a', _ep, methods=given)
        assert type(route.methods) is set, given
        assert route.methods == want, (given, route.methods)
        assert route.methods is not given
        broute = route.bind(Application())
        assert broute.methods is route.methods
        for m in sorted(HTTP_METHODS) + ['FROB']:
            for variant in (m, m.lower(), m.title()):
                assert broute.match_method(variant) is (m in want), (given, variant)
        assert broute.match_method('') is True
        assert broute.match_method(None) is True

    # the caller's collection is neither aliased nor modified
    mine = {'GET'}
    route = Route('/a', _ep, methods=mine)
    assert mine == {'GET'} and route.methods == {'GET', 'HEAD'}
    mine_list = ['get']
    Route('/a', _ep, methods=mine_list)
    assert mine_list == ['get']

    # every route has its own set
    r1, r2 = Route('/a', _ep, methods=['GET']), Route('/a', _ep, methods=['GET'])
    assert r1.methods is not r2.methods
    r1.methods.add('POST')
    assert r2.methods == {'GET', 'HEAD'}

    # unknown methods
    bad = [(['FROB'], ['FROB']), (['get', 'frob'], ['FROB']),
           ('GET', None), (['GET POST'], ['GET POST']), ([''], ['']),
           (['GET', ''], ['']), (['HEAD', 'X', 'Y'], None)]
    for given, listed in bad:
        try:
            Route('/a', _ep, methods=given)
        except InvalidMethod as im:
            assert isinstance(im, ValueError)
            msg = str(im)
            assert msg.startswith('unrecognized HTTP method(s): ['), msg
            if listed is not None:
                assert msg == 'unrecognized HTTP method(s): %r' % listed, msg
            elif given == 'GET':
                assert sorted(eval(msg.split(': ', 1)[1])) == ['E', 'G', 'T']
            else:
                assert sorted(eval(msg.split(': ', 1)[1])) == ['X', 'Y']
        else:
            raise AssertionError('no InvalidMethod for %r' % (given,))

    # non-string members fail the same way as ever
    for given, exc_type in (([None], AttributeError), ([1], AttributeError),
                            (5, TypeError)):
        try:
            Route('/a', _ep, methods=given)
        except exc_type:
            pass
        else:
            raise AssertionError('no %r for %r' % (exc_type, given))

    # unexpected keyword arguments are still reported before the methods
    try:
        Route('/a', _ep, methods=['FROB'], bogus=1)
    except TypeError as te:
        assert 'unexpected keyword args' in str(te)
    else:
        raise AssertionError('no TypeError')

    # HEAD is answered by a GET route but not by a POST route; the 405 of a
    # GET route names HEAD as well
    app = Application([Route('/a', _ep, methods=['get']),
                       Route('/b', _ep, methods=['post']),
                       Route('/c', _ep, methods=['head'])])
    assert observe(app, '/a', 'HEAD')[0] == 200
    assert observe(app, '/a', 'head')[0] == 200
    assert observe(app, '/a', 'POST')[::2][:2] == (405, 'GET, HEAD')
    assert observe(app, '/b', 'HEAD')[::2][:2] == (405, 'POST')
    assert observe(app, '/b', 'GET')[::2][:2] == (405, 'POST')
    assert observe(app, '/c', 'GET')[::2][:2] == (405, 'HEAD')
    assert observe(app, '/c', 'HEAD')[0] == 200
    assert observe(app, '/d', 'GET')[0] == 404
    return True


def main():
    n = handpicked_tables()
    n += random_tables(20260601, 260)
    assert n > 10000, n
    check_method_normalisation()
    print('checked %d requests' % n)
    print('PASS')
    return 0


if __name__ == '__main__':
    sys.exit(main())
