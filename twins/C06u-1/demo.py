# -*- coding: utf-8 -*-
"""demo1: dispatch property C06 (first match in order, methods, 404/405,
non-breaking fallthrough) + direct checks of route.normalize_path and of the
slash handling of branch routes that relies on it.

Prints PASS and exits 0 when every assertion holds.
"""
import itertools
import random
import sys
import warnings

warnings.simplefilter('ignore')

from clastic import Application, Route, Response
from clastic.errors import Forbidden, NotFound, BadRequest, InternalServerError
from clastic.route import normalize_path, S_REDIRECT, S_REWRITE, S_STRICT

PATTERNS = ['/a', '/a/<x>', '/<x>', '/a/b', '/b', '/<x>/<y>']
METHOD_SETS = [None, ['GET'], ['POST'], ['post', 'Put'], ['GET', 'DELETE'], ['HEAD']]
BEHAVIOURS = ['ok', 'raise403nb', 'ret404nb', 'raise400', 'ret500', 'boom']
PATHS = ['/a', '/a/b', '/b', '/c/d', '/', '/a/b/c']
METHODS = ['GET', 'HEAD', 'POST', 'get', 'post', 'PURGE', 'DELETE', 'PUT']


def make_endpoint(marker, behaviour):
    hdrs = {'X-Marker': marker}

    def endpoint():
        if behaviour == 'ok':
            return Response('ok ' + marker, headers=hdrs)
        if behaviour == 'raise403nb':
            raise Forbidden(detail=marker, is_breaking=False, headers=hdrs)
        if behaviour == 'ret404nb':
            return NotFound(detail=marker, is_breaking=False, headers=hdrs)
        if behaviour == 'raise400':
            raise BadRequest(detail=marker, headers=hdrs)
        if behaviour == 'ret500':
            return InternalServerError(detail=marker, headers=hdrs)
        raise ValueError('boom ' + marker)
    return endpoint


def path_matches(pattern, path):
    psegs = [s for s in pattern.split('/') if s]
    segs = [s for s in path.split('/') if s]
    if len(psegs) != len(segs):
        return False
    for p, s in zip(psegs, segs):
        if p.startswith('<'):
            continue
        if p != s:
            return False
    return True


def norm_methods(methods):
    if not methods:
        return None
    ret = set(m.upper() for m in methods)
    if 'GET' in ret:
        ret.add('HEAD')
    return ret


def oracle(table, path, method):
    """-> (status, marker or None, allow or None)"""
    exceptions = []
    allowed = set()
    for marker, (pattern, methods, behaviour) in table:
        if not path_matches(pattern, path):
            continue
        nm = norm_methods(methods)
        if nm and method.upper() not in nm:
            allowed |= nm
            continue
        if behaviour == 'ok':
            return 200, marker, None
        if behaviour == 'raise400':
            return 400, marker, None
        if behaviour == 'ret500':
            return 500, marker, None
        if behaviour == 'boom':
            return 500, None, None
        code = 403 if behaviour == 'raise403nb' else 404
        exceptions.append((code, marker))
    if exceptions:
        code, marker = exceptions[-1]
        return code, marker, None
    if allowed:
        return 405, None, ', '.join(sorted(allowed))
    return 404, None, None


def build_app(specs, rng):
    """Build by constructor list or by a random sequence of add(entry, index);
    returns (app, table) with table in effective route order."""
    entries = []
    for i, (pattern, methods, behaviour) in enumerate(specs):
        marker = 'R%d' % i
        kw = {}
        if methods is not None:
            kw['methods'] = methods
        route = Route(pattern, make_endpoint(marker, behaviour), **kw)
        entries.append((marker, (pattern, methods, behaviour), route))
    if rng.random() < 0.4:
        app = Application([e[2] for e in entries])
        table = [(e[0], e[1]) for e in entries]
    else:
        app = Application()
        table = []
        for marker, spec, route in entries:
            choice = rng.random()
            if choice < 0.4:
                app.add(route)
                table.append((marker, spec))
            else:
                idx = rng.randint(0, len(table))
                app.add(route, idx)
                table.insert(idx, (marker, spec))
    assert [r.pattern for r in app.routes] == [s[0] for _, s in table]
    return app, table


def check_table(specs, rng):
    app, table = build_app(specs, rng)
    client = app.get_local_client()
    n = 0
    for path in PATHS:
        for method in METHODS:
            resp = client.open(path=path, method=method)
            exp_status, exp_marker, exp_allow = oracle(table, path, method)
            ctx = (table, path, method, resp.status_code, dict(resp.headers))
            assert resp.status_code == exp_status, ctx
            assert resp.headers.get('X-Marker') == exp_marker, ctx
            assert resp.headers.get('Allow') == exp_allow, ctx
            if exp_marker and method.upper() != 'HEAD':
                assert exp_marker in resp.get_data(True), ctx
            if exp_status == 405 and method.upper() != 'HEAD':
                assert repr(sorted(exp_allow.split(', '))) in resp.get_data(True), ctx
            n += 1
    return n


def check_dispatch_property():
    rng = random.Random(606)
    catalogue = list(itertools.product(PATTERNS, METHOD_SETS, BEHAVIOURS))
    total = 0
    # every single-route table
    for spec in catalogue:
        total += check_table([spec], rng)
    # random tables of 2..4 routes
    for _ in range(260):
        size = rng.randint(2, 4)
        total += check_table([rng.choice(catalogue) for _ in range(size)], rng)
    # the empty table
    total += check_table([], rng)
    return total


# -- specific to refactoring 1: normalize_path and its use by dispatch --------

def ref_normalize(path, is_branch):
    segs = [x for x in path.split('/') if x]
    if not segs:
        return '/'
    segs = [''] + segs
    if is_branch:
        segs.append('')
    return '/'.join(segs)


def check_normalize_path():
    cases = ['', '/', '//', '///', 'a', '/a', 'a/', '/a/', '//a//', '/a/b', '/a/b/',
             'a/b', '/a//b///c', '/ /', '/a b/', u'/\xe9/', u'/\xe9', '/0', '/0/',
             '/a/?', '/%2F/', '/a/./b', '/../']
    for path in cases:
        for is_branch in (True, False, 1, 0, None, '', 'yes', [], [0]):
            got = normalize_path(path, is_branch)
            exp = ref_normalize(path, is_branch)
            assert got == exp, (path, is_branch, got, exp)
            assert type(got) is type(exp)
            # idempotent
            assert normalize_path(got, is_branch) == got
    for is_branch in (True, False):
        assert normalize_path('', is_branch) == '/'
        assert normalize_path('////', is_branch) == '/'
    assert normalize_path('/a//b', True) == '/a/b/'
    assert normalize_path('/a//b/', False) == '/a/b'
    # non-str input keeps failing the same way
    for bad in (None, 5):
        try:
            normalize_path(bad, True)
        except AttributeError:
            pass
        else:
            raise AssertionError('expected AttributeError')


def check_branch_slashes():
    def ep(marker):
        return lambda: Response('ok ' + marker, headers={'X-Marker': marker})

    # redirect mode: non-normal path -> 302 to normalised url, normal -> answer
    app = Application([Route('/d/', ep('D'), methods=['GET']),
                       Route('/d/<x>/', ep('DX')),
                       Route('/d', ep('LEAF'))])
    cl = app.get_local_client()
    r = cl.get('/d/')
    assert (r.status_code, r.headers.get('X-Marker')) == (200, 'D')
    r = cl.get('/d')
    assert r.status_code == 302 and r.headers['Location'] == 'http://localhost/d/', r.headers
    r = cl.get('/d//q?k=v')
    assert r.status_code == 302 and r.headers['Location'] == 'http://localhost/d/q/?k=v', r.headers
    r = cl.get('/d/q/')
    assert (r.status_code, r.headers.get('X-Marker')) == (200, 'DX')
    # method mismatch on the branch route comes before the slash handling:
    # POST /d skips route 0 (records methods), is answered by the leaf route
    r = cl.post('/d')
    assert (r.status_code, r.headers.get('X-Marker')) == (200, 'LEAF')

    # strict mode: a 404 is recorded (non-answer), later routes still tried
    app = Application([Route('/s/', ep('S')), Route('/<x>', ep('ANY'))],
                      slash_mode=S_STRICT)
    cl = app.get_local_client()
    r = cl.get('/s/')
    assert (r.status_code, r.headers.get('X-Marker')) == (200, 'S')
    r = cl.get('/s')
    assert (r.status_code, r.headers.get('X-Marker')) == (200, 'ANY')
    r = cl.get('/s//')
    assert r.status_code == 404

    # rewrite mode: answered in place
    app = Application([Route('/w/', ep('W'))], slash_mode=S_REWRITE)
    cl = app.get_local_client()
    for p in ('/w', '/w/', '/w//', '//w'):
        r = cl.get(p)
        assert (r.status_code, r.headers.get('X-Marker')) == (200, 'W'), p
    assert S_REDIRECT == 'redirect'


def main():
    total = check_dispatch_property()
    check_normalize_path()
    check_branch_slashes()
    print('checked %d requests' % total)
    print('PASS')
    return 0


if __name__ == '__main__':
    sys.exit(main())
