# -*- coding: utf-8 -*-
"""demo3: Application.dispatch gives every request a response.

Behaviours (Response / non-Response / raise / raise+return of HTTPExceptions,
breaking or not) are placed in endpoints, render functions and at every
position and phase of a middleware stack, under default, contextual,
re-raising and broken-renderer error handlers; the walk over the routing table
(method mismatches, non-breaking errors, slashes, path parameters seen by
endpoints and error renderers) is checked step by step, as are sequences of
failing and succeeding requests against one application.
"""
import io
import json
import warnings

warnings.simplefilter('ignore')

from werkzeug.test import EnvironBuilder
from werkzeug.wrappers import Request, Response, BaseResponse

import clastic.errors as clastic_errors
from clastic import (Application, Route, GET, POST, PUT, Middleware,
                     RerouteWSGI, render_basic, S_STRICT, S_REDIRECT, S_REWRITE)
from clastic.errors import (ErrorHandler, ContextualErrorHandler, HTTPException,
                            InternalServerError, NotFound, Forbidden, BadRequest,
                            BadGateway, MethodNotAllowed, ImATeapot)

ACCEPTS = [None, 'text/plain', 'text/html', 'application/json',
           'application/xml', 'image/*;q=0.2, */*;q=0.1', '\xff\xfe']

HTTP_EXC_TYPES = [getattr(clastic_errors, name) for name in clastic_errors.__all__]
assert len(HTTP_EXC_TYPES) > 20


class CustomError(Exception):
    pass


def fetch(app, path, method='GET', accept=None, **kw):
    headers = {} if accept is None else {'Accept': accept}
    resp = app.get_local_client().open(path, method=method, headers=headers,
                                       errors_stream=io.StringIO(), **kw)
    body = resp.get_data(True)
    assert resp.status_code == int(resp.status.split()[0])
    return resp, body


def make_request(path, method='GET', accept=None):
    headers = {} if accept is None else {'Accept': accept}
    builder = EnvironBuilder(path=path, method=method, headers=headers)
    return Request(builder.get_environ())


# -- 1. behaviours of endpoint / render --------------------------------------

def behaviours():
    """name -> (callable performing the behaviour, expected status or the
    exception type that reaches the error handler)"""
    ret = {
        'response': (lambda: Response('fine'), 200),
        'response-201': (lambda: Response('made', status=201), 201),
        'str': (lambda: 'text', TypeError),
        'none': (lambda: None, TypeError),
        'zero': (lambda: 0, TypeError),
        'dict': (lambda: {'k': 'v'}, TypeError),
        'raise-custom': (lambda: (_ for _ in ()).throw(CustomError('cu☃tom')), CustomError),
        'raise-value': (lambda: int('x'), ValueError),
        'raise-zerodiv': (lambda: 1 / 0, ZeroDivisionError),
        'raise-key': (lambda: {}['k'], KeyError),
        'raise-huge': (lambda: (_ for _ in ()).throw(RuntimeError('h' * 50000)), RuntimeError),
        'raise-stopiter': (lambda: next(iter(())), StopIteration),
    }
    for exc_type in HTTP_EXC_TYPES:
        name = exc_type.__name__
        ret['raise-' + name] = ((lambda t: lambda: (_ for _ in ()).throw(t()))(exc_type), exc_type.code)
        ret['return-' + name] = ((lambda t: lambda: t())(exc_type), exc_type.code)
        ret['raise-nb-' + name] = ((lambda t: lambda: (_ for _ in ()).throw(t(is_breaking=False)))(exc_type), exc_type.code)
        ret['return-nb-' + name] = ((lambda t: lambda: t(is_breaking=False))(exc_type), exc_type.code)
    return ret


BEHAVIOURS = behaviours()


class Stage(Middleware):
    """a middleware performing *behaviour* in *phase* (or passing through)"""
    def __init__(self, tag, phase=None, behaviour=None):
        self.tag, self.phase, self.behaviour = tag, phase, behaviour

    def __eq__(self, other):
        return self is other

    __hash__ = None  # middlewares need not be hashable

    def _act(self, phase, next):
        if phase == self.phase:
            return self.behaviour()
        return next()

    def request(self, next):
        return self._act('request', next)

    def endpoint(self, next):
        return self._act('endpoint', next)

    def render(self, next):
        return self._act('render', next)


def expect_status(app_kind, expected):
    """status for *expected* = int status or exception type"""
    if isinstance(expected, int):
        return expected
    return 500


class BrokenRenderHandler(ErrorHandler):
    def render_error(self, request, _error, **kwargs):
        raise CustomError('render_error is broken')


class ReplacingRenderHandler(ErrorHandler):
    """render_error answers with a different error"""
    def render_error(self, request, _error, **kwargs):
        return BadGateway('replaced %s' % _error.code)


class ReraisingRenderHandler(ErrorHandler):
    """render_error raises the error it was given"""
    def render_error(self, request, _error, **kwargs):
        raise _error


HANDLERS = {
    'default': lambda: None,
    'debug': lambda: ContextualErrorHandler(),
    'broken-render': BrokenRenderHandler,
    'replacing-render': ReplacingRenderHandler,
    'reraising-render': ReraisingRenderHandler,
}


def check_one(app, handler_name, expected, accept, ctx):
    resp, body = fetch(app, '/t', accept=accept)
    status = expect_status(handler_name, expected)
    if handler_name == 'replacing-render' and status >= 400:
        assert resp.status_code == 502, (ctx, resp.status)
        assert 'replaced %s' % status in body, (ctx, body[:200])
        return
    assert resp.status_code == status, (ctx, resp.status, body[:200])
    if status < 400:
        return
    assert body and resp.headers.get('Content-Type'), ctx
    if not isinstance(expected, int):
        assert expected.__name__ in body, (ctx, body[:300])
    if accept == 'application/json':
        assert json.loads(body)['code'] == status, ctx


def check_behaviour_matrix():
    names = sorted(BEHAVIOURS)
    count = 0
    for handler_name, handler_factory in sorted(HANDLERS.items()):
        # a compact but complete sweep: each behaviour in each place
        for name in names:
            func, expected = BEHAVIOURS[name]
            places = [('endpoint-func', None, None), ('render-func', None, None)]
            places += [(phase, pos, None) for phase in ('request', 'endpoint', 'render')
                       for pos in range(3)]
            if handler_name not in ('default', 'debug') and not name.startswith(('raise-c', 'str', 'response', 'raise-nb-N', 'return-I')):
                # the renderer variants only need a sample of behaviours
                continue
            for place, pos, _ in places:
                stack = [Stage('s%d' % i) for i in range(3)]
                endpoint, render = (lambda: {'ctx': 1}), (lambda context: Response('rendered'))
                exp = expected
                if place == 'endpoint-func':
                    endpoint = func
                    if exp is TypeError:
                        exp = 200   # a non-Response endpoint result goes to render
                    if name.startswith('response'):
                        exp = expected
                elif place == 'render-func':
                    render = lambda context, func=func: func()
                else:
                    stack[pos] = Stage('s%d' % pos, place, func)
                    if place in ('endpoint',) and exp is TypeError:
                        exp = 200   # goes on to render as a context
                app = Application([Route('/t', endpoint, render, middlewares=stack),
                                   ('/ok', lambda: Response('ok'))],
                                  error_handler=handler_factory())
                accepts = ACCEPTS if count % 7 == 0 else ACCEPTS[count % len(ACCEPTS):][:1]
                for accept in accepts:
                    check_one(app, handler_name, exp, accept,
                              (handler_name, name, place, pos, accept))
                # the application still serves
                resp, body = fetch(app, '/ok')
                assert (resp.status_code, body) == (200, 'ok')
                count += 1
    assert count > 1500, count


# -- 2. re-raising handler ------------------------------------------------------

def check_reraise():
    for name in sorted(BEHAVIOURS):
        func, expected = BEHAVIOURS[name]
        for place in ('endpoint-func', 'request-1', 'render-2'):
            stack = [Stage('s%d' % i) for i in range(3)]
            endpoint, render = (lambda: {'ctx': 1}), (lambda context: Response('rendered'))
            if place == 'endpoint-func':
                endpoint, render = func, None
            else:
                phase, pos = place.split('-')
                stack[int(pos)] = Stage('x', phase, func)
            app = Application([Route('/t', endpoint, render, middlewares=stack),
                               ('/ok', lambda: Response('ok'))],
                              error_handler=ErrorHandler(reraise_uncaught=True))
            try:
                resp, body = fetch(app, '/t')
            except Exception as escaped:
                assert not isinstance(expected, int), (name, place, escaped)
                assert type(escaped) is expected, (name, place, escaped)
                if expected is TypeError:
                    assert 'expected Response, received' in str(escaped)
            else:
                assert isinstance(expected, int), (name, place)
                assert resp.status_code == expected, (name, place, resp.status)
            assert fetch(app, '/ok')[1] == 'ok'


# -- 3. the walk over the routing table ----------------------------------------

class RecordingHandler(ErrorHandler):
    """notes what the error renderer gets to see"""
    def __init__(self, log):
        super(RecordingHandler, self).__init__()
        self.log = log

    def render_error(self, request, _error, _route, **kwargs):
        self.log.append(('render_error', _error.code, _route.pattern,
                         _error.source_route.pattern,
                         dict(request.path_params),
                         sorted(k for k in kwargs if not k.startswith('_') or k == '_ignored')))
        return super(RecordingHandler, self).render_error(request, _error)


def check_table_walk():
    log = []

    def ep(tag, outcome):
        def endpoint(request, _route, _dispatch_state, **kw):
            log.append((tag, _route.pattern, dict(request.path_params),
                        len(_dispatch_state.exceptions),
                        sorted(_dispatch_state.allowed_methods)))
            return outcome()
        return endpoint

    def nb(exc_type, detail):
        return lambda: (_ for _ in ()).throw(exc_type(detail, is_breaking=False))

    preset_route = Route('/elsewhere', lambda: None).bind(Application())

    def make_app(handler=None, **kw):
        return Application([
            GET('/w/<a>', ep('r0', nb(Forbidden, 'r0 says no'))),
            POST('/w/<b>', ep('r1-post', lambda: Response('posted'))),
            GET('/w/<c:int>', ep('r2-int', nb(NotFound, 'r2 says no'))),
            PUT('/w/<d>', ep('r3-put', lambda: Response('put'))),
            GET('/w/<f>', ep('r5', lambda: ImATeapot('r5 teapot', is_breaking=False))),
            GET('/w/<g:int>', ep('r6', lambda: Response('r6 answered'))),
            GET('/w/<h>', ep('r7', lambda: BadRequest('r7 breaks'))),
            GET('/w/<i>', ep('never', lambda: Response('unreachable'))),
            GET('/preset', ep('preset', lambda: Forbidden('preset', source_route=preset_route))),
            GET('/x/<j>', ep('x0', nb(Forbidden, 'x0 says no'))),
            POST('/x/<k>', ep('x1', lambda: Response('x posted'))),
            GET('/y/<l>', ep('y0', nb(Forbidden, 'y0 says no'))),
            GET('/y/<m>/', ep('y1-branch', lambda: Response('y1'))),
        ], resources={'res': 'ource'}, error_handler=handler or RecordingHandler(log), **kw)

    app = make_app()
    for _round in range(2):
        # ints: r0 (nb) -> r2 (nb) -> r5 (returned nb) -> r6 answers
        del log[:]
        resp, body = fetch(app, '/w/12')
        assert (resp.status_code, body) == (200, 'r6 answered')
        assert log == [('r0', '/w/<a>', {'a': '12'}, 0, []),
                       ('r2-int', '/w/<c:int>', {'c': 12}, 1, ['POST']),
                       ('r5', '/w/<f>', {'f': '12'}, 2, ['POST', 'PUT']),
                       ('r6', '/w/<g:int>', {'g': 12}, 3, ['POST', 'PUT'])], log

        # non-ints: r0 (nb) -> r5 (nb) -> r7 breaks with 400; rendered by r7
        del log[:]
        resp, body = fetch(app, '/w/abc', accept='text/plain')
        assert resp.status_code == 400 and 'r7 breaks' in body
        assert [e[0] for e in log] == ['r0', 'r5', 'r7', 'render_error']
        assert log[-1] == ('render_error', 400, '/w/<h>', '/w/<h>', {'h': 'abc'},
                           ['h', 'res']), log[-1]

        # POST / PUT are answered by their own routes, without touching others
        for method, tag, text, params in [('POST', 'r1-post', 'posted', {'b': '7'}),
                                          ('PUT', 'r3-put', 'put', {'d': '7'})]:
            del log[:]
            resp, body = fetch(app, '/w/7', method=method)
            assert (resp.status_code, body) == (200, text)
            assert [e[:3] for e in log] == [(tag, log[0][1], params)]

        # DELETE matches paths only: 405 from the null route, listing methods
        del log[:]
        resp, body = fetch(app, '/w/7', method='DELETE', accept='application/json')
        assert resp.status_code == 405
        assert "['GET', 'HEAD', 'POST', 'PUT']" in json.loads(body)['detail']
        assert log == [('render_error', 405, '/<_ignored*>', '/<_ignored*>',
                        {'_ignored': ['w', '7']}, ['_ignored', 'res'])], log

        # /x/..: non-breaking 403, then only a POST route: the 403 stands; it
        # keeps x0 as its source route but is rendered with the null route's
        # parameters (the last route whose pattern matched)
        del log[:]
        resp, body = fetch(app, '/x/1', accept='text/plain')
        assert resp.status_code == 403 and 'x0 says no' in body
        assert [e[0] for e in log] == ['x0', 'render_error']
        assert log[-1] == ('render_error', 403, '/x/<j>', '/x/<j>',
                           {'_ignored': ['x', '1']}, ['_ignored', 'res']), log[-1]

        # an HTTPException that already names a source route keeps it
        del log[:]
        resp, body = fetch(app, '/preset', accept='text/plain')
        assert resp.status_code == 403 and 'preset' in body
        assert [e[0] for e in log] == ['preset']   # rendered by the other app's handler

        # a branch route reached with an unnormalized path, after another
        # route failed softly: redirect, the branch endpoint does not run
        del log[:]
        resp, body = fetch(app, '/y/5')
        assert resp.status_code == 302
        assert resp.headers['Location'].rstrip('?').endswith('/y/5/')
        assert [e[0] for e in log] == ['y0']
        del log[:]
        resp, body = fetch(app, '/y/5/')
        assert (resp.status_code, body) == (200, 'y1')
        assert [e[:3] for e in log] == [('y0', '/y/<l>', {'l': '5'}),
                                        ('y1-branch', '/y/<m>/', {'m': '5'})]

        # HEAD is allowed wherever GET is
        del log[:]
        resp, body = fetch(app, '/w/12', method='HEAD')
        assert resp.status_code == 200 and [e[0] for e in log] == ['r0', 'r2-int', 'r5', 'r6']

        # nothing matches: 404 with the null route's parameters
        del log[:]
        resp, body = fetch(app, '/nowhere/at/all')
        assert resp.status_code == 404
        assert log == [('render_error', 404, '/<_ignored*>', '/<_ignored*>',
                        {'_ignored': ['nowhere', 'at', 'all']}, ['_ignored', 'res'])]

    # a path that no pattern can match (only possible with a custom request
    # type): dispatch has nothing to return
    class OddRequest(Request):
        path = 'no-leading-slash'
    assert app.dispatch(OddRequest(EnvironBuilder(path='/w/1').get_environ())) is None


def check_slashes():
    log = []

    def leaf():
        log.append('ran')
        return Response('leaf')

    def nb_first():
        log.append('first')
        raise Forbidden('first', is_breaking=False)

    for mode, expected in [(S_REDIRECT, 302), (S_STRICT, 404), (S_REWRITE, 200)]:
        app = Application([('/b/<x>/', leaf)], slash_mode=mode)
        for path in ('/b/1', '/b//1', '/b/1//'):
            del log[:]
            resp, body = fetch(app, path, query_string='q=1&r=%ff')
            if path == '/b/1//' and mode == S_STRICT:
                assert resp.status_code in (302, 404, 200)
                continue
            assert resp.status_code == expected, (mode, path, resp.status)
            if expected == 302:
                assert resp.headers['Location'].endswith('/b/1/?q=1&r=%ff'), resp.headers['Location']
                assert log == []
            elif expected == 200:
                assert log == ['ran'] and body == 'leaf'
            else:
                assert log == []
        del log[:]
        resp, body = fetch(app, '/b/1/')
        assert (resp.status_code, body, log) == (200, 'leaf', ['ran'])

    # strict routes do not even match un-normalized paths; a softly failing
    # route before them leaves its error standing
    app = Application([('/n/<x>', nb_first), ('/n/<x>/', leaf)], slash_mode=S_STRICT)
    del log[:]
    resp, body = fetch(app, '/n/1', accept='text/plain')
    assert resp.status_code == 403 and log == ['first']
    for path, status in [('/n/1/', 200), ('/n//1', 404), ('/n/1//', 404)]:
        assert fetch(app, path)[0].status_code == status, path

    # the strict-mismatch branch of dispatch proper (a route switched to
    # strict after binding): its 404 is recorded, later routes still run ...
    for debug in (False, True):
        app = Application([('/m/<x>/', leaf), ('/m/<y>', lambda: Response('second'))],
                          debug=debug)
        app.routes[0].slash_mode = S_STRICT
        del log[:]
        resp, body = fetch(app, '/m/1')
        assert (resp.status_code, body, log) == (200, 'second', [])
        resp, body = fetch(app, '/m/1/')
        assert (resp.status_code, body, log) == (200, 'leaf', ['ran'])
        # ... and if none answers, the recorded 404 is the response
        app = Application([('/m/<x>', nb_first), ('/m/<x>/', leaf)], debug=debug)
        app.routes[1].slash_mode = S_STRICT
        del log[:]
        request = make_request('/m/1', accept='text/plain')
        ret = app.dispatch(request)
        assert isinstance(ret, NotFound) and ret.code == 404
        assert ret.source_route is app.routes[1] and log == ['first']
        assert type(ret) is app.error_handler.not_found_type
        resp, body = fetch(app, '/m/1', accept='text/plain')
        assert resp.status_code == 404


def check_reroute():
    def other_wsgi(environ, start_response):
        start_response('299 Rerouted', [('Content-Type', 'text/plain')])
        return [b'other app']

    def raising():
        raise RerouteWSGI(other_wsgi)

    for handler in (None, ErrorHandler(reraise_uncaught=True), ContextualErrorHandler()):
        app = Application([('/r1', RerouteWSGI(other_wsgi)), ('/r2', raising),
                           ('/ok', lambda: Response('ok'))], error_handler=handler)
        for path in ('/r1', '/r2'):
            resp, body = fetch(app, path)
            assert (resp.status_code, body) == (299, 'other app')
        assert fetch(app, '/ok')[1] == 'ok'


def check_sequences():
    """failing and succeeding requests interleaved against one application"""
    counter = {'n': 0}

    def flaky():
        counter['n'] += 1
        n = counter['n']
        if n % 4 == 0:
            raise CustomError('every fourth')
        if n % 4 == 1:
            raise Forbidden('every first', is_breaking=False)
        if n % 4 == 2:
            return 'not a response'
        return Response('good %d' % n)

    for handler_factory in (lambda: None, ContextualErrorHandler, BrokenRenderHandler):
        counter['n'] = 0
        app = Application([('/f', flaky), ('/f', lambda: Response('fallback'))],
                          error_handler=handler_factory())
        routes_before = list(app.routes)
        seen = []
        for i in range(12):
            resp, body = fetch(app, '/f', accept=ACCEPTS[i % len(ACCEPTS)])
            seen.append(resp.status_code)
            if resp.status_code == 200:
                assert body in ('fallback', 'good %d' % counter['n'])
        assert seen == [200, 500, 200, 500] * 3, seen
        assert app.routes == routes_before
        assert fetch(app, '/nope')[0].status_code == 404


def main():
    check_table_walk()
    check_slashes()
    check_reroute()
    check_sequences()
    check_reraise()
    check_behaviour_matrix()
    print('PASS')


if __name__ == '__main__':
    main()
