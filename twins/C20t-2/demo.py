# -*- coding: utf-8 -*-
"""demo2: Flaw app construction -- create_app, get_flaw_info, _filter_site_files.

Checks resources/aliasing of the failsafe application, the endpoint's return
value, the site-file filter against a reference transcription, and the C20
property (every path -> 200 page with the error text and the monitored file
names HTML-escaped) over a spread of error texts and monitored file lists.
"""
import ast
import html
import os
import sys
import traceback

import werkzeug
import clastic
from clastic import flaw
from clastic.application import Application


# ------------------------------------------------------------ reference

def ref_filter_site_files(paths):
    ret = paths or []
    if not paths:
        return ret
    main_lib_dir = os.path.dirname(ast.__file__)
    ret = [fn for fn in ret if not fn.startswith(main_lib_dir)]
    venv_lib_dir = os.path.dirname(os.__file__)
    ret = [fn for fn in ret if not fn.startswith(venv_lib_dir)]
    try:
        import werkzeug
        venv_site_dir = os.path.dirname(werkzeug.__file__)
        ret = [fn for fn in ret if not fn.startswith(venv_site_dir)]
    except:
        pass
    try:
        import clastic
        clastic_dir = os.path.dirname(clastic.__file__)
        ret = [fn for fn in ret if not fn.startswith(clastic_dir)]
    except:
        pass
    return ret


def ref_last_line(tb_str):
    try:
        return tb_str.splitlines()[-1]
    except:
        return u'Unknown error'


def outcome(func, *args):
    try:
        return ('ok', func(*args))
    except Exception as e:
        return ('exc', type(e))


STDLIB = os.path.dirname(ast.__file__)
WZ_DIR = os.path.dirname(werkzeug.__file__)
CL_DIR = os.path.dirname(clastic.__file__)

APP_FILES = ['/srv/app/main.py', '/srv/app/views/__init__.py', '/srv/a.py', 'relative.py', '',
             '/srv/<b>bold</b>.py', '/srv/{tb_str}.py', '/srv/q&a "quoted".py', u'/srv/sn\xf6w☃.py',
             "/srv/it's.py", '/srv/{#mon_files}x{/mon_files}.py']
SITE_FILES = [os.__file__, ast.__file__, os.path.join(STDLIB, 'json', '__init__.py'),
              werkzeug.__file__, os.path.join(WZ_DIR, 'routing', 'map.py'),
              clastic.__file__, flaw.__file__, os.path.join(CL_DIR, '_clastic_assets', 'common.css'),
              STDLIB, STDLIB + 'x/extra.py', WZ_DIR + '_other/mod.py', CL_DIR + '2/mod.py']

FILE_LISTS = [
    None, [], (), '',
    ['/srv/app/main.py'],
    list(APP_FILES),
    list(SITE_FILES),
    APP_FILES + SITE_FILES,
    SITE_FILES + APP_FILES,
    [f for pair in zip(APP_FILES, SITE_FILES) for f in pair],
    ['/srv/app/mod%03d.py' % i for i in range(300)],
    ['/srv/dup.py', '/srv/dup.py', os.__file__, os.__file__],
    ['bb', 'a', 'ccc', 'dd', 'e', ''],   # stable sort by length
]
BAD_FILE_LISTS = [[b'/srv/bytes.py'], [1, 2], ['/srv/ok.py', None], [os.__file__, b'x'], [object()]]


def check_filter():
    for fl in FILE_LISTS + BAD_FILE_LISTS:
        exp = outcome(ref_filter_site_files, fl)
        act = outcome(flaw._filter_site_files, fl)
        assert exp == act, (fl, exp, act)
        if act[0] == 'ok':
            assert type(act[1]) is list
            assert act[1] is not fl
    # nothing under the stdlib / werkzeug / clastic directories survives, everything else does
    got = flaw._filter_site_files(APP_FILES + SITE_FILES)
    assert got == APP_FILES, got
    assert flaw._filter_site_files(SITE_FILES) == []
    assert flaw._filter_site_files(None) == [] and flaw._filter_site_files([]) == []
    # an unimportable werkzeug only disables that one filter
    saved = sys.modules['werkzeug']
    sys.modules['werkzeug'] = None
    try:
        exp = ref_filter_site_files(APP_FILES + SITE_FILES)
        act = flaw._filter_site_files(APP_FILES + SITE_FILES)
    finally:
        sys.modules['werkzeug'] = saved
    assert exp == act
    if not WZ_DIR.startswith(STDLIB):
        assert werkzeug.__file__ in act and clastic.__file__ not in act and os.__file__ not in act


# ------------------------------------------------------------ error texts

def _raiser(exc, depth):
    if depth:
        return _raiser(exc, depth - 1)
    raise exc


def error_texts():
    out = []
    for exc in (ValueError('bad <value> & more'), KeyError('k'), RuntimeError(''),
                NameError("name 'plarp' is not defined"), Exception('{tb_str}{#mon_files}{.}{/mon_files}')):
        for depth in (0, 4):
            try:
                _raiser(exc, depth)
            except Exception:
                out.append(traceback.format_exc())
    try:
        compile('def f(:\n', 'broken.py', 'exec')
    except SyntaxError:
        out.append(traceback.format_exc())
    out += [
        u'Traceback (most recent call last):\n  File "example.py", line 2, in <module>\n    plarp\n'
        u"NameError: name 'plarp' is not defined\n",
        u'  File "mod.py", line 3\n    def f(:\n          ^\nSyntaxError: invalid syntax\n',
        u'', u' ', u'\n', u'\n \n', u'plain text', u'two\nlines', u'trailing newline\n', u'ends blank\n\n \n',
        u'<script>alert(1)</script>', u'<b>x</b>\n<i>last</i>', u'&amp; &lt;', u'\'"',
        u'{tb_str}', u'{#all_mon_files}{.}{/all_mon_files}', u'{>flaw_tmpl/}', u'{', u'{~n}', u'{last_line|s}',
        u'\x00\x01\x1f', u'a\rb', u'a\x0cb\x1cc\x85d g', u'sn\xf6wman ☃',
        u'Traceback (most recent call last):\n',
        u'Traceback (most recent call last):\n  File "a.py", line 1, in f\nValueError: odd',
    ]
    return out


NON_TEXT = [None, b'', b'some bytes\nlast: line', b'\xff\xfe',
            u'Traceback (most recent call last):\n  File "b.py", line 1, in f\n    x\nKeyError: 1\n'.encode('utf-8')]


# ------------------------------------------------------------ checks

def li_items(names):
    return ''.join('<li>%s</li>' % html.escape(n, True) for n in names)


def check_app(text, files):
    orig = None if files is None else list(files)
    app = flaw.create_app(text, files)
    assert type(app) is Application
    # resources
    res = app.resources
    assert sorted(res) == ['all_mon_files', 'mon_files', 'parsed_error', 'tb_str'], sorted(res)
    assert res['tb_str'] is text
    assert res['all_mon_files'] is files
    if files:
        # sorted in place, stably, by length
        assert files == sorted(orig, key=len), files
    else:
        assert files == orig
    assert res['mon_files'] == ref_filter_site_files(files)
    assert type(res['mon_files']) is list and res['mon_files'] is not files
    assert type(res['parsed_error']) is dict
    assert (res['parsed_error'] == {}
            or sorted(res['parsed_error']) == ['exc_msg', 'exc_type', 'frames'])
    assert type(app.render_factory).__name__ == 'AshesRenderFactory'
    # routes: index, assets, catch-all
    patterns = [r.pattern for r in app.routes]
    assert patterns[0] == '/' and patterns[-1] == '/<_ignored*>', patterns
    assert any(p.startswith('/clastic_assets') for p in patterns), patterns
    # the endpoint
    info = flaw.get_flaw_info(text, res['parsed_error'], files, res['mon_files'])
    assert sorted(info) == ['all_mon_files', 'last_line', 'mon_files', 'parsed_err', 'tb_str']
    assert info['tb_str'] is text and info['all_mon_files'] is files
    assert info['mon_files'] is res['mon_files'] and info['parsed_err'] is res['parsed_error']
    assert info['last_line'] == ref_last_line(text)
    assert type(info['last_line']) is type(ref_last_line(text))
    return app


def check_pages(app, text, files, paths):
    cl = app.get_local_client()
    bodies = set()
    for path in paths:
        resp = cl.get(path)
        assert resp.status_code == 200, (text, path, resp.status_code)
        assert resp.mimetype == 'text/html', resp.mimetype
        body = resp.get_data(True)
        bodies.add(body)
        assert 'Whopps!' in body
        if text is None or len(text) == 0:
            assert '<pre></pre>' in body    # None, '' and b'' all render as nothing
        else:
            assert '<pre>%s</pre>' % html.escape(str(text), True) in body, (text, path)
        for marker in ('<script', '<b>', '<i>', '{tb_str}x'):
            assert marker not in body, (marker, text, files)
        mon = ref_filter_site_files(files)
        assert '<ul>%s</ul>' % li_items(mon) in body, (files, body[-600:])
        assert ('<ul id="all_files" style="display:none;">%s</ul>' % li_items(files or [])) in body, files
        parsed = app.resources['parsed_error']
        if parsed:
            assert ('<h2 class="parsed-error-h2">%s<p>%s</p></h2>'
                    % (html.escape(parsed['exc_type'], True), html.escape(parsed['exc_msg'], True))) in body
        else:
            assert ('<h2 class="unparsed-error-h2">%s</h2>'
                    % html.escape(str(ref_last_line(text)), True)) in body, text
    assert len(bodies) == 1   # same page whatever the path


PATHS = ['/', '/x', '/a/b/c/', '/favicon.ico', '/%7Btb_str%7D', '/clastic_assetsX/y']


def main():
    check_filter()
    texts = error_texts()
    usable_lists = [fl for fl in FILE_LISTS if isinstance(fl, list) or fl is None]
    n = 0
    for ti, text in enumerate(texts):
        for fi, fl in enumerate(usable_lists):
            if (ti + fi) % 3 and fl:   # thin out the product a bit, keep all None/[] combos
                continue
            files = None if fl is None else list(fl)
            app = check_app(text, files)
            check_pages(app, text, files, PATHS if n % 5 == 0 else PATHS[:2])
            n += 1
    for text in NON_TEXT:
        for fl in (None, ['/srv/<b>x</b>.py', os.__file__, 'a.py']):
            files = None if fl is None else list(fl)
            app = check_app(text, files)
            check_pages(app, text, files, PATHS[:3])
            n += 1
    # standard traceback: exception type and message are named
    tb = texts[0]
    app = flaw.create_app(tb, None)
    body = app.get_local_client().get('/whatever').get_data(True)
    assert 'ValueError' in body and html.escape('bad <value> & more') in body
    assert app.resources['parsed_error'] or 'unparsed-error-h2' in body
    # monitored_files that cannot be sorted / filtered still raise the same way
    for bad in BAD_FILE_LISTS + [('a.py', 'bb.py')]:
        exp = outcome(lambda b: (b.sort(key=lambda x: len(x)), ref_filter_site_files(b)), list(bad) if isinstance(bad, list) else bad)
        act = outcome(flaw.create_app, 'x', list(bad) if isinstance(bad, list) else bad)
        assert exp[0] == 'exc' and act == exp, (bad, exp, act)
    # static assets still served next to the catch-all
    resp = flaw.create_app('x').get_local_client().get('/clastic_assets/common.css')
    assert resp.status_code == 200 and 'text/css' in resp.mimetype
    print('apps checked: %d' % n)
    print('PASS')


if __name__ == '__main__':
    main()
    sys.exit(0)
