# -*- coding: utf-8 -*-
"""C10 demo 1: an embedded application answers like the flat declaration.

Emphasis: path / method matching of the re-bound routes (BoundRoute.match_path,
BoundRoute.match_method) under prefixes, at depth 1..3.

Prints PASS and exits 0 when every assertion holds.
"""
from __future__ import print_function

import random
import sys

from clastic import Application, SubApplication, Route, Middleware, Response
from clastic import S_REDIRECT, S_REWRITE, S_STRICT
from clastic.errors import ErrorHandler, NotFound

TRACE = []


# ---------------------------------------------------------------- middlewares
class TraceMW(Middleware):
    def __init__(self, label):
        self.label = label

    def request(self, next):
        TRACE.append('%s@%s' % (type(self).__name__, self.label))
        return next()


class MwA(TraceMW):
    pass


class MwB(TraceMW):
    pass


class MwC(TraceMW):
    pass


class MwStamp(TraceMW):
    provides = ('stamp',)

    def request(self, next):
        TRACE.append('%s@%s' % (type(self).__name__, self.label))
        return next(stamp='stamp-from-' + self.label)


MW_TYPES = [MwA, MwB, MwC]


# ------------------------------------------------------------------ endpoints
def ep_plain(request):
    return {'ep': 'plain', 'path': request.path}


def ep_shared(request, shared):
    return {'ep': 'shared', 'shared': shared}


def ep_two(shared, other):
    return {'ep': 'two', 'shared': shared, 'other': other}


def ep_id(id):
    return {'ep': 'id', 'id': id}


def ep_parts(parts):
    return {'ep': 'parts', 'parts': parts}


def ep_opt(x):
    return {'ep': 'opt', 'x': x}


def ep_stamp(stamp):
    return {'ep': 'stamp', 'stamp': stamp}


def ep_notfound(request):
    raise NotFound()


def ep_soft_notfound(request):
    raise NotFound(is_breaking=False)


def ep_boom(request):
    raise ValueError('boom')


def ep_resp(request):
    return Response('direct:' + request.path)


def render_text(context):
    return Response('text|%r' % sorted(context.items()))


class Factory(object):
    def __init__(self, tag):
        self.tag = tag

    def __call__(self, arg):
        tag = self.tag

        def render(context):
            return Response('%s|%s|%r' % (tag, arg, sorted(context.items())))
        return render


class TagEH(ErrorHandler):
    def __init__(self, tag, **kw):
        super(TagEH, self).__init__(**kw)
        self.tag = tag

    def render_error(self, request, _error):
        return Response('EH-%s|%s|%s' % (self.tag, _error.code, request.path),
                        status=_error.code)


class FlatRoute(Route):
    # a flat route that keeps its own slash mode (the opted-out case)
    inherit_slashes = False


# ------------------------------------------------------------ spec generation
LEAVES = [('/', ep_plain), ('/leaf', ep_plain), ('/branch/', ep_plain),
          ('/item/<id:int>', ep_id), ('/multi/<parts*>', ep_parts),
          ('/opt/<x?int>', ep_opt), ('/plus/<parts+int>/', ep_parts),
          ('/nf', ep_notfound), ('/soft', ep_soft_notfound),
          ('/soft', ep_plain), ('/boom', ep_boom), ('/resp/', ep_resp),
          ('/shared', ep_shared), ('/two/', ep_two), ('/stamp', ep_stamp)]
PREFIXES = ['/p', '/p/', '/', '/a/b', '/q/', '/deep/er/']
MODES = [S_REDIRECT, S_REWRITE, S_STRICT]
RENDERS = ['callable', 'arg', 'arg', 'none']
METHODS = [None, None, ('GET',), ('POST',), ('GET', 'PUT')]


def gen_app(rng, depth, name, outer_res):
    """-> spec dict; *outer_res* are the names the outermost app defines."""
    spec = {'name': name, 'routes': [], 'mode': rng.choice(MODES),
            'eh': rng.choice([None, name]), 'factory': rng.choice([None, name]),
            'mws': [], 'res': {}}
    for mw_type in rng.sample(MW_TYPES, rng.randint(0, 3)):
        spec['mws'].append((mw_type, name))
    if name == 'L0':
        for res_name in outer_res:
            spec['res'][res_name] = '%s-of-%s' % (res_name, name)
    else:
        # an inner level only repeats a name the outermost level defines:
        # names shared by two inner levels alone have no documented order
        for res_name in outer_res:
            if rng.random() < 0.5:
                spec['res'][res_name] = '%s-of-%s' % (res_name, name)
    n_entries = rng.randint(2, 5)
    n_subs = 0
    for i in range(n_entries):
        if depth > 1 and (rng.random() < 0.4 or (i == n_entries - 1 and not n_subs)):
            n_subs += 1
            sub = gen_app(rng, depth - 1, '%s%d' % (name, i), outer_res)
            spec['routes'].append({'kind': 'sub', 'prefix': rng.choice(PREFIXES),
                                   'app': sub, 'tuple': rng.random() < 0.4,
                                   'rebind': rng.random() < 0.5,
                                   'inherit': rng.random() < 0.6})
            continue
        pattern, ep = rng.choice(LEAVES)
        if ep in (ep_shared, ep_two):
            # the endpoint's own level must be able to satisfy it; a name the
            # outermost level lacks gets one value on all inner levels (the
            # precedence between two inner levels is not documented)
            for res_name in ('shared', 'other'):
                if res_name in outer_res or name == 'L0':
                    value = '%s-of-%s' % (res_name, name)
                else:
                    value = '%s-inner' % res_name
                spec['res'].setdefault(res_name, value)
        if ep is ep_stamp and not any(t is MwStamp for t, _ in spec['mws']):
            spec['mws'].append((MwStamp, name))
        spec['routes'].append({'kind': 'route', 'pattern': pattern, 'ep': ep,
                               'render': rng.choice(RENDERS),
                               'methods': rng.choice(METHODS)})
    return spec


def make_mws(spec):
    return [mw_type(label) for mw_type, label in spec['mws']]


def make_eh(spec):
    return TagEH(spec['eh']) if spec['eh'] else None


def make_factory(tag):
    return Factory(tag) if tag else None


# ------------------------------------------------------------- nested builder
def build_nested(spec):
    entries = []
    for ent in spec['routes']:
        if ent['kind'] == 'route':
            render = {'callable': render_text, 'arg': 'tmpl', 'none': None}[ent['render']]
            kw = {}
            if ent['methods']:
                kw['methods'] = ent['methods']
            entries.append(Route(ent['pattern'], ent['ep'], render, **kw))
        else:
            sub_app = build_nested(ent['app'])
            if ent['tuple']:
                entries.append((ent['prefix'], sub_app))
            else:
                entries.append(SubApplication(ent['prefix'], sub_app,
                                              rebind_render=ent['rebind'],
                                              inherit_slashes=ent['inherit']))
    return Application(entries, resources=dict(spec['res']),
                       middlewares=make_mws(spec),
                       render_factory=make_factory(spec['factory']),
                       error_handler=make_eh(spec), slash_mode=spec['mode'])


# --------------------------------------------------------------- flat builder
def iter_leaves(spec, chain=()):
    """Yield (leaf entry, chain) in declaration order; chain is a tuple of
    (app spec, embedding entry or None) from the outermost level inwards."""
    for ent in spec['routes']:
        if ent['kind'] == 'route':
            yield ent, chain + ((spec, None),)
        else:
            for item in iter_leaves(ent['app'], chain + ((spec, ent),)):
                yield item


def expected_render(kind, chain):
    if kind == 'callable':
        return render_text
    if kind == 'none':
        return None
    cur, seen = None, []
    inwards = list(chain)            # outermost ... innermost
    levels = inwards[::-1]           # innermost ... outermost
    for k, (app_spec, _) in enumerate(levels):
        seen.append(app_spec['factory'])
        if k == 0:
            rebind = True            # Application.add of a plain Route
        else:
            emb = levels[k][1]       # entry of level k embedding level k-1
            rebind = False if emb['tuple'] else emb['rebind']
        if rebind or cur is None:
            latest = [t for t in seen if t]
            if latest:
                cur = latest[-1]
    return Factory(cur)('tmpl') if cur else None


def build_flat(spec):
    routes = []
    for leaf, chain in iter_leaves(spec):
        specs = [s for s, _ in chain]
        prefix = ''.join(emb['prefix'].rstrip('/') for _, emb in chain if emb)
        # middlewares: outer then inner, a type kept once (outermost instance)
        merged = []
        for app_spec in specs:
            for mw_type, label in app_spec['mws']:
                if not any(t is mw_type for t, _ in merged):
                    merged.append((mw_type, label))
        own = len([1 for t, _ in merged if any(t is o for o, _ in spec['mws'])])
        route_mws = [t(label) for t, label in merged
                     if not any(t is o for o, _ in spec['mws'])]
        assert own == len(spec['mws'])
        # resources of the inner levels (inner wins; the outermost level's
        # values win at request time and live on the flat application)
        res = {}
        for app_spec in specs[1:]:
            res.update(app_spec['res'])
        # slash mode: the innermost application's, replaced at each embedding
        # that inherits
        mode = specs[-1]['mode']
        for app_spec, emb in reversed(chain[:-1]):
            inherit = True if emb['tuple'] else emb['inherit']
            if inherit:
                mode = app_spec['mode']
        kw = {'middlewares': route_mws, 'resources': res, 'slash_mode': mode}
        if leaf['methods']:
            kw['methods'] = leaf['methods']
        routes.append(FlatRoute(prefix + leaf['pattern'], leaf['ep'],
                                expected_render(leaf['render'], chain), **kw))
    return Application(routes, resources=dict(spec['res']),
                       middlewares=make_mws(spec),
                       render_factory=make_factory(spec['factory']),
                       error_handler=make_eh(spec), slash_mode=spec['mode'])


# ----------------------------------------------------------- request catalogue
FILLS = {'<id:int>': ['42', 'abc', '+%205', '-7'], '<parts*>': ['a/b', '', 'x'],
         '<x?int>': ['7', '', 'zz'], '<parts+int>': ['1/2/3', '', '1/x']}


def catalogue(flat_app):
    paths = ['/', '/nowhere', '/nowhere/', '/p', '/p/', '/px', '/a', '/a/b/',
             '/q', '/deep/er', '//p//']
    for rt in flat_app.routes:
        variants = [rt.pattern]
        for hole, fills in FILLS.items():
            if hole in rt.pattern:
                variants = [rt.pattern.replace(hole, f) for f in fills]
        for path in variants:
            toggled = path[:-1] if path.endswith('/') and path != '/' else path + '/'
            doubled = path.replace('/', '//', 2)
            paths.extend([path, toggled, doubled, path + '?q=1&r=%FF&s=a+b',
                          toggled + '?x=%3F', path + 'zzz'])
    seen, ret = set(), []
    for path in paths:
        if path not in seen:
            seen.add(path)
            ret.append(path)
    return ret


def ask(app, path, method):
    del TRACE[:]
    resp = app.get_local_client().open(path, method=method)
    return (resp.status_code, resp.get_data(), resp.headers.get('Location'),
            resp.headers.get('Allow'), tuple(TRACE))


def compare(seed, depth, methods=('GET', 'POST', 'HEAD', 'PUT')):
    rng = random.Random(seed)
    outer_res = rng.choice([(), ('shared',), ('shared', 'other')])
    spec = gen_app(rng, depth, 'L0', outer_res)
    nested, flat = build_nested(spec), build_flat(spec)
    assert [r.pattern for r in nested.routes] == [r.pattern for r in flat.routes]
    n = 0
    for path in catalogue(flat):
        for method in methods:
            got, want = ask(nested, path, method), ask(flat, path, method)
            assert got == want, (seed, depth, method, path, got, want)
            n += 1
    return nested, flat, n


# ------------------------------------------------------- demo-specific checks
def check_matching(nested, flat):
    """match_path / match_method of corresponding routes agree, also on
    inputs the dispatcher never passes (None, '', lower case)."""
    probes = ['/', '', 'p', '/p/item/42', '/p/item/+ 5', '/item/abc',
              '/p/multi', '/p/multi/a//b', '/a/b/opt/', '/q/plus/1/2/',
              '/q/plus/1/x/', u'/p/\xe9']
    for n_rt, f_rt in zip(nested.routes, flat.routes):
        for path in probes + [n_rt.pattern, n_rt.pattern + '/']:
            got, want = n_rt.match_path(path), f_rt.match_path(path)
            assert got == want, (n_rt.pattern, path, got, want)
            assert got is None or type(got) is dict
        for method in [None, '', 'GET', 'get', 'Post', 'HEAD', 'head', 'PUT',
                       'DELETE', 'bogus']:
            got, want = n_rt.match_method(method), f_rt.match_method(method)
            assert got is want, (n_rt.pattern, method, got, want)
            assert got is True or got is False
            if not method or not n_rt.methods:
                assert got is True
            else:
                assert got is (method.upper() in n_rt.methods)


def fixed_cases():
    inner = Application([Route('/item/<id:int>', ep_id, render_text, methods=['GET']),
                         Route('/opt/<x?int>', ep_opt, render_text),
                         Route('/multi/<parts*>', ep_parts, render_text)])
    mid = Application([('/m/', inner)])
    outer = Application([SubApplication('/o', mid)])
    item, opt, multi = outer.routes
    assert item.pattern == '/o/m/item/<id:int>'
    assert item.match_path('/o/m/item/42') == {'id': 42}
    assert item.match_path('/o/m/item/+ 5') is None      # int('+ 5') fails
    assert item.match_path('/o/m/item/') is None
    assert item.match_path('/m/item/42') is None
    assert opt.match_path('/o/m/opt') == {'x': None}
    assert opt.match_path('/o/m/opt/') == {'x': None}
    assert opt.match_path('/o/m/opt/12') == {'x': 12}
    assert multi.match_path('/o/m/multi') == {'parts': []}
    assert multi.match_path('/o/m/multi/a/b') == {'parts': ['a', 'b']}
    assert item.methods == set(['GET', 'HEAD'])
    assert item.match_method('head') is True
    assert item.match_method('POST') is False
    assert item.match_method(None) is True and item.match_method('') is True
    assert opt.methods is None and opt.match_method('ANYTHING') is True
    cl = outer.get_local_client()
    assert cl.get('/o/m/item/42').status_code == 200
    assert cl.post('/o/m/item/42').status_code == 405
    assert cl.get('/o/m/item/abc').status_code == 404
    assert cl.get('/m/item/42').status_code == 404


def main():
    fixed_cases()
    total = 0
    for depth in (1, 2, 3):
        for seed in range(14):
            nested, flat, n = compare(1000 * depth + seed, depth)
            check_matching(nested, flat)
            total += n
    assert total > 3000, total
    print('compared %d requests' % total)
    print('PASS')
    return 0


if __name__ == '__main__':
    sys.exit(main())
