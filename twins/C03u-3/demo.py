import itertools
import os
import sys

sys.path.insert(0, os.path.dirname(os.path.abspath(__file__)))

from werkzeug.test import EnvironBuilder
from werkzeug.wrappers import Request, Response, BaseResponse

import clastic
from clastic import Application, Route
from clastic.middleware import Middleware

assert os.path.dirname(os.path.abspath(clastic.__file__)).startswith(
    os.path.dirname(os.path.abspath(__file__))), clastic.__file__

TRACE = []
STAGES = ('request', 'endpoint', 'render')
# what a layer can do
ACTIONS = ('pass', 'raise_before', 'raise_after', 'short', 'short_ctx', 'swallow')


class Boom(Exception):
    pass


def describe(value):
    if isinstance(value, BaseResponse):
        return ('R', value.get_data(as_text=True))
    return ('C', repr(value))


_CLS_COUNTER = itertools.count()


def _make_stage_func(stage):
    def body(self, next):
        tag, act = self.tag, self.actions.get(stage, 'pass')
        TRACE.append(('enter', stage, tag))
        if act == 'raise_before':
            raise Boom('%s.%s before' % (tag, stage))
        if act == 'short':
            return Response('short %s.%s' % (tag, stage))
        if act == 'short_ctx':
            return {'short_ctx': '%s.%s' % (tag, stage)}
        try:
            ret = next()
        except Exception as e:
            TRACE.append(('exc', stage, tag, type(e).__name__, str(e)))
            if act == 'swallow':
                return Response('swallowed by %s.%s' % (tag, stage))
            raise
        TRACE.append(('leave', stage, tag, describe(ret)))
        if act == 'raise_after':
            raise Boom('%s.%s after' % (tag, stage))
        return ret

    if stage == 'render':
        def func(self, next, context):
            return body(self, next)
    elif stage == 'request':
        def func(self, next, request):
            return body(self, next)
    else:
        def func(self, next):
            return body(self, next)
    func.__name__ = stage
    return func


def make_mw(tag, stages=STAGES, actions=None, unique=True, reorderable=True, cls=None):
    """A tracing middleware; actions: {stage: action}. Passing cls= makes another instance of an
    existing type (equal to the first as far as clastic is concerned)."""
    if cls is None:
        attrs = dict((stage, _make_stage_func(stage)) for stage in stages)
        attrs.update(unique=unique, reorderable=reorderable, stage_names=tuple(stages))
        cls = type('MW%d_%s' % (next(_CLS_COUNTER), tag), (Middleware,), attrs)
    inst = cls()
    inst.tag = tag
    inst.actions = dict(actions or {})
    return inst


def make_endpoint(kind='ctx'):
    def endpoint():
        TRACE.append(('enter', 'EP'))
        if kind == 'raise':
            raise Boom('endpoint')
        if kind == 'resp':
            ret = Response('endpoint response')
        elif kind == 'ctx':
            ret = {'from': 'endpoint'}
        else:
            ret = kind  # any literal context
        TRACE.append(('leave', 'EP', describe(ret)))
        return ret
    return endpoint


def make_render(kind='ok'):
    def render(context):
        TRACE.append(('enter', 'RN', describe(context)))
        if kind == 'raise':
            raise Boom('render')
        ret = Response('rendered %r' % (context,))
        TRACE.append(('leave', 'RN', describe(ret)))
        return ret
    return render


def new_request(path='/'):
    return Request(EnvironBuilder(path=path).get_environ())


def run_route(app, path='/'):
    """Execute the (single) matching bound route directly, so the exact object returned / exception
    raised by the outermost layer is visible. Returns (outcome, trace)."""
    broutes = [br for br in app.routes if br.match_path(path) is not None]
    assert len(broutes) == 1, (path, broutes)
    del TRACE[:]
    try:
        ret = broutes[0].execute(new_request(path))
    except Boom as e:
        outcome = ('exc', type(e).__name__, str(e))
    else:
        outcome = ('ret', describe(ret))
    return outcome, list(TRACE)


# ---------------------------------------------------------------------------------------------
# An independent model of the documented behaviour.

def model(layers, ep_kind='ctx', rn_kind='ok'):
    """layers: the merged middleware list as [(tag, stages, actions)] outermost first."""
    trace = []

    def run_stage(stage, innermost):
        stage_layers = [(tag, acts.get(stage, 'pass')) for tag, stages, acts in layers
                        if stage in stages]

        def go(i):
            if i == len(stage_layers):
                return innermost()
            tag, act = stage_layers[i]
            trace.append(('enter', stage, tag))
            if act == 'raise_before':
                return ('exc', 'Boom', '%s.%s before' % (tag, stage))
            if act == 'short':
                return ('ret', ('R', 'short %s.%s' % (tag, stage)))
            if act == 'short_ctx':
                return ('ret', ('C', repr({'short_ctx': '%s.%s' % (tag, stage)})))
            res = go(i + 1)
            if res[0] == 'exc':
                trace.append(('exc', stage, tag, res[1], res[2]))
                if act == 'swallow':
                    return ('ret', ('R', 'swallowed by %s.%s' % (tag, stage)))
                return res
            trace.append(('leave', stage, tag, res[1]))
            if act == 'raise_after':
                return ('exc', 'Boom', '%s.%s after' % (tag, stage))
            return res
        return go(0)

    def endpoint():
        trace.append(('enter', 'EP'))
        if ep_kind == 'raise':
            return ('exc', 'Boom', 'endpoint')
        if ep_kind == 'resp':
            val = ('R', 'endpoint response')
        elif ep_kind == 'ctx':
            val = ('C', repr({'from': 'endpoint'}))
        else:
            val = ('C', repr(ep_kind))
        trace.append(('leave', 'EP', val))
        return ('ret', val)

    def process_request():
        res = run_stage('endpoint', endpoint)
        if res[0] == 'exc' or res[1][0] == 'R':
            return res  # exception, or the endpoint side produced a Response: no render
        ctx = res[1]

        def render():
            trace.append(('enter', 'RN', ctx))
            if rn_kind == 'raise':
                return ('exc', 'Boom', 'render')
            # repr of the context object itself
            val = ('R', 'rendered %s' % ctx[1])
            trace.append(('leave', 'RN', val))
            return ('ret', val)
        return run_stage('render', render)

    outcome = run_stage('request', process_request)
    return outcome, trace


def merged_model(outer_to_inner_lists):
    """Expected merge: concatenate outermost application's list first; a unique type appears once,
    at its outermost position."""
    merged = []
    for mw_list in outer_to_inner_lists:
        for mw in mw_list:
            if mw.unique and any(type(m) is type(mw) for m in merged):
                continue
            merged.append(mw)
    return merged


def as_layers(mws):
    return [(mw.tag, mw.stage_names, mw.actions) for mw in mws]


def check(app, expected_mws, ep_kind='ctx', rn_kind='ok', path='/', label=''):
    got = run_route(app, path)
    want = model(as_layers(expected_mws), ep_kind, rn_kind)
    assert got == want, '%s\n got: %r\nwant: %r' % (label, got, want)
    return got


def onion_cross_product():
    """Every single deviating function in a 3-middleware stack placed at app / sub-app / route level."""
    n = 0
    for ep_kind, rn_kind in (('ctx', 'ok'), ('resp', 'ok'), ('raise', 'ok'), ('ctx', 'raise')):
        for pos in range(3):
            for stage in STAGES:
                for act in ACTIONS:
                    acts = [{}, {}, {}]
                    acts[pos] = {stage: act}
                    a = make_mw('A', actions=acts[0])
                    b = make_mw('B', actions=acts[1], stages=('request', 'render'))
                    c = make_mw('C', actions=acts[2], stages=('endpoint', 'render', 'request'))
                    ep, rn = make_endpoint(ep_kind), make_render(rn_kind)
                    inner = Application([Route('/x', ep, rn, middlewares=[c])], middlewares=[b])
                    outer = Application([('/sub', inner)], middlewares=[a])
                    check(outer, [a, b, c], ep_kind, rn_kind, path='/sub/x',
                          label='%s/%s pos=%s %s=%s' % (ep_kind, rn_kind, pos, stage, act))
                    n += 1
    return n


def merge_scenarios():
    ep, rn = make_endpoint(), make_render()
    # the same unique type at app, sub-app and route level: kept once, outermost
    u_outer = make_mw('U-outer')
    u_mid = make_mw('U-mid', cls=type(u_outer))
    u_route = make_mw('U-route', cls=type(u_outer))
    x, y, z = make_mw('X'), make_mw('Y'), make_mw('Z')
    inner = Application([Route('/x', ep, rn, middlewares=[z, u_route])], middlewares=[u_mid, y])
    outer = Application([('/sub', inner)], middlewares=[x, u_outer])
    exp = merged_model([[x, u_outer], [u_mid, y], [z, u_route]])
    assert [m.tag for m in exp] == ['X', 'U-outer', 'Y', 'Z']
    check(outer, exp, path='/sub/x', label='unique dedupe')
    assert [m.tag for m in outer.routes[0].middlewares] == ['X', 'U-outer', 'Y', 'Z']
    # the sub application on its own keeps its own instance
    check(inner, merged_model([[u_mid, y], [z, u_route]]), path='/x', label='inner alone')

    # non-unique types are all kept, in order
    n1 = make_mw('N1', unique=False, stages=('request', 'render'))
    n2 = make_mw('N2', cls=type(n1), actions={'render': 'raise_after'})
    n3 = make_mw('N3', cls=type(n1), actions={'render': 'swallow'})
    n4 = make_mw('N4', cls=type(n1))
    inner = Application([Route('/x', ep, rn, middlewares=[n3, n4])], middlewares=[n2])
    outer = Application([('/sub', inner)], middlewares=[n1])
    exp = merged_model([[n1], [n2], [n3, n4]])
    assert [m.tag for m in exp] == ['N1', 'N2', 'N3', 'N4']
    check(outer, exp, path='/sub/x', label='non-unique kept')

    # unique and not reorderable: second inclusion rejected at bind time
    f1 = make_mw('F1', reorderable=False)
    f2 = make_mw('F2', cls=type(f1))
    try:
        Application([Route('/x', ep, rn, middlewares=[f2])], middlewares=[f1])
    except ValueError as e:
        assert 'multiple inclusion of unique middleware' in str(e), e
    else:
        raise AssertionError('non-reorderable duplicate accepted')
    return True


def client_level():
    """End to end through WSGI: a 200 from the onion, a 500 when an exception escapes it."""
    a = make_mw('A')
    app = Application([Route('/', make_endpoint(), make_render(), middlewares=[make_mw('B')])],
                      middlewares=[a])
    resp = app.get_local_client().get('/')
    assert resp.status_code == 200 and resp.get_data(as_text=True) == "rendered {'from': 'endpoint'}"
    a = make_mw('A', actions={'render': 'raise_after'})
    app = Application([Route('/', make_endpoint(), make_render())], middlewares=[a])
    del TRACE[:]
    resp = app.get_local_client().get('/')
    assert resp.status_code == 500
    assert [t[:3] for t in TRACE] == [('enter', 'request', 'A'), ('enter', 'endpoint', 'A'), ('enter', 'EP'),
                                      ('leave', 'EP', ('C', "{'from': 'endpoint'}")),
                                      ('leave', 'endpoint', 'A'), ('enter', 'render', 'A'),
                                      ('enter', 'RN', ('C', "{'from': 'endpoint'}")),
                                      ('leave', 'RN', ('R', "rendered {'from': 'endpoint'}")),
                                      ('leave', 'render', 'A'),
                                      ('exc', 'request', 'A')], TRACE
    return True


# ---------------------------------------------------------------------------------------------
# demo3 focus: build_chain_str / compile_chain -- the generated source nests one def per level,
# funcs[level] being called with `next` bound to the next level in.

def expected_chain_str(arg_name_lists, params, inner_name, sofar=None, level=0):
    """The documented shape, written out independently: headers outermost first, bodies innermost
    first; funcs[i] receives by name those of its arguments available at its level."""
    available = set([inner_name]) if sofar is None else set(sofar)
    headers, bodies = [], []
    for i, (names, level_params) in enumerate(zip(arg_name_lists, params)):
        level_params = list(level_params)
        available.update(level_params)
        ind = '    ' * (level + i)
        headers.append(ind + 'def ' + inner_name + '(' + ', '.join(level_params) + '):\n')
        passed = [n for n in sorted(set(names)) if n in available]
        bodies.append(ind + '    __traceback_hide__ = True\n' +
                      ind + '    return funcs[' + str(level + i) + '](' +
                      ', '.join(n + '=' + n for n in passed) + ')\n')
    return ''.join(headers) + ''.join(reversed(bodies))


def func_with_args(names, n_defaults=0):
    names = list(names)
    split = len(names) - n_defaults
    sig = ', '.join(names[:split] + ['%s=None' % n for n in names[split:]])
    return eval('lambda %s: None' % sig)


def chain_str_cases():
    import random
    from clastic.sinter import build_chain_str
    rnd = random.Random(20240601)
    pool = ['a', 'b', 'c', 'dd', 'request', 'context', '_route', 'x1', 'zeta']

    # fixed small cases first
    assert build_chain_str([], [], 'next') == ''
    assert build_chain_str((), [['a']], 'next') == ''
    assert build_chain_str(None, None, 'next') == ''
    f = func_with_args(['next', 'a'])
    g = func_with_args(['a', 'b', 'c'], 1)
    assert build_chain_str([f, g], [['a', 'c'], ['b']], 'next') == (
        'def next(a, c):\n'
        '    def next(b):\n'
        '        __traceback_hide__ = True\n'
        '        return funcs[1](a=a, b=b, c=c)\n'
        '    __traceback_hide__ = True\n'
        '    return funcs[0](a=a, next=next)\n')
    # 'b' is not available at level 0, 'c' nowhere: left to defaults / to fail at call time
    assert build_chain_str([g, f], [['a'], ['b']], 'nxt', level=2) == (
        '        def nxt(a):\n'
        '            def nxt(b):\n'
        '                __traceback_hide__ = True\n'
        '                return funcs[3](a=a)\n'
        '            __traceback_hide__ = True\n'
        '            return funcs[2](a=a)\n')

    n = 0
    for _ in range(400):
        depth = rnd.randint(1, 7)
        inner_name = rnd.choice(['next', 'next', 'inner', '_n'])
        level = rnd.choice([0, 0, 0, 1, 3])
        arg_lists, funcs, params = [], [], []
        for _i in range(depth):
            names = rnd.sample(pool, rnd.randint(0, 5))
            if rnd.random() < 0.7:
                names.insert(0, inner_name)
            arg_lists.append(names)
            funcs.append(func_with_args(names, rnd.randint(0, len(names))))
            params.append(rnd.choice([tuple, list])(rnd.sample(pool, rnd.randint(0, 4))))
        if rnd.random() < 0.3:
            params.append(('extra',))  # surplus params are ignored
        sofar = rnd.choice([None, None, set(), set(['a', 'zeta']), set([inner_name, 'request'])])
        sofar_arg = None if sofar is None else set(sofar)
        seq = rnd.choice([list, tuple])
        got = build_chain_str(seq(funcs), seq(params), inner_name, sofar_arg, level)
        want = expected_chain_str(arg_lists, params, inner_name, sofar, level)
        assert got == want, '\n%s\n----\n%s' % (got, want)
        if sofar_arg is not None:
            # the caller's set is updated in place with every level's params
            assert sofar_arg == set(sofar).union(*[set(p) for p in params[:depth]]), sofar_arg
        n += 1

    # too few params: IndexError once the levels run out, the set updated up to that point
    sofar = set()
    try:
        build_chain_str([f, f, f], [['a'], ['b']], 'next', sofar)
    except IndexError:
        assert sofar == {'a', 'b'}, sofar
    else:
        raise AssertionError('no IndexError')
    # a level that cannot be introspected fails when reached: params of levels up to and including
    # it have been recorded, later ones not
    sofar = set()
    try:
        build_chain_str([f, 42, f], [['a'], ['b'], ['c']], 'next', sofar)
    except Exception as e:
        assert not isinstance(e, IndexError)
        assert sofar == {'a', 'b'}, sofar
    else:
        raise AssertionError('no error')
    # non-string params fail in the join of their own level, after that level's introspection
    sofar = set()
    try:
        build_chain_str([f, f], [['a'], [1]], 'next', sofar)
    except TypeError:
        assert sofar == {'a', 1}, sofar
    else:
        raise AssertionError('no TypeError')
    return n


def compiled_chain_cases():
    from clastic.sinter import compile_chain, make_chain
    log = []

    def layer(i):
        def mw(next, base):
            log.append(('in', i, base))
            ret = next(**{'v%d' % i: base + i})
            log.append(('out', i))
            return ret
        return mw

    def make_final(depth):
        names = ['v%d' % i for i in range(depth)]
        src = 'lambda base, %s: log.append(("final", %s)) or (%s)' % (
            ', '.join(names), ' + '.join(names), ' + '.join(names))
        return eval(src if depth else 'lambda base: log.append(("final", 0)) or 0', {'log': log})

    for depth in (0, 1, 2, 5, 20, 60, 90):
        funcs = [layer(i) for i in range(depth)] + [make_final(depth)]
        params = [['base']] + [['v%d' % i] for i in range(depth)]
        chain = compile_chain(funcs, params, 'next')
        del log[:]
        total = sum(100 + i for i in range(depth))
        assert chain(base=100) == total
        assert log == ([('in', i, 100) for i in range(depth)] + [('final', total)] +
                       [('out', i) for i in reversed(range(depth))]), (depth, log)
        assert chain(100) == total  # level 0 takes its params positionally, too

    # deeper than the tokenizer's 100 indentation levels: cannot be compiled
    for depth in (100, 130):
        funcs = [layer(i) for i in range(depth)] + [make_final(depth)]
        params = [['base']] + [['v%d' % i] for i in range(depth)]
        try:
            compile_chain(funcs, params, 'next')
        except SyntaxError:
            pass
        else:
            raise AssertionError('compiled %d levels' % depth)
    return True


if __name__ == '__main__':
    n0 = chain_str_cases()
    assert compiled_chain_cases()
    n2 = onion_cross_product()
    assert merge_scenarios()
    assert client_level()
    print('checked %d generated sources, %d stacks' % (n0, n2))
    print('PASS')
