# -*- coding: utf-8 -*-
"""demo2: uncaught failures become the error handler's 500
(focus: ErrorHandler / ContextualErrorHandler / REPLErrorHandler
.uncaught_to_response in clastic/errors.py).
"""
import re
import json

from werkzeug.test import EnvironBuilder
from werkzeug.wrappers import Response
from boltons.tbutils import ExceptionInfo, ContextualExceptionInfo

from clastic import Application, SubApplication, render_basic
from clastic.errors import (ErrorHandler, ContextualErrorHandler,
                            REPLErrorHandler, InternalServerError,
                            ContextualInternalServerError, BadGateway,
                            Forbidden, HTTPException)
from clastic.middleware import Middleware


def call(app, path='/', method='GET', accept=None):
    headers = {}
    if accept is not None:
        headers['Accept'] = accept
    env = EnvironBuilder(path=path, method=method, headers=headers).get_environ()
    started = []

    def start_response(status, hdrs, exc_info=None):
        started.append((status, hdrs))

    body = b''.join(app(env, start_response))
    assert len(started) == 1
    status, hdrs = started[0]
    return int(status[:3]), dict((k.lower(), v) for k, v in hdrs), body


# --- 1. direct calls: evaluation order, provenance of the types, results ---

LOG = []


class LoggingExcInfo(ExceptionInfo):
    @classmethod
    def from_current(cls):
        LOG.append('from_current')
        return super(LoggingExcInfo, cls).from_current()

    def __repr__(self):
        LOG.append('repr')
        return super(LoggingExcInfo, self).__repr__()


class LoggingISE(ContextualInternalServerError):
    def __init__(self, *a, **kw):
        LOG.append(('construct', len(a), sorted(kw)))
        super(LoggingISE, self).__init__(*a, **kw)


class DuckHandler(object):
    """What _application.error_handler returns: NOT the handler being called."""
    @property
    def exc_info_type(self):
        LOG.append('exc_info_type')
        return LoggingExcInfo

    @property
    def server_error_type(self):
        LOG.append('server_error_type')
        return LoggingISE


class FakeApp(object):
    @property
    def error_handler(self):
        LOG.append('error_handler')
        return DuckHandler()


class LoggingCtxHandler(ContextualErrorHandler):
    @property
    def hide_internal_frames(self):
        LOG.append('hide_internal_frames')
        return self._hif

    @hide_internal_frames.setter
    def hide_internal_frames(self, value):
        self._hif = value


def in_except(func, exc=None):
    """Run func() while `exc` is the exception being handled."""
    exc = exc if exc is not None else ValueError('direct \xe9')
    try:
        raise exc
    except Exception:
        return func()


def test_direct_default():
    for kw in ({}, {'reraise_uncaught': False}, {'reraise_uncaught': 0},
               {'reraise_uncaught': ''}, {'reraise_uncaught': None},
               {'reraise_uncaught': []}, {'unrelated': 1}):
        handler = ErrorHandler(**kw)
        del LOG[:]
        resp = in_except(lambda: handler.uncaught_to_response(
            _application=FakeApp(), _route='ROUTE', request='REQ',
            _error='ignored', _dispatch_state=None, whatever=3))
        assert LOG == ['error_handler', 'exc_info_type', 'from_current',
                       'server_error_type', 'repr',
                       ('construct', 1, ['exc_info', 'source_route'])], LOG
        assert type(resp) is LoggingISE
        assert resp.code == 500 and resp.status_code == 500
        assert resp.source_route == 'ROUTE'
        assert type(resp.exc_info) is LoggingExcInfo
        assert resp.exc_info.exc_type == 'ValueError'
        assert resp.exc_info.exc_msg == 'direct \xe9'
        assert resp.detail == repr(resp.exc_info)
        assert resp.request is None  # default handler does not forward it
        assert resp.hide_internal_frames is True
        assert resp.error_type.endswith('#exceptions.ValueError')
        assert len(resp.exc_info.tb_info.frames) == 1


def test_direct_contextual():
    for hif in (True, False, 0, 'x', None):
        for extra in ({}, {'request': 'REQ'}, {'request': None, 'z': 1}):
            handler = LoggingCtxHandler(hide_internal_frames=hif)
            del LOG[:]
            resp = in_except(lambda: handler.uncaught_to_response(
                _application=FakeApp(), _route='ROUTE', **extra),
                exc=KeyError('kk'))
            assert LOG == ['error_handler', 'exc_info_type', 'from_current',
                           'server_error_type', 'repr', 'hide_internal_frames',
                           ('construct', 1, ['exc_info', 'hide_internal_frames',
                                             'request', 'source_route'])], LOG
            assert type(resp) is LoggingISE and resp.code == 500
            assert resp.source_route == 'ROUTE'
            assert resp.request == extra.get('request')
            assert resp.hide_internal_frames is hif
            assert resp.exc_info.exc_type == 'KeyError'
            assert resp.detail == repr(resp.exc_info)
            assert resp.error_type.endswith('#exceptions.KeyError')
    # ContextualErrorHandler never looks at reraise_uncaught
    handler = ContextualErrorHandler(reraise_uncaught=True)
    assert handler.reraise_uncaught is True
    resp = in_except(lambda: handler.uncaught_to_response(
        _application=FakeApp(), _route=None))
    assert type(resp) is LoggingISE
    # real types when the application's handler is the handler itself
    handler = ContextualErrorHandler()

    class App(object):
        error_handler = handler
    resp = in_except(lambda: handler.uncaught_to_response(App, 'R', request='Q'))
    assert type(resp) is ContextualInternalServerError
    assert type(resp.exc_info) is ContextualExceptionInfo
    assert (resp.request, resp.source_route) == ('Q', 'R')
    handler = ErrorHandler()

    class App2(object):
        error_handler = handler
    resp = in_except(lambda: handler.uncaught_to_response(App2, 'R', request='Q'))
    assert type(resp) is InternalServerError
    assert type(resp.exc_info) is ExceptionInfo
    assert not hasattr(resp, 'request')
    # a custom, non-stdlib exception gets no error_type link
    class Custom(Exception):
        pass
    resp = in_except(lambda: handler.uncaught_to_response(App2, 'R'), exc=Custom('c'))
    assert resp.error_type is None and 'Custom' in resp.detail


def test_direct_reraise():
    for truthy in (True, 1, 'yes', [0], object()):
        handler = ErrorHandler(reraise_uncaught=truthy)
        marker = LookupError('marker')
        del LOG[:]
        try:
            in_except(lambda: handler.uncaught_to_response(
                _application=FakeApp(), _route=None), exc=marker)
        except LookupError as e:
            assert e is marker
        else:
            raise AssertionError('expected re-raise')
        assert LOG == [], LOG  # nothing is looked up before re-raising
    marker = LookupError('marker2')
    for call_it in (lambda: REPLErrorHandler().uncaught_to_response(),
                    lambda: REPLErrorHandler().uncaught_to_response(
                        _application=FakeApp(), _route=None, request=1)):
        try:
            in_except(call_it, exc=marker)
        except LookupError as e:
            assert e is marker
        else:
            raise AssertionError('expected re-raise')
    # signature: _application and _route are required for the first two
    for handler in (ErrorHandler(), ContextualErrorHandler()):
        for kwargs in ({}, {'_application': FakeApp()}, {'_route': None}):
            try:
                in_except(lambda: handler.uncaught_to_response(**kwargs))
            except TypeError:
                pass
            else:
                raise AssertionError('expected TypeError')


def test_outside_except():
    class App(object):
        error_handler = ErrorHandler()
    for handler, exc_type in ((ErrorHandler(), AttributeError),
                              (ContextualErrorHandler(), AttributeError),
                              (ErrorHandler(reraise_uncaught=True), RuntimeError),
                              (REPLErrorHandler(), RuntimeError)):
        try:
            handler.uncaught_to_response(_application=App, _route=None)
        except exc_type:
            pass
        else:
            raise AssertionError('expected %r' % exc_type)


# --- 2. through a real application ---

def boom():
    raise ValueError('boom <&> \xe9')


def chained():
    try:
        {}['missing']
    except KeyError:
        raise RuntimeError('second failure')


def junk():
    return 17


class BoomMW(Middleware):
    def request(self, next, request):
        if request.args.get('mw'):
            raise OSError('from middleware')
        return next()


def frames_in_text(body):
    match = re.search(br'\((\d+) frames', body)
    assert match, body[:300]
    return int(match.group(1))


def test_app_default_and_contextual():
    routes = [('/boom', boom), ('/chained', chained), ('/junk', junk),
              ('/ok', lambda: Response('ok')), ('/f', lambda: Forbidden())]
    plain = Application(routes, middlewares=[BoomMW()])
    assert type(plain.error_handler) is ErrorHandler
    debug = Application(routes, middlewares=[BoomMW()], debug=True)
    assert type(debug.error_handler) is ContextualErrorHandler
    ctx = Application(routes, middlewares=[BoomMW()],
                      error_handler=ContextualErrorHandler(hide_internal_frames=False))

    for path, exc_name, msg in (('/boom', b'ValueError', b'boom'),
                                ('/chained', b'RuntimeError', b'second failure'),
                                ('/junk', b'TypeError', b'expected Response'),
                                ('/ok?mw=1', b'OSError', b'from middleware')):
        for accept in (None, 'text/plain', 'text/html', 'application/json',
                       'application/xml', 'x/y'):
            status, hdrs, body = call(plain, path, accept=accept)
            assert status == 500 and exc_name in body and msg in body, body[:300]
            n_plain = frames_in_text(body)
            for app in (debug, ctx):
                status, hdrs, body = call(app, path, accept=accept)
                assert status == 500, status
                assert exc_name in body and msg in body, body[:300]
                if accept == 'text/html':
                    assert hdrs['content-type'].startswith('text/html')
                    assert b'<html' in body.lower()
                if accept == 'application/json':
                    data = json.loads(body.decode('utf8'))
                    assert data['code'] == 500
                    assert data['exc_type'] == exc_name.decode('ascii')
                    assert len(data['exc_tb']['frames']) == n_plain
                    assert data['req']['path'] == path.partition('?')[0]
                    assert data['req']['method'] == 'GET'
                    assert 'exc_info' not in data
                    hidden = [f for f in data['exc_tb']['frames'] if f.get('is_hidden')]
                    if app is ctx:
                        assert not hidden
                    elif path != '/junk':
                        assert hidden  # sinter.inject frames are hidden by default
        if path == '/junk':
            assert n_plain == 1
        else:
            assert n_plain >= 3
        for app in (plain, debug, ctx):
            assert call(app, '/ok')[::2] == (200, b'ok')
            assert call(app, '/f')[0] == 403
            assert call(app, '/nope')[0] == 404

    status, hdrs, body = call(plain, '/boom', accept='application/json')
    data = json.loads(body.decode('utf8'))
    assert data['exc_info']['exc_type'] == 'ValueError'
    assert data['exc_info']['exc_msg'] == 'boom <&> \xe9'
    assert data['error_type'].endswith('#exceptions.ValueError')
    status, hdrs, body = call(plain, '/boom', accept='text/html')
    assert b'boom &lt;&amp;&gt;' in body


def test_app_custom_types():
    class TeapotError(InternalServerError):
        code = 502
        message = 'custom server error'

    class MyExcInfo(ExceptionInfo):
        pass

    class CustomHandler(ErrorHandler):
        server_error_type = TeapotError
        exc_info_type = MyExcInfo

    seen = []

    class Spy(CustomHandler):
        def render_error(self, request, _error, **kwargs):
            seen.append(_error)
            return super(Spy, self).render_error(request, _error)

    inner = Application([('/boom', boom), ('/junk', junk)])  # default handler
    outer = Application([SubApplication('/sub', inner), ('/boom', boom)],
                        error_handler=Spy())
    for path in ('/boom', '/sub/boom', '/sub/junk'):
        status, hdrs, body = call(outer, path)
        assert status == 502 and b'custom server error' in body, (path, status)
        err = seen[-1]
        assert type(err) is TeapotError and type(err.exc_info) is MyExcInfo
        assert err.source_route in outer.routes
        assert err.source_route.pattern == path
    # the inner application on its own still uses its own handler
    assert call(inner, '/boom')[0] == 500

    # instance-level override of the types is honoured as well
    handler = ErrorHandler()
    handler.server_error_type = TeapotError
    app = Application([('/boom', boom)], error_handler=handler)
    assert call(app, '/boom')[0] == 502

    # subclass extending the default via super()
    class Tagging(ErrorHandler):
        def uncaught_to_response(self, _application, _route, **kwargs):
            resp = super(Tagging, self).uncaught_to_response(_application, _route, **kwargs)
            resp.headers['X-Tagged'] = kwargs['_error'].__class__.__name__
            return resp

    class TaggingCtx(ContextualErrorHandler):
        def uncaught_to_response(self, **kwargs):
            resp = super(TaggingCtx, self).uncaught_to_response(**kwargs)
            resp.headers['X-Tagged'] = kwargs['_error'].__class__.__name__
            assert resp.request is kwargs['request']
            return resp

    for eh in (Tagging(), TaggingCtx()):
        app = Application([('/boom', boom), ('/junk', junk)], error_handler=eh)
        status, hdrs, body = call(app, '/boom', accept='text/html')
        assert status == 500 and hdrs['x-tagged'] == 'ValueError'
        status, hdrs, body = call(app, '/junk')
        assert status == 500 and hdrs['x-tagged'] == 'TypeError'


def test_app_odd_handlers():
    class PlainResponse(ErrorHandler):
        def uncaught_to_response(self, **kwargs):
            return Response('handled quietly', status=218)

    app = Application([('/boom', boom)], error_handler=PlainResponse())
    assert call(app, '/boom')[::2] == (218, b'handled quietly')

    class HandlerFails(ErrorHandler):
        def uncaught_to_response(self, **kwargs):
            raise KeyError('handler failed')

    app = Application([('/boom', boom), ('/ok', lambda: Response('ok'))],
                      error_handler=HandlerFails())
    try:
        call(app, '/boom')
    except KeyError as e:
        assert e.args == ('handler failed',)
    else:
        raise AssertionError('expected KeyError')
    assert call(app, '/ok')[0] == 200

    for handler in (ErrorHandler(reraise_uncaught=True), ):
        marker = ZeroDivisionError('marker')

        def ep():
            raise marker
        app = Application([('/', ep), ('/ok', lambda: Response('ok'))],
                          error_handler=handler)
        for _ in range(3):
            try:
                call(app, '/')
            except ZeroDivisionError as e:
                assert e is marker
            else:
                raise AssertionError('expected escape')
            assert call(app, '/ok')[0] == 200

    # Contextual handler ignores reraise_uncaught: still a 500 response
    app = Application([('/boom', boom)],
                      error_handler=ContextualErrorHandler(reraise_uncaught=True))
    assert call(app, '/boom')[0] == 500


def main():
    test_direct_default()
    test_direct_contextual()
    test_direct_reraise()
    test_outside_except()
    test_app_default_and_contextual()
    test_app_custom_types()
    test_app_odd_handlers()
    print('PASS')


if __name__ == '__main__':
    main()
