# -*- coding: utf-8 -*-
"""demo1: middleware collection (_get_all_middlewares) and application
isolation / non-destructive binding / atomic add().

Prints PASS and exits 0 on unmodified code and with patch1.diff applied.
"""
import os
import sys
import warnings

warnings.simplefilter('ignore')
sys.path.insert(0, os.path.dirname(os.path.abspath(__file__)))

from werkzeug.wrappers import Response

from clastic import Application, Route, SubApplication, Middleware
from clastic.application import _get_all_middlewares
from clastic.route import InvalidPattern

TRACE = []


def make_wrapper_mw(label, provides=()):
    """A middleware *type* (eq is by type) whose wsgi_wrapper records calls."""
    def wsgi_wrapper(self, inner):
        tag = self.tag

        def wrapped(environ, start_response):
            TRACE.append(tag)
            return inner(environ, start_response)
        return wrapped
    cls = type('MW_' + label, (Middleware,), {'wsgi_wrapper': wsgi_wrapper,
                                              'provides': tuple(provides)})
    return cls


class FakeBoundRoute(object):
    def __init__(self, middlewares):
        self.middlewares = middlewares


class Unhashable(object):
    "mw stand-in that is comparable but not hashable"
    __hash__ = None

    def __init__(self, key):
        self.key = key

    def __eq__(self, other):
        return isinstance(other, Unhashable) and other.key == self.key

    def __ne__(self, other):
        return not self == other

    def __repr__(self):
        return 'U(%r)' % (self.key,)


def get(app, path):
    resp = app.get_local_client().get(path)
    return resp.status_code, resp.get_data(True)


def patterns(app):
    return [r.pattern for r in app.routes]


def ep(text):
    def endpoint():
        return Response(text)
    return endpoint


def test_get_all_middlewares_unit():
    # empty inputs
    assert _get_all_middlewares([]) == []
    assert _get_all_middlewares([], ()) == []
    assert _get_all_middlewares([], []) == []
    res = _get_all_middlewares([], ())
    assert type(res) is list

    # order: app mws first (in order), then routes' mws, last route first
    u = [Unhashable(i) for i in range(8)]
    r1 = FakeBoundRoute((u[2], u[3]))
    r2 = FakeBoundRoute((u[4], u[2], u[5]))
    r3 = FakeBoundRoute(())
    res = _get_all_middlewares([r1, r2, r3], [u[0], u[1]])
    assert [m.key for m in res] == [0, 1, 4, 2, 5, 3], res
    # identity of the first-seen object is kept
    assert res[3] is u[2]

    # duplicates (by ==) inside the app middlewares collapse to the first
    a0, a0b = Unhashable('a'), Unhashable('a')
    res = _get_all_middlewares([FakeBoundRoute([a0b, Unhashable('b')])], (a0, a0b))
    assert len(res) == 2 and res[0] is a0 and res[1].key == 'b'

    # app middleware given as a one-shot iterator is consumed exactly once
    res = _get_all_middlewares([r1], iter([u[6], u[2]]))
    assert [m.key for m in res] == [6, 2, 3]

    # routes' middlewares may be any iterable (tuple, list, generator)
    res = _get_all_middlewares([FakeBoundRoute(iter([u[1]])), FakeBoundRoute([u[7]])])
    assert [m.key for m in res] == [7, 1]

    # arguments are not mutated
    app_mws = [u[0], u[0]]
    routes = [r1, r2]
    _get_all_middlewares(routes, app_mws)
    assert app_mws == [u[0], u[0]] and len(app_mws) == 2
    assert routes == [r1, r2]
    assert r1.middlewares == (u[2], u[3])

    # falsy-but-present middleware objects are still collected
    class Falsy(Unhashable):
        def __bool__(self):
            return False
        __nonzero__ = __bool__
    f = Falsy('f')
    res = _get_all_middlewares([FakeBoundRoute((f,))], [None, 0])
    assert res[0] is None and res[1] == 0 and res[2] is f

    # a non-reversible routes argument is an error
    try:
        _get_all_middlewares((r for r in [r1]), [])
    except TypeError:
        pass
    else:
        raise AssertionError('expected TypeError')


def test_wsgi_wrapper_order():
    A, B, C, D = [make_wrapper_mw(x) for x in 'ABCD']

    def mk(cls, tag):
        mw = cls()
        mw.tag = tag
        return mw

    a, b = mk(A, 'a'), mk(B, 'b')
    c, d, b2 = mk(C, 'c'), mk(D, 'd'), mk(B, 'b2')
    r1 = Route('/one', ep('one'), middlewares=[c])
    r2 = Route('/two', ep('two'), middlewares=[d, b2])
    app = Application([r1, r2], middlewares=[a, b])

    # BoundRoute.middlewares: app mws first, then the route's own
    assert [m.tag for m in app.routes[0].middlewares] == ['a', 'b', 'c']
    # b2 == b (same type), unique and reorderable -> dropped
    assert [m.tag for m in app.routes[1].middlewares] == ['a', 'b', 'd']

    all_mws = _get_all_middlewares(app.routes, app.middlewares)
    assert [m.tag for m in all_mws] == ['a', 'b', 'd', 'c']

    del TRACE[:]
    assert get(app, '/one') == (200, 'one')
    # first collected middleware is the outermost wrapper
    assert TRACE == ['a', 'b', 'd', 'c'], TRACE
    del TRACE[:]
    assert get(app, '/nope')[0] == 404
    assert TRACE == ['a', 'b', 'd', 'c'], TRACE

    # the app without routes still gets its own middlewares' wrappers
    a2 = mk(A, 'a2')
    empty = Application([], middlewares=[a2])
    empty.add(('/late', ep('late')))
    del TRACE[:]
    assert get(empty, '/late') == (200, 'late')
    assert TRACE == ['a2']

    # two apps sharing the same Route objects: independent wrappers
    other = Application([r2, r1])
    del TRACE[:]
    assert get(other, '/two') == (200, 'two')
    assert TRACE == ['c', 'd', 'b2'], TRACE
    del TRACE[:]
    assert get(app, '/two') == (200, 'two')
    assert TRACE == ['a', 'b', 'd', 'c'], TRACE
    # unbound routes untouched
    assert [m.tag for m in r1.middlewares] == ['c']
    assert [m.tag for m in r2.middlewares] == ['d', 'b2']

    # embedding: sub app's middlewares travel with its routes
    parent = Application([('/sub', app), ('/top', ep('top'))])
    assert patterns(parent) == ['/sub/one', '/sub/two', '/top']
    assert patterns(app) == ['/one', '/two']
    del TRACE[:]
    assert get(parent, '/sub/two') == (200, 'two')
    # routes reversed: /top (none), /sub/two (a, b, d), /sub/one (c)
    assert TRACE == ['a', 'b', 'd', 'c'], TRACE
    del TRACE[:]
    assert get(app, '/one') == (200, 'one')
    assert TRACE == ['a', 'b', 'd', 'c'], TRACE


def test_isolation_and_atomic_add():
    def needs_x(x):
        return Response('x=%s' % x)

    shared = Route('/shared/<n:int>', lambda n: Response('n=%d' % n))
    app_a = Application([('/a', ep('a')), shared], resources={'x': 1})
    app_b = Application([shared, ('/b', ep('b'))])
    app_a.add(('/x', needs_x))
    model_a = ['/a', '/shared/<n:int>', '/x']
    model_b = ['/shared/<n:int>', '/b']

    def check():
        assert patterns(app_a) == model_a, patterns(app_a)
        assert patterns(app_b) == model_b, patterns(app_b)
        assert get(app_a, '/a') == (200, 'a')
        assert get(app_a, '/x') == (200, 'x=1')
        assert get(app_a, '/shared/7') == (200, 'n=7')
        assert get(app_b, '/shared/8') == (200, 'n=8')
        assert get(app_b, '/b') == (200, 'b')
        assert get(app_b, '/a')[0] == 404
        assert get(app_a, '/b')[0] == 404
        assert shared.pattern == '/shared/<n:int>'
        assert shared.middlewares == [] and shared.resources == {}
    check()

    # failing adds: unresolved dependency, bad tuple, conflict, bad pattern
    class ProvX(Middleware):
        provides = ('x',)

        def request(self, next):
            return next(x=2)

    failing = [
        (('/needs', needs_x), NameError, app_b),          # unresolved in b
        (('/bad', 'not callable'), TypeError, app_a),
        (Route('/c', needs_x, middlewares=[ProvX()]), NameError, app_a),  # conflict
        (('no-slash', app_b), InvalidPattern, app_a),     # bad pattern via prefix
    ]
    for entry, exc_type, target in failing:
        for index in (None, 0, 1):
            try:
                target.add(entry, index=index)
            except exc_type:
                pass
            else:
                raise AssertionError('expected %r for %r' % (exc_type, entry))
            check()

    # sub application whose 2nd route cannot be bound in the parent
    # (its middleware provides 'x', which conflicts with app_a's resource 'x')
    inner = Application([('/ok', ep('ok')),
                         Route('/needs', needs_x, middlewares=[ProvX()]),
                         ('/ok2', ep('ok2'))])
    for index in (None, 0, 1, 2):
        try:
            app_a.add(('/in', inner), index=index)
        except NameError:
            pass
        else:
            raise AssertionError('expected NameError')
        check()
        assert patterns(inner) == ['/ok', '/needs', '/ok2']
        assert get(inner, '/needs') == (200, 'x=2')

    # the same works where there is no conflict; inserted contiguously
    app_b.add(SubApplication('/in/', inner), index=1)
    model_b[1:1] = ['/in/ok', '/in/needs', '/in/ok2']
    check()
    assert get(app_b, '/in/needs') == (200, 'x=2')
    assert get(inner, '/needs') == (200, 'x=2')
    assert patterns(inner) == ['/ok', '/needs', '/ok2']
    app_a.add(shared, index=0)
    model_a.insert(0, '/shared/<n:int>')
    check()


if __name__ == '__main__':
    test_get_all_middlewares_unit()
    test_wsgi_wrapper_order()
    test_isolation_and_atomic_add()
    print('PASS')
