# -*- coding: utf-8 -*-
"""demo3: the report and the reset endpoint -- totals are exact (also past the
sample capacity), the reset hands back the totals so far and counting starts
again from zero; structure, key order and error cases of the report."""
import datetime
import json
import random
import sys
import warnings

warnings.simplefilter('ignore')

from boltons.statsutils import Stats

from clastic import Application
from clastic.errors import NotImplemented as ClasticNotImplemented
from clastic.errors import Forbidden
from clastic.render import render_basic
from clastic.middleware import stats as stats_mod
from clastic.middleware.stats import (StatsMiddleware, RouteStatReservoir,
                                      create_stats_app, get_stats_dict,
                                      get_and_reset_stats_dict, _get_stats_mw,
                                      _get_route_stats, Hit)

QUANTILES = [0.25, 0.5, 0.75, 0.95, 0.99]


class FakeApp(object):
    def __init__(self, middlewares):
        self.middlewares = middlewares

    def __repr__(self):
        return '<FakeApp>'


class FakeRoute(object):
    def __init__(self, pattern):
        self.pattern = pattern


class FakeRequest(object):
    path = '/x'


class Resp(object):
    status_code = 200
    content_type = 'text/plain'


class FakeClock(object):
    def __init__(self):
        self.now = 5000.0
        self.rng = random.Random(4)

    def time(self):
        self.now += self.rng.choice([0.001, 0.0125, 0.25, 1.5])
        return self.now


def expected_summary(rsr):
    durs = [round(h.duration * 1000, 2) for h in rsr]
    exp = Stats(durs).describe(quantiles=QUANTILES, format='dict')
    # boltons already has a 'count' (of the sample); it is overwritten in place
    assert list(exp.keys())[0] == 'count'
    exp_keys = list(exp.keys()) + ['last_hit', 'total_duration']
    exp['count'] = rsr.total_count
    exp['last_hit'] = datetime.datetime.fromtimestamp(rsr.last_hit).isoformat()
    exp['total_duration'] = round(rsr.total_duration * 1000, 2)
    return exp, exp_keys


def feed(mw, route, n_ok, n_fail):
    resp = Resp()

    def boom():
        raise Forbidden()
    for _ in range(n_ok):
        assert mw.request(lambda: resp, FakeRequest(), route) is resp
    for _ in range(n_fail):
        try:
            mw.request(boom, FakeRequest(), route)
        except Forbidden:
            pass
        else:
            raise AssertionError('expected Forbidden')


def check_report(data, mw, want_counts, reset_flag):
    assert type(data) is dict
    keys = ['route_stats', 'start_time_utc', 'cur_time_utc']
    assert list(data.keys()) == keys + (['reset'] if reset_flag else [])
    if reset_flag:
        assert data['reset'] is True
    assert data['start_time_utc'] <= data['cur_time_utc']
    rstats = data['route_stats']
    assert type(rstats) is dict
    got_counts = dict((p, dict((s, d['count']) for s, d in bs.items()))
                      for p, bs in rstats.items())
    assert got_counts == want_counts, (got_counts, want_counts)
    return rstats


def check_direct():
    real_time = stats_mod.time
    stats_mod.time = FakeClock()
    try:
        mw = StatsMiddleware()
        other = StatsMiddleware()   # a second one is never consulted
        app = FakeApp([object(), mw, other])
        assert _get_stats_mw(app) is mw

        # nothing yet
        data = get_stats_dict(app)
        check_report(data, mw, {}, False)
        assert data['start_time_utc'] == mw.last_reset.isoformat()

        rt_a, rt_b, rt_idle = FakeRoute('/a'), FakeRoute('/b/<x>'), FakeRoute('/idle')
        feed(mw, rt_a, 7, 2)
        feed(mw, rt_b, 0, 3)
        assert len(mw.route_hits[rt_idle]) == 0   # touched, but never hit
        want = {'/a': {'200': 7, '403': 2}, '/b/<x>': {'403': 3}}

        data = get_stats_dict(app)
        rstats = check_report(data, mw, want, False)
        assert list(rstats.keys()) == ['/a', '/b/<x>']
        assert list(rstats['/a'].keys()) == ['200', '403']
        for rt in (rt_a, rt_b):
            for status, rsr in mw.route_hits[rt].items():
                exp, exp_keys = expected_summary(rsr)
                got = rstats[rt.pattern][status]
                assert type(got) is dict
                assert list(got.keys()) == exp_keys, (list(got.keys()), exp_keys)
                assert got == exp, (got, exp)
        # the private per-route helper gives the same thing
        assert _get_route_stats(mw.route_hits[rt_a]) == rstats['/a']
        assert _get_route_stats({}) == {}
        # reading does not disturb anything and builds fresh dicts each time
        again = get_stats_dict(app)
        assert again['route_stats'] == rstats
        assert again is not data and again['route_stats'] is not rstats
        assert again['route_stats']['/a']['200'] is not rstats['/a']['200']
        rstats['/a']['200']['count'] = -1
        assert get_stats_dict(app)['route_stats']['/a']['200']['count'] == 7
        assert len(other.route_hits) == 0

        # past the sample capacity: totals exact, the summary is of the sample
        rsr = mw.route_hits[rt_a]['200']
        rsr.resize(4)
        random.seed(8)
        feed(mw, rt_a, 300, 0)
        assert rsr.total_count == 307 and len(list(rsr)) == 4
        want['/a']['200'] = 307
        data = get_stats_dict(app)
        rstats = check_report(data, mw, want, False)
        exp, _ = expected_summary(rsr)
        assert rstats['/a']['200'] == exp and exp['count'] == 307
        assert rstats['/a']['200']['total_duration'] == round(rsr.total_duration * 1000, 2)

        # two distinct routes sharing one pattern: one key, the later wins
        rt_a2 = FakeRoute('/a')
        feed(mw, rt_a2, 1, 0)
        data = get_stats_dict(app)
        assert list(data['route_stats'].keys()) == ['/a', '/b/<x>']
        assert data['route_stats']['/a'] == _get_route_stats(mw.route_hits[rt_a2])
        assert data['route_stats']['/a']['200']['count'] == 1
        del mw.route_hits[rt_a2]

        # reset endpoint: totals so far, then zero
        old_table, old_reset = mw.route_hits, mw.last_reset
        data = get_and_reset_stats_dict(app)
        check_report(data, mw, want, True)
        assert data['start_time_utc'] == old_reset.isoformat()
        assert mw.route_hits is not old_table and len(mw.route_hits) == 0
        assert mw.last_reset >= old_reset and mw.last_reset is not old_reset
        assert old_table[rt_a]['200'].total_count == 307   # old table untouched
        data = get_stats_dict(app)
        check_report(data, mw, {}, False)
        assert data['start_time_utc'] == mw.last_reset.isoformat()
        feed(mw, rt_a, 2, 0)
        check_report(get_stats_dict(app), mw, {'/a': {'200': 2}}, False)
        check_report(get_and_reset_stats_dict(app), mw, {'/a': {'200': 2}}, True)
        check_report(get_and_reset_stats_dict(app), mw, {}, True)
        assert len(other.route_hits) == 0

        # a subclass' own reset() is what the endpoint runs
        class CountingResets(StatsMiddleware):
            n_resets = 0

            def reset(self):
                self.n_resets += 1
                StatsMiddleware.reset(self)
        sub = CountingResets()
        assert sub.n_resets == 1
        sub_app = FakeApp([sub])
        feed(sub, rt_b, 1, 1)
        check_report(get_and_reset_stats_dict(sub_app), sub,
                     {'/b/<x>': {'200': 1, '403': 1}}, True)
        assert sub.n_resets == 2
        check_report(get_stats_dict(sub_app), sub, {}, False)
        assert sub.n_resets == 2

        # a reservoir that exists but never got a hit cannot be summarised
        mw.route_hits[rt_b]['weird']
        try:
            get_stats_dict(app)
        except TypeError:
            pass
        else:
            raise AssertionError('expected TypeError')
        mw.reset()

        # not installed
        for endpoint in (get_stats_dict, get_and_reset_stats_dict, _get_stats_mw):
            for bare in (FakeApp([]), FakeApp([object()])):
                try:
                    endpoint(bare)
                except ClasticNotImplemented as exc:
                    assert 'StatsMiddleware not installed on app <FakeApp>' in str(exc.detail or exc)
                else:
                    raise AssertionError('expected NotImplemented')
    finally:
        stats_mod.time = real_time


def hello():
    return 'hi'


def denied():
    raise Forbidden()


def check_through_http():
    mw = StatsMiddleware()
    app = Application([('/', hello, render_basic),
                       ('/denied', denied),
                       ('/stats', create_stats_app())],
                      middlewares=[mw])
    cl = app.get_local_client()
    for _ in range(5):
        assert cl.get('/').status_code == 200
    for _ in range(3):
        assert cl.get('/denied').status_code == 403
    assert cl.get('/missing').status_code == 404

    def counts(resp):
        assert resp.status_code == 200
        data = json.loads(resp.get_data(True))
        return data, dict((p, dict((s, d['count']) for s, d in bs.items()))
                          for p, bs in data['route_stats'].items())

    want = {'/': {'200': 5}, '/denied': {'403': 3}, '/<_ignored*>': {'404': 1}}
    data, got = counts(cl.get('/stats/?format=json'))
    assert got == want and 'reset' not in data
    for by_status in data['route_stats'].values():
        for summary in by_status.values():
            for key in ('count', 'last_hit', 'total_duration', 'mean', 'max',
                        'min', '0.5', 'mad', 'std_dev'):
                assert key in summary, key
            datetime.datetime.strptime(summary['last_hit'][:19], '%Y-%m-%dT%H:%M:%S')
            assert summary['total_duration'] >= 0
    want['/stats/'] = {'200': 1}
    # GET on the POST-only reset route does not reset
    assert cl.get('/stats/reset').status_code == 405
    want['/<_ignored*>']['405'] = 1
    data, got = counts(cl.post('/stats/reset?format=json'))
    assert got == want and data['reset'] is True
    data, got = counts(cl.get('/stats/?format=json'))
    assert got == {'/stats/reset': {'200': 1}}
    assert cl.get('/').status_code == 200
    data, got = counts(cl.post('/stats/reset?format=json'))
    assert got == {'/stats/reset': {'200': 1}, '/stats/': {'200': 1}, '/': {'200': 1}}
    # html rendering of the same endpoint still works
    resp = cl.get('/stats/')
    assert resp.status_code == 200

    # stats app mounted without the middleware
    bare = Application([('/stats', create_stats_app())])
    resp = bare.get_local_client().get('/stats/')
    assert resp.status_code == 501, resp.status_code
    resp = bare.get_local_client().post('/stats/reset')
    assert resp.status_code == 501, resp.status_code


def main():
    check_direct()
    check_through_http()
    print('PASS')
    return 0


if __name__ == '__main__':
    sys.exit(main())
