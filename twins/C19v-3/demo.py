# -*- coding: utf-8 -*-
"""demo3: StatsMiddleware.request counts every request that reaches a route
exactly once, under its status code / exception type; resets start from zero.

Part A drives a real application through every outcome kind and compares the
stats report with a model counter.  Part B calls StatsMiddleware.request
directly with stand-in objects to pin down the corner cases (what is recorded
when, what propagates).
"""
import os
import sys
import json
import random
from collections import Counter

sys.path.insert(0, os.path.dirname(os.path.abspath(__file__)))

from werkzeug.wrappers import Response

from clastic import Application, render_basic, redirect, GET
from clastic.errors import BadRequest, NotFound, Forbidden
from clastic.middleware import stats as S
from clastic.middleware.stats import StatsMiddleware, create_stats_app, Hit


# ---------------------------------------------------------------- part A

def ep_ok():
    return 'ok'


def ep_json():
    return {'a': 1}


def ep_redirect():
    return redirect('/ok')


def ep_raise_404():
    raise NotFound()


def ep_return_400():
    return BadRequest()


def ep_raise_403():
    raise Forbidden()


def ep_boom():
    raise ValueError('boom')


def ep_zero_div():
    return 1 // 0


def ep_item(item_id):
    return 'item %s' % item_id


def make_app():
    mw = StatsMiddleware()
    routes = [('/ok', ep_ok, render_basic),
              ('/json', ep_json, render_basic),
              ('/redirect', ep_redirect),
              ('/raise404', ep_raise_404, render_basic),
              ('/return400', ep_return_400, render_basic),
              ('/raise403', ep_raise_403, render_basic),
              ('/boom', ep_boom, render_basic),
              ('/zerodiv', ep_zero_div, render_basic),
              GET('/getonly', ep_ok, render_basic),
              ('/item/<item_id:int>', ep_item, render_basic),
              ('/stats', create_stats_app())]
    return mw, Application(routes, middlewares=[mw])


# url -> (pattern it is filed under, status key, http status the client sees)
OUTCOMES = {
    '/ok': ('/ok', '200', 200),
    '/json': ('/json', '200', 200),
    '/redirect': ('/redirect', '302', 302),
    '/raise404': ('/raise404', '404', 404),
    '/return400': ('/return400', '400', 400),
    '/raise403': ('/raise403', '403', 403),
    '/boom': ('/boom', "'ValueError'", 500),
    '/zerodiv': ('/zerodiv', "'ZeroDivisionError'", 500),
    '/item/7': ('/item/<item_id:int>', '200', 200),
    '/item/0': ('/item/<item_id:int>', '200', 200),
    '/nowhere': ('/<_ignored*>', '404', 404),
    '/item/notanint': ('/<_ignored*>', '404', 404),
}


def report_counts(data):
    return dict(((pattern, status), entry['count'])
                for pattern, by_status in data['route_stats'].items()
                for status, entry in by_status.items())


def part_a(seed):
    rnd = random.Random(seed)
    mw, app = make_app()
    c = app.get_local_client()
    model = Counter()
    urls = sorted(OUTCOMES)
    for step in range(150):
        roll = rnd.random()
        if roll < 0.80:
            url = rnd.choice(urls)
            pattern, status, http_status = OUTCOMES[url]
            resp = c.get(url)
            assert resp.status_code == http_status, (url, resp.status_code)
            model[pattern, status] += 1
        elif roll < 0.85:
            resp = c.post('/getonly')   # 405, filed under the null route
            assert resp.status_code == 405
            model['/<_ignored*>', '405'] += 1
        elif roll < 0.95:
            resp = c.get('/stats/?format=json')
            data = json.loads(resp.get_data(True))
            assert report_counts(data) == dict(model), (seed, step)
            assert 'reset' not in data
            model['/stats/', '200'] += 1
        else:
            resp = c.post('/stats/reset?format=json')
            data = json.loads(resp.get_data(True))
            assert data['reset'] is True
            assert report_counts(data) == dict(model), (seed, step)
            # counting starts again from zero; the reset request itself ends
            # after the reset, so it is the first hit of the new round
            model = Counter({('/stats/reset', '200'): 1})
        # per route, the counts sum to the requests that reached it
        live = Counter()
        for route, by_status in mw.route_hits.items():
            for status, store in by_status.items():
                live[route.pattern, status] += store.total_count
                assert len(store.to_list()) == store.total_count  # far below cap
                assert all(h.status_code == status and h.pattern == route.pattern
                           for h in store)
        assert live == model, (seed, step, live, model)
    return


# ---------------------------------------------------------------- part B

class FakeRequest(object):
    path = '/fake'


class FakeRoute(object):
    pattern = '/fake/<x>'


class PlainResult(object):
    pass


class TypedError(Exception):
    code = 418
    content_type = 'application/teapot; charset=x'


def call(mw, next, request=None, route=None):
    """Returns ('ok', result) or ('exc', exception)."""
    request = FakeRequest() if request is None else request
    route = FakeRoute() if route is None else route
    try:
        return 'ok', mw.request(next, request, route), route
    except BaseException as e:
        return 'exc', e, route


def only_hit(mw, route):
    (status, store), = mw.route_hits[route].items()
    (hit,) = store.to_list()
    assert store.total_count == 1 and hit.status_code == status
    assert isinstance(hit, Hit) and hit.duration >= 0
    assert store.last_hit == hit.start_time
    return hit


def part_b():
    # a response: same object comes back, one hit under repr(status_code)
    resp = Response('x', status=201, content_type='text/html; charset=utf-8')
    mw = StatsMiddleware()
    kind, got, route = call(mw, lambda: resp)
    assert kind == 'ok' and got is resp
    hit = only_hit(mw, route)
    assert hit[1:4] == ('/fake', '/fake/<x>', '201') and hit.content_type == 'text/html'

    # not a response at all: filed under its type name; falsy results too
    for result, key in ((PlainResult(), "'PlainResult'"), (None, "'NoneType'"),
                        (0, "'int'"), ('', "'str'"), ({}, "'dict'")):
        mw = StatsMiddleware()
        kind, got, route = call(mw, lambda: result)
        assert kind == 'ok' and got is result
        hit = only_hit(mw, route)
        assert hit.status_code == key and hit.content_type == ''

    # response whose content_type is None / empty
    class Bare(object):
        status_code = 204
        content_type = None
    mw = StatsMiddleware()
    kind, got, route = call(mw, Bare)
    assert kind == 'ok' and only_hit(mw, route)[3:] == ('204', only_hit(mw, route).duration, '')

    # exceptions: the very same exception propagates, one hit
    for exc, key, mime in ((ValueError('v'), "'ValueError'", ''),
                           (NotFound(), '404', ''),
                           (TypedError(), '418', 'application/teapot'),
                           (StopIteration(3), "'StopIteration'", ''),
                           (RuntimeError('r'), "'RuntimeError'", ''),
                           (AssertionError(), "'AssertionError'", '')):
        def raiser(exc=exc):
            raise exc
        mw = StatsMiddleware()
        kind, got, route = call(mw, raiser)
        assert kind == 'exc' and got is exc, (exc, got)
        hit = only_hit(mw, route)
        assert hit.status_code == key and hit.content_type == mime, hit

    # a response the recorder chokes on is filed under the resulting exception
    class Odd(object):
        status_code = 200
        content_type = 5    # truthy, but no .partition
    mw = StatsMiddleware()
    kind, got, route = call(mw, Odd)
    assert kind == 'exc' and type(got) is AttributeError
    assert only_hit(mw, route).status_code == "'AttributeError'"

    # non-Exception BaseExceptions are not handled: nothing is recorded and
    # the recorder's own failure surfaces (long-standing behaviour)
    for exc in (KeyboardInterrupt(), SystemExit(2), GeneratorExit()):
        def raiser(exc=exc):
            raise exc
        mw = StatsMiddleware()
        kind, got, route = call(mw, raiser)
        assert kind == 'exc' and type(got) is UnboundLocalError, got
        assert got.__context__ is exc
        assert not mw.route_hits[route]

    # an exception whose content_type is unusable: status known, mime not
    class BadMime(Exception):
        content_type = None
    exc = BadMime()
    def raiser():
        raise exc
    mw = StatsMiddleware()
    kind, got, route = call(mw, raiser)
    assert kind == 'exc' and type(got) is UnboundLocalError
    assert type(got.__context__) is AttributeError and got.__context__.__context__ is exc
    assert not mw.route_hits[route]

    # a reset while the request is running: the hit lands in the new table
    mw = StatsMiddleware()
    old_table = mw.route_hits
    def resetting():
        mw.reset()
        return Response('done')
    kind, got, route = call(mw, resetting)
    assert kind == 'ok' and mw.route_hits is not old_table and not old_table
    assert only_hit(mw, route).status_code == '200'

    # path and pattern are read after the call, the clock before and after
    req, rt = FakeRequest(), FakeRoute()
    def rewriting():
        req.path = '/rewritten'
        rt.pattern = '/late'
        return Response('done')
    mw = StatsMiddleware()
    ticks = iter([10.0, 12.5])
    real_time = S.time
    class FakeTime(object):
        @staticmethod
        def time():
            return next(ticks)
    S.time = FakeTime
    try:
        kind, got, route = call(mw, rewriting, req, rt)
    finally:
        S.time = real_time
    hit = only_hit(mw, rt)
    assert hit == Hit(10.0, '/rewritten', '/late', '200', 2.5, 'text/plain')
    assert mw.route_hits[rt]['200'].total_duration == 2.5
    assert list(ticks) == []

    # a recorder that cannot file the hit lets that error out
    class NoPattern(object):
        pass
    mw = StatsMiddleware()
    kind, got, route = call(mw, lambda: Response('x'), route=NoPattern())
    assert kind == 'exc' and type(got) is AttributeError and 'pattern' in str(got)
    exc = ValueError('first')
    def raiser():
        raise exc
    kind, got, route = call(mw, raiser, route=NoPattern())
    assert kind == 'exc' and type(got) is AttributeError and got.__context__ is exc

    # many calls, one route: counts add up per status
    mw = StatsMiddleware()
    rt = FakeRoute()
    rnd = random.Random(4)
    model = Counter()
    for i in range(300):
        code = rnd.choice([200, 302, 404, 'E'])
        if code == 'E':
            def nxt():
                raise KeyError(i)
            model["'KeyError'"] += 1
        else:
            def nxt(code=code):
                return Response('x', status=code)
            model[repr(code)] += 1
        call(mw, nxt, route=rt)
    assert dict((k, v.total_count) for k, v in mw.route_hits[rt].items()) == dict(model)
    assert sum(model.values()) == 300


def main():
    for seed in range(6):
        part_a(seed)
    part_b()
    print('PASS')


if __name__ == '__main__':
    main()
