# -*- coding: utf-8 -*-
"""C11 demo 3: binding is non-destructive, applications are isolated, add() is atomic.

Focus: the only process-wide state -- generated-code cache entries keyed by
content hash (sinter.compile_code), the request-id counter, the converter
tables -- never leaks behaviour from one Application into another; plus the
per-route matching (match_path / match_method) used by every dispatch.
"""
import io
import re
import sys
import hashlib
import linecache
import contextlib

from clastic import Application, Route, Response
from clastic import sinter
from clastic import route as route_mod
from clastic import application as app_mod
from clastic.utils import int2hexguid
from clastic.middleware import Middleware


def check_compile_code():
    src = 'def f(x):\n    return x + offset\n'
    env1, env2 = {'offset': 1}, {'offset': 100}
    f1 = sinter.compile_code(src, 'f', env1)
    f2 = sinter.compile_code(src, 'f', env2)
    assert f1 is not f2 and f1(1) == 2 and f2(1) == 101        # shared text, separate state
    assert f1 is env1['f'] and f2 is env2['f']
    digest = hashlib.sha1(src.encode('utf8')).hexdigest()[:16]
    fname = '<sinter generated f %s>' % digest
    assert f1.__code__.co_filename == fname == f2.__code__.co_filename
    entry = linecache.cache[fname]
    assert entry == (len(src), None, ['def f(x):\n', '    return x + offset\n'], fname)
    assert type(entry) is tuple
    assert linecache.getline(fname, 2) == '    return x + offset\n'
    linecache.checkcache()                                      # must survive a check
    assert fname in linecache.cache
    # different name or different text -> different entry
    g = sinter.compile_code(src.replace('def f', 'def g'), 'g', {'offset': 0})
    assert g.__code__.co_filename != fname and g(5) == 5
    # non-ascii source is hashed as utf8
    usrc = u'def h():\n    return u"é"\n'
    h = sinter.compile_code(usrc, 'h', {})
    assert h() == u'é'
    assert h.__code__.co_filename == '<sinter generated h %s>' % hashlib.sha1(usrc.encode('utf8')).hexdigest()[:16]
    # verbose prints exactly the source
    buf = io.StringIO()
    with contextlib.redirect_stdout(buf):
        sinter.compile_code(src, 'f', {'offset': 2}, verbose=True)
    assert buf.getvalue() == src + '\n'
    buf = io.StringIO()
    with contextlib.redirect_stdout(buf):
        sinter.compile_code(src, 'f', {'offset': 2})
    assert buf.getvalue() == ''
    # failures: nothing is registered
    bad_exec = 'def k(x=undefined_name_zzz):\n    return x\n'
    bad_fname = '<sinter generated k %s>' % hashlib.sha1(bad_exec.encode('utf8')).hexdigest()[:16]
    for bad_src, name, env, exc in [(bad_exec, 'k', {}, NameError),
                                    ('def k(:\n', 'k', {}, SyntaxError),
                                    (src, 'not_f', {'offset': 1}, KeyError)]:
        try:
            sinter.compile_code(bad_src, name, env)
        except exc:
            pass
        else:
            raise AssertionError('expected %s' % exc)
    assert bad_fname not in linecache.cache
    try:
        sinter.compile_code(src, 'f')            # no namespace to fetch the result from
    except TypeError:
        pass
    else:
        raise AssertionError('expected TypeError')


def check_make_chain():
    calls = []

    def mw_a(next, a):
        calls.append(('a', a))
        return next(b=a + 1)

    def mw_b(next, b, opt=5):
        calls.append(('b', b, opt))
        return next(c=b + opt)

    def final(a, b, c, z=0):
        return (a, b, c, z)

    chain, args, unres = sinter.make_chain([mw_a, mw_b], [('b',), ('c',)], final, ['a', 'opt', 'junk'], 'next')
    assert args == set(['a', 'opt']) and unres == set() and type(args) is set and type(unres) is set
    assert chain(a=1, opt=2) == (1, 2, 4, 0)
    assert calls == [('a', 1), ('b', 2, 2)]
    chain2, args2, unres2 = sinter.make_chain((mw_a,), (('b',),), final, (), 'next')
    assert args2 == set(['a', 'c']) and unres2 == set(['a', 'c'])
    assert chain2(a=1, c=9) == (1, 2, 9, 0)
    # no middlewares at all
    chain3, args3, unres3 = sinter.make_chain((), (), final, ['a', 'b', 'c', 'z'], 'next')
    assert args3 == set('abcz') and unres3 == set() and chain3(a=1, b=2, c=3, z=4) == (1, 2, 3, 4)
    # textually identical chains do not share their functions
    def other_final(a, b, c, z=0):
        return 'other'
    chain4, _, _ = sinter.make_chain((), (), other_final, ['a', 'b', 'c', 'z'], 'next')
    assert chain4.__code__.co_filename == chain3.__code__.co_filename
    assert chain4(a=1, b=2, c=3, z=4) == 'other' and chain3(a=1, b=2, c=3, z=4) == (1, 2, 3, 4)
    # inputs are not modified
    funcs, provides = [mw_a], [('b',)]
    sinter.make_chain(funcs, provides, final, ['a', 'c'], 'next')
    assert funcs == [mw_a] and provides == [('b',)]


def check_same_shape_apps_are_isolated():
    def make_app(name, n):
        def ep(request, who):
            return Response('%s/%s/%s' % (name, who, request.path))
        routes = [Route('/r%d' % i, ep) for i in range(n)]
        return Application(routes, resources={'who': name.upper()})
    apps = dict((nm, make_app(nm, 3)) for nm in ['a', 'b', 'c'])
    filenames = set()
    for nm, app in apps.items():
        for br in app.routes:
            filenames.add(br._execute.__code__.co_filename)
    assert len(filenames) == 1, filenames               # identical generated text: one cache entry
    fname = filenames.pop()
    assert re.match(r'^<sinter generated next [0-9a-f]{16}>$', fname), fname
    assert fname in linecache.cache and linecache.cache[fname][3] == fname
    for rnd in range(3):
        for nm in ['c', 'a', 'b', 'a']:
            for i in range(3):
                resp = apps[nm].get_local_client().get('/r%d' % i)
                assert resp.get_data(True) == '%s/%s/%s' % (nm, nm.upper(), '/r%d' % i)
        if rnd == 0:
            # a failing add on one app, and a new app of the same shape, in between
            try:
                apps['a'].add(('/bad', lambda nope: None))
            except NameError:
                pass
            else:
                raise AssertionError('expected NameError')
            assert [r.pattern for r in apps['a'].routes] == ['/r0', '/r1', '/r2']
            apps['d'] = make_app('d', 3)
            assert apps['d'].get_local_client().get('/r1').get_data(True) == 'd/D//r1'


def check_request_ids():
    seen = []

    def ep(request):
        seen.append((request.request_id, request.request_guid))
        return Response('ok')

    class Stubborn(app_mod.Request):
        @property
        def request_id(self):
            raise AttributeError('no ids here')

    def ep2(request):
        seen.append(('stubborn', hasattr(request, 'request_guid')))
        return Response('ok2')

    a = Application([('/', ep)])
    b = Application([('/', ep)])

    class StubbornApp(Application):
        request_type = Stubborn
    c = StubbornApp([('/', ep2)])

    start = next(app_mod._REQ_ID_ITER)
    for app in [a, b, a, c, b, c, a]:
        assert app.get_local_client().get('/').status_code == 200
    ids = [s[0] for s in seen if s[0] != 'stubborn']
    # the stubborn requests consume an id too, but never get a guid
    assert ids == [start + 1, start + 2, start + 3, start + 5, start + 7], (start, ids)
    assert all(guid == int2hexguid(i) for i, guid in seen if i != 'stubborn')
    assert [s for s in seen if s[0] == 'stubborn'] == [('stubborn', False)] * 2
    assert next(app_mod._REQ_ID_ITER) == start + 8
    # 404s get ids as well and do not disturb anything
    assert a.get_local_client().get('/nope').status_code == 404
    assert next(app_mod._REQ_ID_ITER) == start + 10


def check_matching():
    def ep_item(item_id):
        return Response(repr(item_id))

    def ep_nums(nums):
        return Response(repr(nums))

    def ep_opt(opt):
        return Response(repr(opt))

    def ep_f(f, name):
        return Response(repr((f, name)))

    app = Application([Route('/item/<item_id:int>', ep_item, methods=['GET']),
                       Route('/nums/<nums*int>', ep_nums, methods=['post', 'Put']),
                       Route('/opt/<opt?>', ep_opt),
                       Route('/f/<f:float>/<name>', ep_f)])
    item, nums, opt, flt = app.routes
    assert item.match_path('/item/12') == {'item_id': 12}
    assert item.match_path('/item/-12') == {'item_id': -12}
    assert item.match_path('/item/+ 5') is None          # regex accepts, int() rejects -> no match
    assert item.match_path('/item/x') is None and item.match_path('/item/') is None
    assert item.match_path('/other') is None
    first, second = item.match_path('/item/1'), item.match_path('/item/1')
    assert first == second and first is not second      # a new dict per call
    first['junk'] = 1
    assert item.match_path('/item/1') == {'item_id': 1}
    assert nums.match_path('/nums/1/2/3') == {'nums': [1, 2, 3]}
    assert nums.match_path('/nums') == {'nums': []} and nums.match_path('/nums/') == {'nums': []}
    assert nums.match_path('/nums/1/x') is None
    assert opt.match_path('/opt') == {'opt': None} and opt.match_path('/opt/v') == {'opt': u'v'}
    assert flt.match_path('/f/1.5/n') == {'f': 1.5, 'name': u'n'}
    assert flt.match_path('/f/.5e1/n') == {'f': 5.0, 'name': u'n'}
    assert flt.match_path('/f/1.5') is None
    assert list(flt.match_path('/f/2/zz')) == ['f', 'name']
    # methods
    assert item.methods == set(['GET', 'HEAD']) and nums.methods == set(['POST', 'PUT'])
    for br, method, want in [(item, 'GET', True), (item, 'get', True), (item, 'HEAD', True),
                             (item, 'POST', False), (item, 'post', False), (item, '', True),
                             (item, None, True), (item, 'BREW', False),
                             (nums, 'put', True), (nums, 'GET', False), (nums, None, True),
                             (opt, 'GET', True), (opt, 'ANYTHING', True), (opt, None, True), (opt, '', True)]:
        got = br.match_method(method)
        assert got is want, (br.pattern, method, got)
    cl = app.get_local_client()
    assert cl.get('/item/7').get_data(True) == '7'
    assert cl.post('/item/7').status_code == 405
    assert cl.post('/nums/4/5').get_data(True) == '[4, 5]'
    assert cl.get('/nums/4/5').status_code == 405
    assert cl.get('/item/+%205').status_code == 404
    assert cl.get('/opt').get_data(True) == 'None'
    assert cl.get('/f/3/x').get_data(True) == repr((3.0, u'x'))

    # embedded copies match under the prefix only, the originals as before
    outer = Application([('/api', app)])
    assert outer.routes[0].match_path('/api/item/3') == {'item_id': 3}
    assert outer.routes[0].match_path('/item/3') is None
    assert item.match_path('/item/3') == {'item_id': 3} and item.match_path('/api/item/3') is None
    assert outer.routes[0].methods is item.methods
    assert outer.get_local_client().post('/api/item/3').status_code == 405
    assert outer.get_local_client().get('/api/item/3').get_data(True) == '3'


def check_converter_tables():
    before_conv, before_patt = dict(route_mod.TYPE_CONV_MAP), dict(route_mod.TYPE_PATT_MAP)
    conv_id, patt_id = id(route_mod.TYPE_CONV_MAP), id(route_mod.TYPE_PATT_MAP)
    assert sorted(before_conv) == ['float', 'int', 'str', 'unicode']
    old = Application([('/x/<v:int>', lambda v: Response(repr(v)))])
    try:
        Route('/h/<v:hex>', lambda v: Response(repr(v)))
    except route_mod.InvalidPattern:
        pass
    else:
        raise AssertionError('hex should be unknown')
    route_mod._register_converter('hex', lambda s: int(s, 16), r'[0-9a-f]+')
    try:
        assert id(route_mod.TYPE_CONV_MAP) == conv_id and id(route_mod.TYPE_PATT_MAP) == patt_id
        assert sorted(route_mod.TYPE_CONV_MAP) == ['float', 'hex', 'int', 'str', 'unicode']
        new = Application([('/h/<v:hex>', lambda v: Response(repr(v)))])
        assert new.get_local_client().get('/h/ff').get_data(True) == '255'
        assert new.get_local_client().get('/h/zz').status_code == 404
        assert old.get_local_client().get('/x/12').get_data(True) == '12'
        assert old.get_local_client().get('/h/ff').status_code == 404
    finally:
        del route_mod.TYPE_CONV_MAP['hex']
        del route_mod.TYPE_PATT_MAP['hex']
    assert route_mod.TYPE_CONV_MAP == before_conv and route_mod.TYPE_PATT_MAP == before_patt
    # already compiled routes keep working after the converter is gone
    assert new.get_local_client().get('/h/10').get_data(True) == '16'


def main():
    check_compile_code()
    check_make_chain()
    check_same_shape_apps_are_isolated()
    check_request_ids()
    check_matching()
    check_converter_tables()
    print('PASS')
    return 0


if __name__ == '__main__':
    sys.exit(main())
