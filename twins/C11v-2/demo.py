# -*- coding: utf-8 -*-
"""demo2: what a bound route injects (BoundRoute.execute / execute_error) and
its role in C11: every binding of a Route has its own resources and its own
`_application`; binding again (or embedding) never changes what an earlier
binding injects; two applications never see each other's resources.
"""
import os
import sys

sys.path.insert(0, os.path.dirname(os.path.abspath(__file__)))

from werkzeug.test import EnvironBuilder
from werkzeug.wrappers import Request, Response

from clastic import Application, Route, SubApplication, Middleware
from clastic.errors import NotFound, BadRequest
from clastic.route import BoundRoute


def text(app, path, method='GET'):
    resp = app.get_local_client().open(path, method=method)
    return resp.status_code, resp.get_data(as_text=True)


def patterns(app):
    return [r.pattern for r in app.routes]


def make_request(path='/'):
    return Request(EnvironBuilder(path=path).get_environ())


# ------------------------------------------------------------------ endpoints

def ep_who(_application, _route, name, greeting='hello'):
    return Response('%s %s from %s via %s'
                    % (greeting, name, _application.resources.get('label'),
                       _route.pattern))


def ep_item(item_id, name, request):
    return Response('%s:%r:%s' % (name, item_id, request.path))


def ep_boom():
    raise NotFound()


def ep_ctx(name):
    return {'name': name}


def render_ctx(context, name, _application):
    return Response('rendered %s/%s/%s' % (context['name'], name,
                                           _application.resources['label']))


class TagMiddleware(Middleware):
    provides = ('tag',)

    def __init__(self, tag):
        self.tag = tag

    def request(self, next, name):
        return next(tag='%s-%s' % (self.tag, name))


def ep_tag(tag, _application):
    return Response('%s@%s' % (tag, _application.resources['label']))


SEEN = []


def render_error_spy(request, _error, **kw):
    SEEN.append((request, _error, list(kw.keys()), dict(kw)))
    return Response('spy:%s' % getattr(_error, 'code', _error),
                    status=getattr(_error, 'code', 500))


# ------------------------------------------------------------- direct checks

def direct_checks():
    app_a = Application(resources={'label': 'A', 'name': 'ann', 'extra': 1})
    app_b = Application(resources={'label': 'B', 'name': 'bob'})
    route = Route('/who', ep_who)
    br_a = route.bind(app_a)
    br_b = route.bind(app_b)
    br_ab = br_a.bind(app_b, prefix='/deep')   # rebinding an already bound route
    req = make_request('/who')

    def body(resp):
        return resp.get_data(as_text=True)

    assert body(br_a.execute(req)) == 'hello ann from A via /who'
    assert body(br_b.execute(request=req)) == 'hello bob from B via /who'
    # the re-bound route serves the most recently bound application, with the
    # route-side resources (copied from A) taking precedence over B's
    assert br_ab.bound_apps == [app_a, app_b]
    assert body(br_ab.execute(req)) == 'hello ann from B via /deep/who'
    assert br_ab.resources == {'label': 'A', 'name': 'ann', 'extra': 1}
    # ... and the first binding is unaffected
    assert br_a.bound_apps == [app_a]
    assert body(br_a.execute(req)) == 'hello ann from A via /who'

    # keyword arguments beat resources
    res_before = dict(br_a.resources)
    assert body(br_a.execute(req, name='zed')) == 'hello zed from A via /who'
    # (a defaulted endpoint argument nobody provides is not part of the
    # compiled chain's signature, so it cannot be injected from here)
    assert body(br_a.execute(req, greeting='hi')) == 'hello ann from A via /who'
    assert body(br_a.execute(req, greeting=None, name=0)) == 'hello 0 from A via /who'
    assert body(br_a.execute(req, name='')) == 'hello  from A via /who'
    assert body(br_a.execute(req, name=None)) == 'hello None from A via /who'
    assert body(br_a.execute(req, unrelated=object())) == 'hello ann from A via /who'
    # ... even the builtins can be overridden by the caller
    assert body(br_a.execute(req, _application=app_b)) == 'hello ann from B via /who'
    assert body(br_a.execute(req, _route=br_ab)) == 'hello ann from A via /deep/who'
    assert br_a.resources == res_before and app_a.resources == res_before
    # request is a required positional of execute()
    for call in (lambda: br_a.execute(), lambda: br_a.execute_error(req)):
        try:
            call()
        except TypeError:
            pass
        else:
            raise AssertionError('expected TypeError')

    # execute_error: non-callable render_error
    silent = Route('/s', ep_boom)
    br_silent = silent.bind(app_a, rebind_render_error=False)
    assert br_silent.render_error is None
    try:
        br_silent.execute_error(req, NotFound())
    except TypeError as te:
        assert str(te) == 'render_error not set or not callable'
    else:
        raise AssertionError('expected TypeError')
    try:
        br_silent.execute_error(req, _error=NotFound(), name='x')
    except TypeError as te:
        assert str(te) == 'render_error not set or not callable'
    else:
        raise AssertionError('expected TypeError')

    # execute_error: what is injected, and in which order
    spy = Route('/spy', ep_boom, render_error=render_error_spy,
                resources={'zz': 26, 'label': 'route-label'})
    br_spy = spy.bind(app_a, rebind_render_error=False)
    err = NotFound()
    del SEEN[:]
    resp = br_spy.execute_error(req, err, path_arg=5, extra='override')
    assert body(resp) == 'spy:404'
    seen_req, seen_err, keys, kw = SEEN.pop()
    assert seen_req is req and seen_err is err
    assert keys == ['_route', '_application', 'label', 'name', 'extra',
                    'zz', 'path_arg'], keys
    assert kw['_route'] is br_spy and kw['_application'] is app_a
    assert kw['label'] == 'route-label' and kw['extra'] == 'override'
    assert kw['zz'] == 26 and kw['path_arg'] == 5 and kw['name'] == 'ann'
    assert br_spy.resources == {'label': 'route-label', 'name': 'ann',
                                'extra': 1, 'zz': 26}
    assert spy.resources == {'zz': 26, 'label': 'route-label'}

    # no extras at all
    br_spy.execute_error(request=req, _error=err)
    _, _, keys, kw = SEEN.pop()
    assert keys == ['_route', '_application', 'label', 'name', 'extra', 'zz']

    # a resource named _error shadows the real error (resources are applied
    # after the builtins), kwargs shadow both; position in the dict is kept
    def render_error_kw(**kw):
        SEEN.append((list(kw.keys()), kw))
        return Response('kw')
    shadow = Route('/shadow', ep_boom, resources={'_error': 'resource-error'})
    shadow.render_error = render_error_kw
    br_shadow = shadow.bind(app_b, rebind_render_error=False)
    br_shadow.execute_error(req, err)
    keys, kw = SEEN.pop()
    assert keys == ['_route', '_error', 'request', '_application', 'label', 'name'], keys
    assert kw['_error'] == 'resource-error' and kw['request'] is req
    br_shadow.execute_error(req, err, _route='r', label='L', later=1)
    keys, kw = SEEN.pop()
    assert keys == ['_route', '_error', 'request', '_application', 'label',
                    'name', 'later'], keys
    assert kw['_route'] == 'r' and kw['label'] == 'L' and kw['request'] is req
    assert kw['_application'] is app_b
    assert br_shadow.resources == {'label': 'B', 'name': 'bob',
                                   '_error': 'resource-error'}

    # the falsy-but-present error object is passed through untouched
    br_spy.execute_error(req, 0)
    assert SEEN.pop()[1] == 0
    br_spy.execute_error(req, None)
    assert SEEN.pop()[1] is None


# --------------------------------------------------------------- applications

def app_checks():
    who = Route('/who', ep_who)
    item = Route('/item/<item_id:int>', ep_item)
    ctx = Route('/ctx', ep_ctx, render_ctx)
    tagged = Route('/tag', ep_tag, middlewares=[TagMiddleware('t')])
    spy = Route('/boom', ep_boom, render_error=render_error_spy)
    all_routes = [who, item, ctx, tagged, spy]
    route_vars = [dict(vars(r)) for r in all_routes]

    a = Application(all_routes, resources={'label': 'A', 'name': 'ann'})
    b = Application(all_routes[::-1], resources={'label': 'B', 'name': 'bob'})

    def expect(app, label, name, prefix=''):
        assert text(app, prefix + '/who') == (
            200, 'hello %s from %s via %s/who' % (name, label, prefix))
        assert text(app, prefix + '/item/7') == (
            200, '%s:7:%s/item/7' % (name, prefix))
        assert text(app, prefix + '/ctx') == (
            200, 'rendered %s/%s/%s' % (name, name, label))
        assert text(app, prefix + '/tag') == (200, 't-%s@%s' % (name, label))
        assert text(app, prefix + '/boom')[0] == 404
        assert text(app, prefix + '/item/notanint')[0] == 404

    expect(a, 'A', 'ann')
    expect(b, 'B', 'bob')
    assert patterns(a) == ['/who', '/item/<item_id:int>', '/ctx', '/tag', '/boom']
    assert patterns(b) == patterns(a)[::-1]

    # embed A in C (C has its own resources; A's bound routes keep theirs)
    c = Application([('/c-own', ep_who)], resources={'label': 'C', 'name': 'cat'})
    c.add(SubApplication('/a', a), index=0)
    assert patterns(c) == ['/a' + p for p in patterns(a)] + ['/c-own']
    # (the dispatcher passes the serving application's resources as keyword
    # arguments, so they win over the copies the routes carried along from A)
    expect(c, 'C', 'cat', prefix='/a')
    assert text(c, '/c-own') == (200, 'hello cat from C via /c-own')
    expect(a, 'A', 'ann')                     # A itself is untouched
    expect(b, 'B', 'bob')

    # embed C (containing A's routes) in B: three levels of binding
    b.add(('/c', c), index=2)
    assert patterns(b)[2:8] == ['/c/a' + p for p in patterns(a)] + ['/c/c-own']
    assert len(b.routes) == 11
    expect(b, 'B', 'bob')
    expect(b, 'B', 'bob', prefix='/c/a')
    assert text(b, '/c/c-own') == (200, 'hello bob from B via /c/c-own')
    assert b.routes[2].bound_apps == [a, c, b]
    expect(c, 'C', 'cat', prefix='/a')
    expect(a, 'A', 'ann')
    assert a.routes[0].bound_apps == [a] and c.routes[0].bound_apps == [a, c]

    # failing adds (unresolved endpoint argument: no 'name' resource) leave
    # every application as it was, also as the k-th route of an embedding
    live = [a, b, c]
    before = [(patterns(x), [id(r) for r in x.routes]) for x in live]
    bare = Application([('/fine', lambda: Response('fine'))])
    live.append(bare)
    before.append((patterns(bare), [id(r) for r in bare.routes]))
    for entry in (who, ('/again', ep_who), item, ctx, tagged):
        for index in (0, 1, None):
            try:
                bare.add(entry, index=index)
            except NameError as ne:
                assert 'name' in str(ne)
            else:
                raise AssertionError('expected NameError')
            assert [(patterns(x), [id(r) for r in x.routes]) for x in live] == before
    # k-th route failing: A's routes carry their own resources, but binding
    # re-checks middleware provides against the merged resources: 'tag'
    # (provided by TagMiddleware on A's 4th route) conflicts with a 'tag'
    # resource of the embedding application
    clash = Application([('/fine', lambda: Response('fine'))], resources={'tag': 1})
    live.append(clash)
    before.append((patterns(clash), [id(r) for r in clash.routes]))
    for index in (0, 1, None):
        try:
            clash.add(('/a', a), index=index)
        except NameError as ne:
            assert 'conflicting provides' in str(ne), str(ne)
        else:
            raise AssertionError('expected NameError')
        assert [(patterns(x), [id(r) for r in x.routes]) for x in live] == before
    assert text(clash, '/fine') == (200, 'fine')
    assert text(bare, '/fine') == (200, 'fine')
    expect(a, 'A', 'ann')
    expect(b, 'B', 'bob')
    expect(b, 'B', 'bob', prefix='/c/a')
    expect(c, 'C', 'cat', prefix='/a')

    # the unbound routes were never modified
    assert [dict(vars(r)) for r in all_routes] == route_vars
    # resources dicts of the applications are their own copies
    assert a.resources == {'label': 'A', 'name': 'ann'}
    assert a.routes[0].resources is not a.resources
    a.resources['name'] = 'amy'   # visible to A's dispatcher only
    assert text(a, '/who') == (200, 'hello amy from A via /who')
    assert a.routes[0].resources['name'] == 'ann'   # bind-time copy
    resp = a.routes[0].execute(make_request('/who'))
    assert resp.get_data(as_text=True) == 'hello ann from A via /who'
    expect(c, 'C', 'cat', prefix='/a')
    expect(b, 'B', 'bob', prefix='/c/a')
    expect(b, 'B', 'bob')
    a.resources['name'] = 'ann'
    expect(a, 'A', 'ann')

if __name__ == '__main__':
    direct_checks()
    app_checks()
    print('PASS')
