# -*- coding: utf-8 -*-
"""demo3: Application.dispatch / BoundRoute.match_path / execute / execute_error.

URL segments are converted and delivered under their own names, resources are
passed by identity, built-ins are the real request / application / route /
dispatch state, and error renderers get the same sources (in a stable order).
"""
import sys

from werkzeug.test import create_environ
from werkzeug.wrappers import Response

from clastic import Application, Middleware, Route, GET, POST
from clastic.errors import ErrorHandler, BadRequest, HTTPException
from clastic.route import _register_converter, BoundRoute
from clastic.application import DispatchState


class Sentinel(object):
    def __init__(self, label):
        self.label = label

    def __repr__(self):
        return '<S %s>' % self.label


def check_match_path():
    def boom_conv(value):
        if value == 'key':
            raise KeyError(value)
        if value == 'type':
            raise TypeError(value)
        if value == 'value':
            raise ValueError(value)
        if value == 'runtime':
            raise RuntimeError(value)
        return ('boom', value)
    _register_converter('boom', boom_conv, r'[^/]+')

    app = Application()
    ep = lambda: Response('x')

    br = Route('/a/<x:int>/<y>/<z*float>', ep).bind(app)
    assert br.match_path('/nope') is None
    assert br.match_path('/a/notint/y') is None
    got = br.match_path('/a/12/why')
    assert got == {'x': 12, 'y': 'why', 'z': []}, got
    assert list(got) == ['x', 'y', 'z'] and type(got) is dict
    assert type(got['x']) is int
    got = br.match_path('/a/-3/w/1.5/2')
    assert got == {'x': -3, 'y': 'w', 'z': [1.5, 2.0]}, got
    got2 = br.match_path('/a/-3/w/1.5/2')
    assert got2 == got and got2 is not got      # fresh dict each time

    br = Route('/o/<x?int>', ep).bind(app)
    assert br.match_path('/o') == {'x': None}
    assert br.match_path('/o/5') == {'x': 5}
    assert br.match_path('/o/0') == {'x': 0}

    br = Route('/b/<first:boom>/<second:boom>', ep).bind(app)
    assert br.match_path('/b/p/q') == {'first': ('boom', 'p'), 'second': ('boom', 'q')}
    for bad in ('key', 'type', 'value'):
        assert br.match_path('/b/%s/q' % bad) is None
        assert br.match_path('/b/p/%s' % bad) is None
    try:
        br.match_path('/b/p/runtime')
    except RuntimeError:
        pass
    else:
        raise AssertionError('RuntimeError must propagate')

    br = Route('/static/', ep).bind(app)
    assert br.match_path('/static/') == {}
    assert br.match_path('/static') == {}
    assert br.match_path('/other') is None


def check_execute_direct():
    res_a, res_b = Sentinel('res_a'), Sentinel('res_b')
    route_b = Sentinel('route_level_b')
    got = []

    def ep(request, _route, _application, res_a, res_b, extra, opt='OPT', **kw):
        got.append(dict(request=request, _route=_route, _application=_application,
                        res_a=res_a, res_b=res_b, extra=extra, opt=opt, kw=kw))
        return Response('ok')

    app = Application(resources={'res_a': res_a, 'res_b': res_b})
    # "extra" must be resolvable at bind time: make it a URL param
    br = Route('/<extra>', ep, resources={'res_b': route_b}).bind(app)
    assert isinstance(br, BoundRoute)
    req = app.request_type(create_environ('/val'))
    extra = Sentinel('extra')

    resp = br.execute(req, extra=extra)
    assert resp.get_data() == b'ok'
    rec = got.pop()
    assert rec['request'] is req and rec['_route'] is br and rec['_application'] is app
    assert rec['res_a'] is res_a
    assert rec['res_b'] is route_b          # route-level resource shadows the app's
    assert rec['extra'] is extra and rec['opt'] == 'OPT'
    assert rec['kw'] == {}                  # the chain never forwards undeclared names

    # explicit kwargs override resources; unknown extras are dropped
    override = Sentinel('override')
    br.execute(req, extra=extra, res_a=override, unknown=1)
    rec = got.pop()
    assert rec['res_a'] is override and rec['res_b'] is route_b

    # falsy overrides are still honoured
    for falsy in (None, 0, '', []):
        br.execute(req, extra=falsy, res_a=falsy)
        rec = got.pop()
        assert rec['extra'] is falsy and rec['res_a'] is falsy

    # execute must not mutate the route's resources
    assert br.resources == {'res_a': res_a, 'res_b': route_b}
    assert app.resources == {'res_a': res_a, 'res_b': res_b}

    # missing required source -> TypeError at call time
    try:
        br.execute(req)
    except TypeError:
        pass
    else:
        raise AssertionError('expected TypeError')

    # execute_error without a callable render_error
    br2 = Route('/<extra>', ep).bind(app, rebind_render_error=False)
    try:
        br2.execute_error(req, BadRequest())
    except TypeError as e:
        assert 'render_error not set or not callable' in str(e)
    else:
        raise AssertionError('expected TypeError')


class RecordingEH(ErrorHandler):
    def __init__(self, log):
        super(RecordingEH, self).__init__()
        self.log = log

    def render_error(self, request, _error, **kwargs):
        self.log.append(('render_error', request, _error, kwargs))
        return Response('err:%s' % type(_error).__name__, status=_error.code)

    def uncaught_to_response(self, **kwargs):
        self.log.append(('uncaught', kwargs))
        return super(RecordingEH, self).uncaught_to_response(**kwargs)


def check_dispatch():
    log = []
    db, cfg = Sentinel('db'), Sentinel('cfg')

    class TokMW(Middleware):
        provides = ('token',)

        def request(self, next, request, _dispatch_state, db):
            log.append(('mw', request, _dispatch_state, db))
            return next(token=('tok', request.path))

    def ep_ok(request, _application, _route, _dispatch_state, db, cfg, token,
              name, num, rest, dflt='D', cfg2='C2'):
        log.append(('ep_ok', dict(request=request, _application=_application,
                                  _route=_route, _dispatch_state=_dispatch_state,
                                  db=db, cfg=cfg, token=token, name=name, num=num,
                                  rest=rest, dflt=dflt, cfg2=cfg2)))
        return Response('ok')

    def ep_bad(db, num):
        log.append(('ep_bad', db, num))
        raise BadRequest('bad %s' % num)

    def ep_crash(cfg, name):
        log.append(('ep_crash', cfg, name))
        raise ZeroDivisionError(name)

    def ep_post(request, name):
        log.append(('ep_post', request.method, name))
        return Response('posted')

    eh = RecordingEH(log)
    app = Application([('/ok/<name>/<num:int>/<rest*>', ep_ok),
                       ('/bad/<num:int>', ep_bad),
                       ('/crash/<name>', ep_crash),
                       POST('/post/<name>', ep_post)],
                      resources={'db': db, 'cfg': cfg, 'cfg2': 0},
                      middlewares=[TokMW()], error_handler=eh)
    cl = app.get_local_client()

    requests_seen = []
    for name, num, rest in (('alice', 1, []), ('bob', 0, ['x']), ('1', 22, ['p', 'q'])):
        del log[:]
        path = '/ok/%s/%s' % (name, num) + ''.join('/' + r for r in rest)
        resp = cl.get(path)
        assert resp.status_code == 200, (path, resp.status_code)
        (_, mw_req, mw_ds, mw_db), (_, kw) = log
        assert mw_db is db and kw['db'] is db and kw['cfg'] is cfg
        assert kw['request'] is mw_req and kw['request'].path == path
        assert kw['_application'] is app
        assert kw['_route'] is app.routes[0]
        assert isinstance(kw['_dispatch_state'], DispatchState)
        assert kw['_dispatch_state'] is mw_ds
        assert kw['token'] == ('tok', path)
        assert kw['name'] == name and kw['num'] == num and type(kw['num']) is int
        assert kw['rest'] == rest
        assert kw['dflt'] == 'D'
        assert kw['cfg2'] == 0                 # falsy resource, not the default
        assert kw['request'].path_params == {'name': name, 'num': num, 'rest': rest}
        requests_seen.append((kw['request'], kw['_dispatch_state']))
    # per-request objects are not shared between requests
    assert len(set(id(r) for r, _ in requests_seen)) == 3
    assert len(set(id(d) for _, d in requests_seen)) == 3

    # HTTPException raised by the endpoint -> render_error with injected sources
    del log[:]
    resp = cl.get('/bad/7')
    assert resp.status_code == 400 and resp.get_data() == b'err:BadRequest'
    assert log[1] == ('ep_bad', db, 7)
    tag, req, err, kwargs = log[2]
    assert tag == 'render_error' and isinstance(err, BadRequest)
    assert req is log[0][1]
    assert list(kwargs) == ['_route', '_application', 'db', 'cfg', 'cfg2',
                            '_dispatch_state', 'num'], list(kwargs)
    assert kwargs['_route'] is app.routes[1] and kwargs['_application'] is app
    assert kwargs['db'] is db and kwargs['cfg'] is cfg and kwargs['num'] == 7
    assert kwargs['_dispatch_state'] is log[0][2]
    assert err.source_route is app.routes[1]

    # uncaught exception -> uncaught_to_response(**params) then render_error
    del log[:]
    resp = cl.get('/crash/carol')
    assert resp.status_code == 500, resp.status_code
    assert log[1] == ('ep_crash', cfg, 'carol')
    tag, kwargs = log[2]
    assert tag == 'uncaught'
    assert list(kwargs) == ['db', 'cfg', 'cfg2', 'request', '_application',
                            '_dispatch_state', 'name', '_route', '_error'], list(kwargs)
    assert kwargs['_route'] is app.routes[2] and kwargs['name'] == 'carol'
    assert isinstance(kwargs['_error'], ZeroDivisionError)
    assert kwargs['db'] is db and kwargs['request'] is log[0][1]
    tag, req, err, kwargs = log[3]
    assert tag == 'render_error' and isinstance(err, HTTPException)
    assert kwargs['name'] == 'carol' and kwargs['_route'] is app.routes[2]

    # 404: handled by the null route, path param of the null route is injected
    del log[:]
    resp = cl.get('/nowhere/at/all')
    assert resp.status_code == 404
    tag, req, err, kwargs = log[-1]
    assert tag == 'render_error' and err.code == 404
    assert kwargs['_route'] is app._null_route
    assert kwargs['_ignored'] == ['nowhere', 'at', 'all']

    # 405: method mismatch recorded in the dispatch state, endpoint not called
    del log[:]
    resp = cl.get('/post/dave')
    assert resp.status_code == 405
    assert not [e for e in log if e[0] == 'ep_post']
    resp = cl.post('/post/dave')
    assert resp.status_code == 200 and ('ep_post', 'POST', 'dave') in log

    # non-Response return value -> TypeError -> 500 via uncaught_to_response
    app2 = Application([('/x/<v>', lambda v: 'not a response')], error_handler=RecordingEH(log))
    del log[:]
    resp = app2.get_local_client().get('/x/1')
    assert resp.status_code == 500
    assert log[0][0] == 'uncaught' and isinstance(log[0][1]['_error'], TypeError)
    assert 'expected Response' in str(log[0][1]['_error'])
    assert log[0][1]['v'] == '1'


def check_branch_and_fallthrough():
    # a non-breaking HTTPException lets later routes run with THEIR OWN params
    log = []

    def first(item):
        log.append(('first', item))
        raise BadRequest(is_breaking=False)

    def second(item, other='O'):
        log.append(('second', item, other))
        return Response('second')

    app = Application([('/f/<item:int>', first), ('/f/<item>', second)])
    resp = app.get_local_client().get('/f/42')
    assert resp.status_code == 200 and resp.get_data() == b'second'
    assert log == [('first', 42), ('second', '42', 'O')], log

    # redirect on branch routes leaves the endpoint uncalled
    hits = []
    app = Application([('/dir/<name>/', lambda name: hits.append(name) or Response('d'))])
    cl = app.get_local_client()
    resp = cl.get('/dir/n')
    assert resp.status_code in (301, 302, 303, 307, 308) and hits == []
    resp = cl.get('/dir/n/')
    assert resp.status_code == 200 and hits == ['n']


def main():
    check_match_path()
    check_execute_direct()
    check_dispatch()
    check_branch_and_fallthrough()
    print('PASS')
    return 0


if __name__ == '__main__':
    sys.exit(main())
