# -*- coding: utf-8 -*-
"""demo1: the sinter layer (inject / chain_argspec / build_chain_str / make_chain).

Every declared parameter receives the value of its one source; defaults are
used only when nothing offers the name; undeclared names are never passed.
"""
import sys

from clastic import Application, Middleware
from clastic.sinter import (inject, chain_argspec, build_chain_str,
                            make_chain, compile_chain)
from werkzeug.wrappers import Response


class Sentinel(object):
    def __init__(self, label):
        self.label = label

    def __repr__(self):
        return '<S %s>' % self.label


# ---------------------------------------------------------------- inject ----

def check_inject():
    a, b, c, d = [Sentinel(x) for x in 'abcd']

    def f(x, y):
        return ('f', x, y)

    ret = inject(f, {'x': a, 'y': b, 'z': c})
    assert ret[1] is a and ret[2] is b

    # defaults used only when no source offers the name
    dflt = Sentinel('dflt')

    def g(x, y=dflt, z=None):
        return (x, y, z)

    assert inject(g, {'x': a}) == (a, dflt, None)
    r = inject(g, {'x': a, 'y': b})
    assert r[0] is a and r[1] is b and r[2] is None
    # falsy offered values still beat the defaults
    for falsy in (0, '', None, [], {}, False):
        r = inject(g, {'x': falsy, 'y': falsy, 'z': falsy, 'w': 1})
        assert r[0] is falsy and r[1] is falsy and r[2] is falsy

    # never passed a name it does not declare (would raise TypeError)
    def h():
        return 'h'
    assert inject(h, {'x': a, 'y': b}) == 'h'
    assert inject(h, {}) == 'h'

    # **kwargs functions get everything, defaults first, in a stable order
    def k(x, y=dflt, **kw):
        return x, y, kw

    r = inject(k, {'q': c, 'x': a, 'p': d})
    assert r[0] is a and r[1] is dflt
    assert list(r[2].items()) == [('q', c), ('p', d)]
    r = inject(k, {'q': c, 'x': a, 'y': b})
    assert r[1] is b and list(r[2]) == ['q']

    # keyword-only parameters
    def ko(x, *, y, z=dflt):
        return x, y, z
    r = inject(ko, {'x': a, 'y': b, 'u': 1})
    assert r == (a, b, dflt)
    r = inject(ko, {'x': a, 'y': b, 'z': c})
    assert r[2] is c

    # missing required -> TypeError from the call itself
    try:
        inject(f, {'x': a})
    except TypeError:
        pass
    else:
        raise AssertionError('expected TypeError')

    # methods and callable objects
    class C(object):
        def m(self, x, y=dflt):
            return self, x, y

        def __call__(self, y, x=dflt):
            return 'call', x, y
    inst = C()
    r = inject(inst.m, {'x': a, 'self': 'nope', 'y': b})
    assert r[0] is inst and r[1] is a and r[2] is b
    r = inject(inst, {'y': b})
    assert r == ('call', dflt, b)

    # injectables is not mutated, identity of mutable values is preserved
    lst = []
    src = {'x': lst, 'zz': 1}
    r = inject(lambda x, y=3: (x, y), src)
    assert r[0] is lst and r[1] == 3
    assert src == {'x': lst, 'zz': 1}


# --------------------------------------------------------- chain_argspec ----

def check_chain_argspec():
    def mw1(next, a, b=1):
        pass

    def mw2(next, c, d, e=None):
        pass

    def ep(a, c, f, g=2, b=3):
        pass

    reqs, opts = chain_argspec([mw1, mw2, ep], [('c',), ('f', 'zz'), ()], 'next')
    assert reqs == set(['a', 'd']), reqs
    assert opts == set(['b', 'e', 'g']), opts
    assert isinstance(reqs, set) and isinstance(opts, set)

    reqs, opts = chain_argspec([ep], [()], 'next')
    assert reqs == set(['a', 'c', 'f']) and opts == set(['g', 'b'])

    reqs, opts = chain_argspec([], [], 'next')
    assert reqs == set() and opts == set()

    # 'next' is only special under the given inner name
    reqs, opts = chain_argspec([mw1], [()], 'inner')
    assert reqs == set(['next', 'a'])

    def kwo(next, a, *, k, j=5):
        pass
    reqs, opts = chain_argspec([kwo], [()], 'next')
    assert reqs == set(['a', 'k']) and opts == set(['j'])


# ------------------------------------------------------- build_chain_str ----

EXPECTED_SRC = (
    "def next(a, d):\n"
    "    def next(c):\n"
    "        def next(f, zz):\n"
    "            __traceback_hide__ = True\n"
    "            return funcs[2](a=a, c=c, f=f)\n"
    "        __traceback_hide__ = True\n"
    "        return funcs[1](c=c, d=d, next=next)\n"
    "    __traceback_hide__ = True\n"
    "    return funcs[0](a=a, next=next)\n")


def check_build_chain_str():
    def mw1(next, a, b=1):
        pass

    def mw2(next, c, d, e=None):
        pass

    def ep(a, c, f, g=2, b=3):
        pass

    src = build_chain_str([mw1, mw2, ep], [['a', 'd'], ('c',), ('f', 'zz')], 'next')
    assert src == EXPECTED_SRC, src
    assert build_chain_str([], [], 'next') == ''

    # in-scope defaulted params ARE passed by name; out-of-scope are not
    src = build_chain_str([ep], [['g', 'c', 'a', 'f']], 'next')
    assert src == ("def next(g, c, a, f):\n"
                   "    __traceback_hide__ = True\n"
                   "    return funcs[0](a=a, c=c, f=f, g=g)\n"), src

    # params_sofar is shared/mutated down the recursion
    sofar = set(['next', 'pre'])
    build_chain_str([mw1, ep], [['a'], ['c', 'f']], 'next', sofar)
    assert sofar == set(['next', 'pre', 'a', 'c', 'f']), sofar

    # level offsets indentation and the funcs index
    src = build_chain_str([ep], [['a', 'c', 'f']], 'next', None, 2)
    assert src == ("        def next(a, c, f):\n"
                   "            __traceback_hide__ = True\n"
                   "            return funcs[2](a=a, c=c, f=f)\n"), src

    def no_args():
        pass
    src = build_chain_str([no_args], [[]], 'inner')
    assert src == ("def inner():\n"
                   "    __traceback_hide__ = True\n"
                   "    return funcs[0]()\n"), src


# ------------------------------------------------------------ make_chain ----

def check_make_chain():
    log = []
    s = dict((n, Sentinel(n)) for n in 'abcdefgz')
    dflt_b, dflt_e, dflt_g = Sentinel('Db'), Sentinel('De'), Sentinel('Dg')

    def mw1(next, a, b=dflt_b):
        log.append(('mw1', a, b))
        return next(c=s['c'])

    def mw2(next, c, d, e=dflt_e):
        log.append(('mw2', c, d, e))
        return next(f=s['f'], zz=s['z'])

    def ep(a, c, f, g=dflt_g, b=None):
        log.append(('ep', a, c, f, g, b))
        return 'done'

    chain, args, unres = make_chain([mw1, mw2], [('c',), ('f', 'zz')], ep,
                                    ['a', 'd', 'g', 'unused'], 'next')
    assert unres == set(), unres
    assert args == set(['a', 'd', 'g']), args
    assert chain(a=s['a'], d=s['d'], g=s['g']) == 'done'
    assert log[0] == ('mw1', s['a'], dflt_b)
    assert log[1] == ('mw2', s['c'], s['d'], dflt_e)
    # g was offered, so ep's default for g is NOT used; b is not offered
    assert log[2] == ('ep', s['a'], s['c'], s['f'], s['g'], None)
    for entry in log:
        for v in entry[1:]:
            assert v is None or isinstance(v, Sentinel)

    chain, args, unres = make_chain([mw1, mw2], [('c',), ('f', 'zz')], ep,
                                    ['a'], 'next')
    assert unres == set(['d']) and args == set(['a', 'd'])

    # compile_chain gives a callable named after inner_name
    fn = compile_chain([ep], [['a', 'c', 'f']], 'next')
    assert fn.__name__ == 'next'
    del log[:]
    fn(a=1, c=2, f=3)
    assert log == [('ep', 1, 2, 3, dflt_g, None)]


# ------------------------------------------------------- end-to-end app -----

def check_app():
    res_db = Sentinel('db')
    seen = []

    class ProvMW(Middleware):
        provides = ('token',)

        def request(self, next, request, db):
            seen.append(('mw', request, db))
            return next(token=Sentinel('tok:' + request.path))

    def ep(request, db, token, num, _application, _route, opt='dflt', limit=10):
        seen.append(('ep', request, db, token, num, _application, _route, opt, limit))
        return Response('ok')

    app = Application([('/n/<num:int>', ep)], resources={'db': res_db, 'limit': 0},
                      middlewares=[ProvMW()])
    cl = app.get_local_client()
    for n in (0, 7, 12345):
        del seen[:]
        resp = cl.get('/n/%d' % n)
        assert resp.status_code == 200, resp.status_code
        mw_rec, ep_rec = seen
        assert mw_rec[2] is res_db
        assert ep_rec[1] is mw_rec[1]
        assert ep_rec[2] is res_db
        assert ep_rec[3].label == 'tok:/n/%d' % n
        assert ep_rec[4] == n and type(ep_rec[4]) is int
        assert ep_rec[5] is app
        assert ep_rec[6] is app.routes[0]
        assert ep_rec[7] == 'dflt'      # nobody offers "opt"
        assert ep_rec[8] == 0           # falsy resource beats the default


def main():
    check_inject()
    check_chain_argspec()
    check_build_chain_str()
    check_make_chain()
    check_app()
    print('PASS')
    return 0


if __name__ == '__main__':
    sys.exit(main())
