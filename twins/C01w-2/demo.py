# -*- coding: utf-8 -*-
"""demo2: signature extraction (sinter.get_fb) for every supported kind of
callable, and the bind-time accept/reject decision + run-time behaviour that is
built on it.

Prints PASS and exits 0 on unmodified code and with patch2.diff applied.
"""
import os
import sys

sys.path.insert(0, os.path.dirname(os.path.abspath(__file__)))

from werkzeug.wrappers import Response
from boltons.funcutils import FunctionBuilder

import clastic.sinter
from clastic.sinter import get_fb, get_arg_names, inject, make_chain
from clastic.sinter import FunctionBuilder as SinterFB   # used by middleware.context
from clastic import Application, Route, Middleware
from clastic.decorators import clastic_decorator
from clastic.errors import ErrorHandler


class ReraisingHandler(ErrorHandler):
    def uncaught_to_response(self, _application, _route, **kwargs):
        raise


def render_txt(context):
    return Response(repr(context), mimetype='text/plain')


def get(app, path):
    resp = app.get_local_client().get(path)
    return resp.status_code, resp.get_data(True)


def sig(f, **kw):
    fb = get_fb(f, **kw)
    return (list(fb.args), list(fb.kwonlyargs), fb.get_arg_names(),
            fb.get_arg_names(only_required=True), fb.get_defaults_dict(),
            fb.varargs, fb.varkw)


# ------------------------------------------------------------ callable kinds

def plain(a, b=2, *, c, d=4):
    return (a, b, c, d)


def posonly(a, b=0, /, c=1):
    return (a, b, c)


def star(a, *args, **kwargs):
    return a


class Klass(object):
    def method(self, a, b='B'):
        return ('method', a, b)

    @staticmethod
    def static(a, b='B'):
        return ('static', a, b)

    @classmethod
    def klassmethod(cls, a, b='B'):
        return ('classmethod', a, b)

    def __call__(self, a, b='B'):
        return ('call', a, b)


class Precomputed(object):
    """callable object carrying its own FunctionBuilder"""
    def __init__(self):
        self._sinter_fb = FunctionBuilder('pre', args=['a'])

    def __call__(self, *a, **kw):
        return ('pre', kw.get('a'))


class NotAnFB(object):
    _sinter_fb = 'not a FunctionBuilder'   # must be ignored

    def __call__(self, a, zz=None):
        return ('notfb', a, zz)


@clastic_decorator
def passthrough(f):
    def wrapper(*a, **kw):
        return ('wrapped', f(*a, **kw))
    return wrapper


@passthrough
def decorated(a, b='B'):
    return (a, b)


def check_get_fb():
    assert SinterFB is FunctionBuilder
    assert clastic.sinter.get_fb is get_fb
    assert callable(get_fb) and get_fb.__name__ == 'get_fb'

    assert sig(plain) == (['a', 'b'], ['c', 'd'], ('a', 'b', 'c', 'd'), ('a', 'c'),
                          {'b': 2, 'd': 4}, None, None), sig(plain)
    assert sig(posonly)[2:5] == (('a', 'b', 'c'), ('a',), {'b': 0, 'c': 1})
    assert sig(star)[5:] == ('args', 'kwargs')
    assert sig(lambda: None)[2] == ()
    assert sig(lambda x, y=None: None)[2:5] == (('x', 'y'), ('x',), {'y': None})

    k = Klass()
    # bound methods lose "self" ...
    assert sig(k.method)[2:5] == (('a', 'b'), ('a',), {'b': 'B'})
    # ... unless told otherwise
    assert sig(k.method, drop_self=False)[2] == ('self', 'a', 'b')
    assert sig(k.method, drop_self=0)[2] == ('self', 'a', 'b')
    # unbound function taken from the class keeps it
    assert sig(Klass.method)[2] == ('self', 'a', 'b')
    assert sig(Klass.static)[2] == ('a', 'b') and sig(k.static)[2] == ('a', 'b')
    assert sig(Klass.klassmethod)[2] == ('a', 'b') and sig(k.klassmethod)[2] == ('a', 'b')
    # callable objects go through __call__
    assert sig(k)[2:5] == (('a', 'b'), ('a',), {'b': 'B'})
    assert sig(k, drop_self=False)[2] == ('self', 'a', 'b')

    # precomputed builders are returned as they are (same object)
    pre = Precomputed()
    assert get_fb(pre) is pre._sinter_fb
    assert get_fb(decorated) is decorated._sinter_fb
    assert get_fb(decorated).get_arg_names() == ('a', 'b')
    # on a function attribute too
    def with_attr(q): pass
    with_attr._sinter_fb = FunctionBuilder('w', args=['other'])
    assert get_fb(with_attr) is with_attr._sinter_fb
    # an attribute on the __call__ of a callable object's class
    class CallAttr(object):
        def __call__(self, x): pass
    CallAttr.__call__._sinter_fb = FunctionBuilder('c', args=['self', 'y'])
    assert get_fb(CallAttr()) is CallAttr.__call__._sinter_fb
    # a non-FunctionBuilder attribute is ignored
    assert sig(NotAnFB())[2] == ('a', 'zz')
    with_attr._sinter_fb = None
    assert sig(with_attr)[2] == ('q',)

    # a new builder per call for ordinary functions
    assert get_fb(plain) is not get_fb(plain)

    # unsupported things: exception types
    for bad in (None, 3, 'str', object()):
        try:
            get_fb(bad)
        except (TypeError, AttributeError, ValueError):
            pass
        else:
            raise AssertionError('get_fb(%r) should fail' % (bad,))
    # builtins without a Python signature
    try:
        get_fb(len)
    except Exception as e:
        builtin_exc = type(e)
    else:
        builtin_exc = None
    assert builtin_exc in (None, TypeError, ValueError, AttributeError)

    # clastic_decorator refuses *args/**kwargs at decoration time
    try:
        passthrough(star)
    except TypeError as e:
        assert 'does not support functions with *args' in str(e)
    else:
        raise AssertionError('expected TypeError')

    # get_arg_names / inject build on get_fb
    assert get_arg_names(k.method) == ('a', 'b')
    assert get_arg_names(k.method, only_required=True) == ('a',)
    assert inject(k.method, {'a': 1, 'junk': 2}) == ('method', 1, 'B')
    assert inject(k, {'a': 1, 'b': None}) == ('call', 1, None)
    assert inject(plain, {'a': 0, 'c': ''}) == (0, 2, '', 4)


class ProvA(Middleware):
    provides = ('a',)

    def request(self, next):
        return next(a='A')


class CallableObjMW(Middleware):
    """middleware functions of unusual kinds"""
    provides = ('b',)

    def __init__(self):
        class Req(object):
            def __call__(self, next, a):
                return next(b=a.lower())
        self.request = Req()


def check_bind_and_run():
    k = Klass()
    endpoints = [
        ('plain-function', lambda a, b='B': ('fn', a, b), "('fn', 'A', 'B')"),
        ('bound-method', k.method, "('method', 'A', 'B')"),
        ('callable-object', k, "('call', 'A', 'B')"),
        ('staticmethod', Klass.static, "('static', 'A', 'B')"),
        ('classmethod', Klass.klassmethod, "('classmethod', 'A', 'B')"),
        ('decorated', decorated, "('wrapped', ('A', 'B'))"),
    ]
    for label, ep, expected in endpoints:
        # accepted when 'a' is provided ...
        app = Application(routes=[('/', ep, render_txt)], middlewares=[ProvA()],
                          error_handler=ReraisingHandler())
        assert get(app, '/') == (200, expected), (label, get(app, '/'))
        # ... 'b' picks up a later provider instead of its default
        app = Application(routes=[('/', ep, render_txt)],
                          middlewares=[ProvA(), CallableObjMW()],
                          error_handler=ReraisingHandler())
        assert get(app, '/') == (200, expected.replace("'B'", "'a'")), (label, get(app, '/'))
        # ... and from the URL, converted
        app = Application(routes=[('/<a:int>/<b>', ep, render_txt)],
                          error_handler=ReraisingHandler())
        assert get(app, '/5/x') == (200, expected.replace("'A'", '5').replace("'B'", "'x'")), label
        # rejected when nothing provides 'a'
        try:
            Application(routes=[('/', ep, render_txt)])
        except NameError as e:
            assert "'a'" in str(e), (label, str(e))
        else:
            raise AssertionError('%s: expected NameError' % label)

    # unbound method: 'self' is an ordinary (unsatisfied) parameter
    try:
        Application(routes=[('/', Klass.method, render_txt)], resources={'a': 1})
    except NameError as e:
        assert 'self' in str(e)
    else:
        raise AssertionError('expected NameError')

    # render given as a callable object / bound method
    class Rn(object):
        def __call__(self, context, suffix):
            return Response('%s%s' % (context, suffix))

        def meth(self, context, request, suffix='?'):
            return Response('%s%s%s' % (context, suffix, request.path))
    app = Application(routes=[('/', lambda: 'ctx', Rn()), ('/m', lambda: 'ctx', Rn().meth)],
                      resources={'suffix': '!'}, error_handler=ReraisingHandler())
    assert get(app, '/') == (200, 'ctx!')
    assert get(app, '/m') == (200, 'ctx!/m')
    try:
        Application(routes=[('/', lambda: 'ctx', Rn())])
    except NameError as e:
        assert 'suffix' in str(e)
    else:
        raise AssertionError('expected NameError')

    # keyword-only and positional-only parameters
    def kwo(a, *, b, c='C'):
        return (a, b, c)
    try:
        Application(routes=[('/', kwo, render_txt)], resources={'a': 1})
    except NameError as e:
        assert "'b'" in str(e)
    else:
        raise AssertionError('expected NameError')
    app = Application(routes=[('/', kwo, render_txt)], resources={'a': 1, 'b': 2},
                      error_handler=ReraisingHandler())
    assert get(app, '/') == (200, "(1, 2, 'C')")

    # make_chain directly: required / optional bookkeeping
    def mw1(next, x, y=None):
        return next(z=(x, y))

    def final(z, w=0):
        return (z, w)
    chain, args, unres = make_chain([mw1], [('z',)], final, ['x', 'y', 'w'], 'next')
    assert (args, unres) == ({'x', 'y', 'w'}, set())
    assert chain(x=1, y=2, w=3) == ((1, 2), 3)
    chain, args, unres = make_chain([mw1], [('z',)], final, [], 'next')
    assert (args, unres) == ({'x'}, {'x'})
    assert chain(x=1) == ((1, None), 0)


def main():
    check_get_fb()
    check_bind_and_run()
    print('PASS')


if __name__ == '__main__':
    main()
