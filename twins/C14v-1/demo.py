# -*- coding: utf-8 -*-
"""demo1: confinement + faithful serving, focused on find_file's search loop.

Builds a directory tree (two search roots, secrets beside and above them),
then checks:
  * find_file directly: refusals, first-root-wins, laziness of the search
    (stops probing at the first hit), None when nothing matches,
    limit_root=False, one-shot iterators as search_paths;
  * over HTTP: every enumerated path answers either the exact bytes of a
    regular file inside the roots (with Content-Length / Last-Modified /
    Content-Type) or 403/404 (or a slash redirect), never a secret, never 500;
  * every regular file is served at its relative path, first root winning.
Prints PASS and exits 0 on success.
"""
import itertools
import os
import shutil
import sys
import tempfile
from urllib.parse import quote

sys.path.insert(0, os.path.dirname(os.path.abspath(__file__)))

import clastic.static as cs
from clastic import Application, StaticApplication
from clastic.static import find_file

FIXED_MTIME = 1500000000  # 2017-07-14T02:40:00Z


def write(path, data):
    os.makedirs(os.path.dirname(path), exist_ok=True)
    with open(path, 'wb') as f:
        f.write(data)
    os.utime(path, (FIXED_MTIME, FIXED_MTIME))


def build_tree(top):
    root_a = os.path.join(top, 'outer', 'root_a')
    root_b = os.path.join(top, 'outer', 'root_b')
    files_a = {
        'a.txt': b'alpha\n',
        'empty.txt': b'',
        'blob.bin': bytes(range(256)) * 3,
        'noext': b'plain text without extension',
        'noext_bin': b'\x00\x01\x02\x03binary',
        'sub/b.html': b'<html>b</html>',
        'sub/deep/c.tar.gz': b'\x1f\x8b\x08\x00fake',
        'sub/with space.txt': b'spaced',
        'sub/.hidden': b'hidden but inside',
        u'sub/caf\xe9.txt': u'caf\xe9'.encode('utf-8'),
        'shared.txt': b'shared from A',
        'x..y/z.txt': b'dots in the middle',
    }
    files_b = {
        'shared.txt': b'shared from B',
        'only_b.txt': b'only in B',
        'sub/b_only.css': b'body{}',
        'sub': None,  # placeholder, dir exists through the entry above
    }
    for rel, data in files_a.items():
        write(os.path.join(root_a, rel), data)
    for rel, data in files_b.items():
        if data is not None:
            write(os.path.join(root_b, rel), data)
    # a directory whose name looks like a file of root_a: root_b/a.txt/ is a dir
    os.makedirs(os.path.join(root_b, 'dir.txt'))
    write(os.path.join(root_a, 'dir.txt'), b'file in A, dir in B')
    # secrets beside and above the roots
    write(os.path.join(top, 'outer', 'secret_beside.txt'), b'SECRET-BESIDE')
    write(os.path.join(top, 'secret_above.txt'), b'SECRET-ABOVE')
    write(os.path.join(top, 'outer', 'root_a_evil', 'p.txt'), b'SECRET-PREFIX')
    files_b = dict((k, v) for k, v in files_b.items() if v is not None)
    files_a['dir.txt'] = b'file in A, dir in B'
    return root_a, root_b, files_a, files_b


def check_find_file_direct(root_a, root_b, files_a, files_b):
    roots = [root_a, root_b]
    # refusals
    for bad in ['/etc/passwd', '//etc/passwd', '..', '../x', '../../x',
                'sub/../../secret_beside.txt', 'a/../../b', '..a.txt', '...',
                '../root_a/a.txt', root_a + '/a.txt', './../a.txt']:
        try:
            find_file(roots, bad)
        except ValueError:
            pass
        else:
            raise AssertionError('no refusal for %r' % bad)
    # not refused with limit_root=False (absolute path join discards the root)
    assert find_file(roots, root_a + '/a.txt', limit_root=False) == root_a + '/a.txt'
    assert find_file(roots, '../secret_beside.txt', limit_root=False) == \
        os.path.join(root_a, '../secret_beside.txt')
    # hits / first root wins / fall through to the second root
    assert find_file(roots, 'a.txt') == os.path.join(root_a, 'a.txt')
    assert find_file(roots, './sub//deep/../b.html') == os.path.join(root_a, 'sub/b.html')
    assert find_file(roots, 'shared.txt') == os.path.join(root_a, 'shared.txt')
    assert find_file(roots[::-1], 'shared.txt') == os.path.join(root_b, 'shared.txt')
    assert find_file(roots, 'only_b.txt') == os.path.join(root_b, 'only_b.txt')
    assert find_file(roots[::-1], 'dir.txt') == os.path.join(root_a, 'dir.txt')
    # misses give None (never an exception), directories are not files
    for miss in ['nope.txt', 'sub', 'sub/', 'sub/deep', '.', '', 'a.txt/x',
                 'sub/nope/../b.html/..']:
        assert find_file(roots, miss) is None, miss
    assert find_file([], 'a.txt') is None
    assert find_file((), 'a.txt') is None
    # tuple / generator / one-shot iterator search paths
    assert find_file(tuple(roots), 'only_b.txt') == os.path.join(root_b, 'only_b.txt')
    assert find_file((r for r in roots), 'only_b.txt') == os.path.join(root_b, 'only_b.txt')
    it = iter([root_b, root_a, '/nonexistent'])
    assert find_file(it, 'a.txt') == os.path.join(root_a, 'a.txt')
    assert list(it) == ['/nonexistent'], 'search must stop at the first hit'
    # laziness: isfile is probed in order and not after the first hit
    probed = []
    real_isfile = cs.isfile

    def spy(p):
        probed.append(p)
        return real_isfile(p)
    cs.isfile = spy
    try:
        find_file([root_b, root_a, root_b], 'a.txt')
        assert probed == [os.path.join(root_b, 'a.txt'), os.path.join(root_a, 'a.txt')], probed
        del probed[:]
        assert find_file([root_b, root_b], 'a.txt') is None
        assert len(probed) == 2
        del probed[:]
        try:
            find_file([root_a], '../a.txt')
        except ValueError:
            pass
        assert probed == [], 'refusal must come before any filesystem probe'
    finally:
        cs.isfile = real_isfile
    # errors of the probe propagate unchanged
    def boom(p):
        raise OSError(5, 'EIO')
    cs.isfile = boom
    try:
        try:
            find_file(roots, 'a.txt')
        except OSError as e:
            assert e.errno == 5
        else:
            raise AssertionError('OSError swallowed')
        assert find_file([], 'a.txt') is None
    finally:
        cs.isfile = real_isfile
    # non-string search root: TypeError from the join, as before
    try:
        find_file([None], 'a.txt')
    except TypeError:
        pass
    else:
        raise AssertionError('expected TypeError')


def expected_file(roots, all_files, resolved):
    """Reference model: the first root holding a regular file at *resolved*."""
    for root in roots:
        full = os.path.join(root, resolved)
        if os.path.isfile(full):
            return full
    return None


def check_http(top, root_a, root_b, files_a, files_b):
    roots = [root_a, root_b]
    inside = {}
    for root, files in ((root_b, files_b), (root_a, files_a)):
        for rel, data in files.items():
            inside[rel] = data  # root_a written last => wins
    inside_bodies = set(inside.values()) | set(files_b.values())
    secrets = [b'SECRET-BESIDE', b'SECRET-ABOVE', b'SECRET-PREFIX']

    static_app = StaticApplication(roots)
    for prefix, slash_mode in (('/static/', 'redirect'), ('/', 'rewrite'),
                               ('/p/q/', 'strict')):
        app = Application([(prefix, static_app)], slash_mode=slash_mode)
        client = app.get_local_client()

        # 1. every file is served at its relative path, faithfully
        for rel, data in sorted(inside.items()):
            resp = client.get(prefix + quote(rel))
            assert resp.status_code == 200, (prefix, rel, resp.status_code)
            assert resp.data == data, (prefix, rel)
            assert resp.content_length == len(data)
            assert resp.headers['Content-Length'] == str(len(data))
            assert resp.headers['Last-Modified'] == 'Fri, 14 Jul 2017 02:40:00 GMT'
            assert resp.headers.get('Content-Type'), rel
            assert 'max-age=360' in resp.headers['Cache-Control']
        resp = client.get(prefix + 'shared.txt')
        assert resp.data == b'shared from A'
        resp = client.get(prefix + 'only_b.txt')
        assert resp.data == b'only in B'
        assert client.get(prefix + 'a.txt').mimetype == 'text/plain'
        assert client.get(prefix + 'sub/b.html').mimetype == 'text/html'
        assert client.get(prefix + 'noext').mimetype == 'text/plain'
        assert client.get(prefix + 'noext_bin').mimetype == 'application/octet-stream'
        assert client.get(prefix + 'empty.txt').data == b''

        # 2. enumerated request paths never leave the roots
        abs_pieces = [p for p in top.split('/') if p]
        segs = ['a.txt', 'sub', 'b.html', 'deep', '.', '..', '', '...',
                'secret_beside.txt', 'secret_above.txt', 'outer', 'root_a',
                'root_a_evil', 'p.txt', '%2e%2e', '..%2f', '%2e%2e%2f..']
        paths = []
        for depth in (1, 2, 3):
            for combo in itertools.product(segs, repeat=depth):
                paths.append('/'.join(combo))
        # absolute forms: //<abs path of secrets and of legit files>
        for target in (os.path.join(top, 'secret_above.txt'),
                       os.path.join(top, 'outer', 'secret_beside.txt'),
                       os.path.join(root_a, 'a.txt'), '/etc/passwd', '/etc/hosts'):
            paths.append(target)            # prefix + '/abs...' => empty first segment
            paths.append('/' + target)
            paths.append('sub/' + target)
            paths.append('..' + target)
        paths.append('/'.join(['..'] * (len(abs_pieces) + 6)) + '/etc/passwd')
        statuses = {}
        for p in paths:
            resp = client.get(prefix + p)
            sc = resp.status_code
            statuses[sc] = statuses.get(sc, 0) + 1
            assert sc != 500, (prefix, p)
            for s in secrets:
                assert s not in resp.data, ('leak', prefix, p)
            if sc == 200:
                assert resp.data in inside_bodies, (prefix, p)
                assert resp.content_length == len(resp.data)
                assert resp.headers.get('Last-Modified')
                assert resp.headers.get('Content-Type')
            else:
                assert sc in (403, 404, 301, 302, 307, 308), (prefix, p, sc)
        assert statuses.get(200) and statuses.get(403) and statuses.get(404), statuses

        # 3. explicit escapes are refused (403), misses are 404
        for p in ['../secret_beside.txt', 'sub/../../secret_beside.txt',
                  '../../secret_above.txt', '../root_a/a.txt',
                  '../root_a_evil/p.txt', '..a.txt']:
            sc = client.get(prefix + p).status_code
            assert sc == 403, (prefix, p, sc)
        if prefix != '/':  # '//x' would be read as a network location by the client
            for p in [os.path.join(root_a, 'a.txt'), '/etc/passwd',
                      os.path.join(top, 'secret_above.txt')]:
                sc = client.get(prefix + p).status_code
                # strict slashes: the doubled slash does not even match the route
                want = 404 if slash_mode == 'strict' else 403
                assert sc == want, (prefix, p, sc)
        for p in ['nope.txt', 'sub/nope', 'a.txt/extra']:
            sc = client.get(prefix + p).status_code
            assert sc == 404, (prefix, p, sc)


def main():
    top = tempfile.mkdtemp(prefix='c14demo1_')
    try:
        root_a, root_b, files_a, files_b = build_tree(top)
        check_find_file_direct(root_a, root_b, files_a, files_b)
        check_http(top, root_a, root_b, files_a, files_b)
    finally:
        shutil.rmtree(top, ignore_errors=True)
    print('PASS')


if __name__ == '__main__':
    main()
