import itertools
import os
import sys

sys.path.insert(0, os.path.dirname(os.path.abspath(__file__)))

from werkzeug.test import EnvironBuilder
from werkzeug.wrappers import Request, Response, BaseResponse

import clastic
from clastic import Application, Route
from clastic.middleware import Middleware

assert os.path.dirname(os.path.abspath(clastic.__file__)).startswith(
    os.path.dirname(os.path.abspath(__file__))), clastic.__file__

TRACE = []
STAGES = ('request', 'endpoint', 'render')
# what a layer can do
ACTIONS = ('pass', 'raise_before', 'raise_after', 'short', 'short_ctx', 'swallow')


class Boom(Exception):
    pass


def describe(value):
    if isinstance(value, BaseResponse):
        return ('R', value.get_data(as_text=True))
    return ('C', repr(value))


_CLS_COUNTER = itertools.count()


def _make_stage_func(stage):
    def body(self, next):
        tag, act = self.tag, self.actions.get(stage, 'pass')
        TRACE.append(('enter', stage, tag))
        if act == 'raise_before':
            raise Boom('%s.%s before' % (tag, stage))
        if act == 'short':
            return Response('short %s.%s' % (tag, stage))
        if act == 'short_ctx':
            return {'short_ctx': '%s.%s' % (tag, stage)}
        try:
            ret = next()
        except Exception as e:
            TRACE.append(('exc', stage, tag, type(e).__name__, str(e)))
            if act == 'swallow':
                return Response('swallowed by %s.%s' % (tag, stage))
            raise
        TRACE.append(('leave', stage, tag, describe(ret)))
        if act == 'raise_after':
            raise Boom('%s.%s after' % (tag, stage))
        return ret

    if stage == 'render':
        def func(self, next, context):
            return body(self, next)
    elif stage == 'request':
        def func(self, next, request):
            return body(self, next)
    else:
        def func(self, next):
            return body(self, next)
    func.__name__ = stage
    return func


def make_mw(tag, stages=STAGES, actions=None, unique=True, reorderable=True, cls=None):
    """A tracing middleware; actions: {stage: action}. Passing cls= makes another instance of an
    existing type (equal to the first as far as clastic is concerned)."""
    if cls is None:
        attrs = dict((stage, _make_stage_func(stage)) for stage in stages)
        attrs.update(unique=unique, reorderable=reorderable, stage_names=tuple(stages))
        cls = type('MW%d_%s' % (next(_CLS_COUNTER), tag), (Middleware,), attrs)
    inst = cls()
    inst.tag = tag
    inst.actions = dict(actions or {})
    return inst


def make_endpoint(kind='ctx'):
    def endpoint():
        TRACE.append(('enter', 'EP'))
        if kind == 'raise':
            raise Boom('endpoint')
        if kind == 'resp':
            ret = Response('endpoint response')
        elif kind == 'ctx':
            ret = {'from': 'endpoint'}
        else:
            ret = kind  # any literal context
        TRACE.append(('leave', 'EP', describe(ret)))
        return ret
    return endpoint


def make_render(kind='ok'):
    def render(context):
        TRACE.append(('enter', 'RN', describe(context)))
        if kind == 'raise':
            raise Boom('render')
        ret = Response('rendered %r' % (context,))
        TRACE.append(('leave', 'RN', describe(ret)))
        return ret
    return render


def new_request(path='/'):
    return Request(EnvironBuilder(path=path).get_environ())


def run_route(app, path='/'):
    """Execute the (single) matching bound route directly, so the exact object returned / exception
    raised by the outermost layer is visible. Returns (outcome, trace)."""
    broutes = [br for br in app.routes if br.match_path(path) is not None]
    assert len(broutes) == 1, (path, broutes)
    del TRACE[:]
    try:
        ret = broutes[0].execute(new_request(path))
    except Boom as e:
        outcome = ('exc', type(e).__name__, str(e))
    else:
        outcome = ('ret', describe(ret))
    return outcome, list(TRACE)


# ---------------------------------------------------------------------------------------------
# An independent model of the documented behaviour.

def model(layers, ep_kind='ctx', rn_kind='ok'):
    """layers: the merged middleware list as [(tag, stages, actions)] outermost first."""
    trace = []

    def run_stage(stage, innermost):
        stage_layers = [(tag, acts.get(stage, 'pass')) for tag, stages, acts in layers
                        if stage in stages]

        def go(i):
            if i == len(stage_layers):
                return innermost()
            tag, act = stage_layers[i]
            trace.append(('enter', stage, tag))
            if act == 'raise_before':
                return ('exc', 'Boom', '%s.%s before' % (tag, stage))
            if act == 'short':
                return ('ret', ('R', 'short %s.%s' % (tag, stage)))
            if act == 'short_ctx':
                return ('ret', ('C', repr({'short_ctx': '%s.%s' % (tag, stage)})))
            res = go(i + 1)
            if res[0] == 'exc':
                trace.append(('exc', stage, tag, res[1], res[2]))
                if act == 'swallow':
                    return ('ret', ('R', 'swallowed by %s.%s' % (tag, stage)))
                return res
            trace.append(('leave', stage, tag, res[1]))
            if act == 'raise_after':
                return ('exc', 'Boom', '%s.%s after' % (tag, stage))
            return res
        return go(0)

    def endpoint():
        trace.append(('enter', 'EP'))
        if ep_kind == 'raise':
            return ('exc', 'Boom', 'endpoint')
        if ep_kind == 'resp':
            val = ('R', 'endpoint response')
        elif ep_kind == 'ctx':
            val = ('C', repr({'from': 'endpoint'}))
        else:
            val = ('C', repr(ep_kind))
        trace.append(('leave', 'EP', val))
        return ('ret', val)

    def process_request():
        res = run_stage('endpoint', endpoint)
        if res[0] == 'exc' or res[1][0] == 'R':
            return res  # exception, or the endpoint side produced a Response: no render
        ctx = res[1]

        def render():
            trace.append(('enter', 'RN', ctx))
            if rn_kind == 'raise':
                return ('exc', 'Boom', 'render')
            # repr of the context object itself
            val = ('R', 'rendered %s' % ctx[1])
            trace.append(('leave', 'RN', val))
            return ('ret', val)
        return run_stage('render', render)

    outcome = run_stage('request', process_request)
    return outcome, trace


def merged_model(outer_to_inner_lists):
    """Expected merge: concatenate outermost application's list first; a unique type appears once,
    at its outermost position."""
    merged = []
    for mw_list in outer_to_inner_lists:
        for mw in mw_list:
            if mw.unique and any(type(m) is type(mw) for m in merged):
                continue
            merged.append(mw)
    return merged


def as_layers(mws):
    return [(mw.tag, mw.stage_names, mw.actions) for mw in mws]


def check(app, expected_mws, ep_kind='ctx', rn_kind='ok', path='/', label=''):
    got = run_route(app, path)
    want = model(as_layers(expected_mws), ep_kind, rn_kind)
    assert got == want, '%s\n got: %r\nwant: %r' % (label, got, want)
    return got


def onion_cross_product():
    """Every single deviating function in a 3-middleware stack placed at app / sub-app / route level."""
    n = 0
    for ep_kind, rn_kind in (('ctx', 'ok'), ('resp', 'ok'), ('raise', 'ok'), ('ctx', 'raise')):
        for pos in range(3):
            for stage in STAGES:
                for act in ACTIONS:
                    acts = [{}, {}, {}]
                    acts[pos] = {stage: act}
                    a = make_mw('A', actions=acts[0])
                    b = make_mw('B', actions=acts[1], stages=('request', 'render'))
                    c = make_mw('C', actions=acts[2], stages=('endpoint', 'render', 'request'))
                    ep, rn = make_endpoint(ep_kind), make_render(rn_kind)
                    inner = Application([Route('/x', ep, rn, middlewares=[c])], middlewares=[b])
                    outer = Application([('/sub', inner)], middlewares=[a])
                    check(outer, [a, b, c], ep_kind, rn_kind, path='/sub/x',
                          label='%s/%s pos=%s %s=%s' % (ep_kind, rn_kind, pos, stage, act))
                    n += 1
    return n


def merge_scenarios():
    ep, rn = make_endpoint(), make_render()
    # the same unique type at app, sub-app and route level: kept once, outermost
    u_outer = make_mw('U-outer')
    u_mid = make_mw('U-mid', cls=type(u_outer))
    u_route = make_mw('U-route', cls=type(u_outer))
    x, y, z = make_mw('X'), make_mw('Y'), make_mw('Z')
    inner = Application([Route('/x', ep, rn, middlewares=[z, u_route])], middlewares=[u_mid, y])
    outer = Application([('/sub', inner)], middlewares=[x, u_outer])
    exp = merged_model([[x, u_outer], [u_mid, y], [z, u_route]])
    assert [m.tag for m in exp] == ['X', 'U-outer', 'Y', 'Z']
    check(outer, exp, path='/sub/x', label='unique dedupe')
    assert [m.tag for m in outer.routes[0].middlewares] == ['X', 'U-outer', 'Y', 'Z']
    # the sub application on its own keeps its own instance
    check(inner, merged_model([[u_mid, y], [z, u_route]]), path='/x', label='inner alone')

    # non-unique types are all kept, in order
    n1 = make_mw('N1', unique=False, stages=('request', 'render'))
    n2 = make_mw('N2', cls=type(n1), actions={'render': 'raise_after'})
    n3 = make_mw('N3', cls=type(n1), actions={'render': 'swallow'})
    n4 = make_mw('N4', cls=type(n1))
    inner = Application([Route('/x', ep, rn, middlewares=[n3, n4])], middlewares=[n2])
    outer = Application([('/sub', inner)], middlewares=[n1])
    exp = merged_model([[n1], [n2], [n3, n4]])
    assert [m.tag for m in exp] == ['N1', 'N2', 'N3', 'N4']
    check(outer, exp, path='/sub/x', label='non-unique kept')

    # unique and not reorderable: second inclusion rejected at bind time
    f1 = make_mw('F1', reorderable=False)
    f2 = make_mw('F2', cls=type(f1))
    try:
        Application([Route('/x', ep, rn, middlewares=[f2])], middlewares=[f1])
    except ValueError as e:
        assert 'multiple inclusion of unique middleware' in str(e), e
    else:
        raise AssertionError('non-reorderable duplicate accepted')
    return True


def client_level():
    """End to end through WSGI: a 200 from the onion, a 500 when an exception escapes it."""
    a = make_mw('A')
    app = Application([Route('/', make_endpoint(), make_render(), middlewares=[make_mw('B')])],
                      middlewares=[a])
    resp = app.get_local_client().get('/')
    assert resp.status_code == 200 and resp.get_data(as_text=True) == "rendered {'from': 'endpoint'}"
    a = make_mw('A', actions={'render': 'raise_after'})
    app = Application([Route('/', make_endpoint(), make_render())], middlewares=[a])
    del TRACE[:]
    resp = app.get_local_client().get('/')
    assert resp.status_code == 500
    assert [t[:3] for t in TRACE] == [('enter', 'request', 'A'), ('enter', 'endpoint', 'A'), ('enter', 'EP'),
                                      ('leave', 'EP', ('C', "{'from': 'endpoint'}")),
                                      ('leave', 'endpoint', 'A'), ('enter', 'render', 'A'),
                                      ('enter', 'RN', ('C', "{'from': 'endpoint'}")),
                                      ('leave', 'RN', ('R', "rendered {'from': 'endpoint'}")),
                                      ('leave', 'render', 'A'),
                                      ('exc', 'request', 'A')], TRACE
    return True


# ---------------------------------------------------------------------------------------------
# demo2 focus: chain_argspec / make_chain -- which arguments a chain takes, which remain
# unresolved, and that the compiled chain nests funcs[0] around funcs[1] around ... final_func.

def argspec_direct():
    from clastic.sinter import chain_argspec

    def f_plain(next, a, b): pass
    def f_dflt(next, a, c=3, d=4): pass
    def f_inner(next, x, e=5): pass
    def final(a, x, y, z=0): pass
    def no_args(): pass
    def only_next(next): pass

    class CallableObj(object):
        def __call__(self, next, q, r=1): pass

    cases = [
        # funcs, provides, expected required, expected optional
        ([], [], set(), set()),
        ([no_args], [()], set(), set()),
        ([only_next], [()], set(), set()),
        ([f_plain], [()], {'a', 'b'}, set()),
        ([f_dflt], [()], {'a'}, {'c', 'd'}),
        # provided further out -> not required; provided by the same or an inner level -> required
        ([f_plain, f_inner, final], [('x',), ('y',), ()], {'a', 'b'}, {'e', 'z'}),
        ([f_plain, f_inner, final], [(), ('x', 'y'), ()], {'a', 'b', 'x'}, {'e', 'z'}),
        ([f_plain, f_inner, final], [('a',), (), ()], {'a', 'b', 'x', 'y'}, {'e', 'z'}),
        # defaulted somewhere and undefaulted elsewhere: in both sets unless provided in between
        ([f_dflt, final], [(), ()], {'a', 'x', 'y'}, {'c', 'd', 'z'}),
        ([final, f_dflt], [('a',), ()], {'a', 'x', 'y'}, {'c', 'd', 'z'}),
        ([f_dflt, lambda c, d: None], [(), ()], {'a', 'c', 'd'}, {'c', 'd'}),
        ([f_dflt, lambda c, d: None], [('c',), ()], {'a', 'd'}, {'c', 'd'}),
        # a provided defaulted argument stays optional
        ([f_plain, f_dflt], [('c', 'a'), ()], {'a', 'b'}, {'c', 'd'}),
        # callable objects, bound methods
        ([CallableObj(), final], [('x', 'y', 'a'), ()], {'q'}, {'r', 'z'}),
        ([CallableObj().__call__], [()], {'q'}, {'r'}),
        # zip semantics: extra funcs / provides beyond the shorter list are ignored
        ([f_plain, final], [('x',)], {'a', 'b'}, set()),
        ([f_plain], [(), ('zzz',)], {'a', 'b'}, set()),
        # provides given as lists / sets / generators / strings of one-letter names
        ([f_plain, final], [['x', 'y'], ()], {'a', 'b'}, {'z'}),
        ([f_plain, final], [{'x', 'y'}, ()], {'a', 'b'}, {'z'}),
        ([f_plain, final], [(n for n in ('x', 'y')), ()], {'a', 'b'}, {'z'}),
        ([f_plain, final], ['xy', ()], {'a', 'b'}, {'z'}),
    ]
    for funcs, provides, want_req, want_opt in cases:
        req, opt = chain_argspec(funcs, provides, 'next')
        assert type(req) is set and type(opt) is set
        assert (req, opt) == (want_req, want_opt), (funcs, provides, req, opt)

    # a different inner name: 'next' is then an ordinary argument
    req, opt = chain_argspec([f_plain], [()], 'inner')
    assert req == {'next', 'a', 'b'} and opt == set()
    req, opt = chain_argspec([lambda inner, a, next=1: None], [()], 'inner')
    assert req == {'a'} and opt == {'next'}

    # things that are not introspectable raise the same error
    for bad in (3, 'nope', None):
        try:
            chain_argspec([bad], [()], 'next')
        except Exception as e:
            assert type(e) in (TypeError, AttributeError, ValueError), e
        else:
            raise AssertionError('accepted %r' % (bad,))
    return len(cases)


def make_chain_direct():
    from clastic.sinter import make_chain
    log = []

    def outer(next, a, flag='outer-default'):
        log.append(('outer in', a, flag))
        ret = next(b=a + 1)
        log.append(('outer out', ret))
        return ('outer', ret)

    def mid(next, b, c):
        log.append(('mid in', b, c))
        ret = next(d=b * 10)
        log.append(('mid out', ret))
        return ('mid', ret)

    def final(a, b, d, e='final-default', flag='final-default'):
        log.append(('final', a, b, d, e, flag))
        return ('final', a, b, d, e, flag)

    for funcs, provides in (([outer, mid], [('b',), ('d',)]),
                            ((outer, mid), (('b',), ('d',))),
                            (iter([outer, mid]), iter([['b'], ['d']]))):
        chain, args, unres = make_chain(funcs, provides, final, {'a', 'c', 'flag', 'unused', 'next'}, 'next')
        assert type(args) is set and type(unres) is set
        assert args == {'a', 'c', 'flag'} and unres == set(), (args, unres)
        assert chain.__name__ == 'next'
        del log[:]
        ret = chain(a=1, c='C', flag='F')
        assert ret == ('outer', ('mid', ('final', 1, 2, 20, 'final-default', 'F'))), ret
        assert log == [('outer in', 1, 'F'), ('mid in', 2, 'C'), ('final', 1, 2, 20, 'final-default', 'F'),
                       ('mid out', ('final', 1, 2, 20, 'final-default', 'F')),
                       ('outer out', ('mid', ('final', 1, 2, 20, 'final-default', 'F')))], log
        # the returned sets are the caller's to keep: mutating them does not disturb the chain
        args.clear()
        unres.add('junk')
        assert chain(a=5, c='C', flag='G')[1][1] == ('final', 5, 6, 60, 'final-default', 'G')

    # 'flag' not preprovided: not an argument of the chain, each function falls back on its own default
    chain, args, unres = make_chain([outer, mid], [('b',), ('d',)], final, {'a', 'c'}, 'next')
    assert args == {'a', 'c'} and unres == set()
    del log[:]
    assert chain(a=1, c=0)[1][1] == ('final', 1, 2, 20, 'final-default', 'final-default')
    assert log[0] == ('outer in', 1, 'outer-default')

    # unresolved: required but not preprovided (still an argument of the chain)
    chain, args, unres = make_chain([outer, mid], [('b',), ('d',)], final, {'a', 'e'}, 'next')
    assert unres == {'c'} and args == {'a', 'c', 'e'}, (args, unres)
    assert chain(a=1, c=2, e='E')[1][1] == ('final', 1, 2, 20, 'E', 'final-default')
    chain, args, unres = make_chain([], [], final, (), 'next')
    assert unres == {'a', 'b', 'd'} and args == {'a', 'b', 'd'}
    assert chain(a=1, b=2, d=3) == ('final', 1, 2, 3, 'final-default', 'final-default')

    # no middleware at all; inputs are not modified
    funcs, provides, pre = [], [], ['a', 'b', 'd', 'e']
    chain, args, unres = make_chain(funcs, provides, final, pre, 'next')
    assert (funcs, provides, pre) == ([], [], ['a', 'b', 'd', 'e'])
    assert args == {'a', 'b', 'd', 'e'} and unres == set()
    funcs, provides = [outer, mid], [('b',), ('d',)]
    make_chain(funcs, provides, final, {'a', 'c'}, 'next')
    assert funcs == [outer, mid] and provides == [('b',), ('d',)]

    # exceptions and short-circuits travel through the compiled levels untouched
    boom = Boom('x')

    def raiser(a, b, d):
        raise boom

    def catcher(next, a):
        try:
            return next(b=1)
        except Boom as e:
            return ('caught', e)

    def shorty(next, b):
        return 'short'

    chain, _, _ = make_chain([catcher, mid], [('b',), ('d',)], raiser, {'a', 'c'}, 'next')
    ret = chain(a=1, c=2)
    assert ret[0] == 'caught' and ret[1] is boom
    chain, _, _ = make_chain([outer, shorty, mid], [('b',), (), ('d',)], raiser, {'a', 'c'}, 'next')
    del log[:]
    assert chain(a=1, c=2) == ('outer', 'short')
    assert [l[0] for l in log] == ['outer in', 'outer out']
    return True


def argument_flow_in_routes():
    """Provides / resources / defaults through a whole route."""
    seen = []

    class Provider(Middleware):
        provides = ('token',)
        endpoint_provides = ('ep_val',)
        render_provides = ('rn_val',)

        def request(self, next, request, limit=1):
            seen.append(('P.request', limit))
            return next(token='T')

        def endpoint(self, next, token):
            seen.append(('P.endpoint', token))
            return next(ep_val='E')

        def render(self, next, context, token):
            seen.append(('P.render', context, token))
            return next(rn_val='R')

    class Consumer(Middleware):
        def request(self, next, token, color='mw-default'):
            seen.append(('C.request', token, color))
            return next()

        def endpoint(self, next, ep_val, token):
            seen.append(('C.endpoint', ep_val, token))
            return next()

        def render(self, next, rn_val, ep_val='render-mw-default'):
            # endpoint_provides are not visible on the render side
            seen.append(('C.render', rn_val, ep_val))
            return next()

    def endpoint(token, ep_val, limit=5, color='ep-default', other='other-default'):
        seen.append(('EP', token, ep_val, limit, color, other))
        return {'ctx': 1}

    def render(context, rn_val, token, limit):
        seen.append(('RN', context, rn_val, token, limit))
        return Response('ok')

    app = Application([Route('/', endpoint, render, middlewares=[Consumer()])],
                      resources={'limit': 99}, middlewares=[Provider()])
    assert app.routes[0].execute(new_request()).get_data() == b'ok'
    assert seen == [('P.request', 99), ('C.request', 'T', 'mw-default'), ('P.endpoint', 'T'),
                    ('C.endpoint', 'E', 'T'), ('EP', 'T', 'E', 99, 'ep-default', 'other-default'),
                    ('P.render', {'ctx': 1}, 'T'), ('C.render', 'R', 'render-mw-default'),
                    ('RN', {'ctx': 1}, 'R', 'T', 99)], seen
    del seen[:]
    app = Application([Route('/', endpoint, render, middlewares=[Consumer()])],
                      resources={'limit': 0, 'color': ''}, middlewares=[Provider()])
    app.routes[0].execute(new_request())
    assert seen[0] == ('P.request', 0) and seen[1] == ('C.request', 'T', '') and \
        seen[4] == ('EP', 'T', 'E', 0, '', 'other-default'), seen

    # consumer outside the provider: unresolved at bind time
    class ReqOnly(Middleware):
        def request(self, next, token):
            return next()

    for mws, route_mws, needle in (([ReqOnly()], [Provider()], 'unresolved request middleware arguments'),
                                   ([Consumer()], [Provider()], 'unresolved endpoint middleware arguments'),
                                   ([], [Consumer()], 'unresolved endpoint middleware arguments')):
        try:
            Application([Route('/', endpoint, render, middlewares=route_mws)],
                        resources={'limit': 1}, middlewares=mws)
        except NameError as e:
            assert needle in str(e), e
        else:
            raise AssertionError('bound')
    try:
        Application([Route('/', lambda: None, lambda context, nope: None)])
    except NameError as e:
        assert str(e) == "unresolved render middleware arguments: ['nope']", e
    else:
        raise AssertionError('bound')
    return True


if __name__ == '__main__':
    n0 = argspec_direct()
    assert make_chain_direct()
    assert argument_flow_in_routes()
    n2 = onion_cross_product()
    assert merge_scenarios()
    assert client_level()
    print('checked %d argspecs, %d stacks' % (n0, n2))
    print('PASS')
