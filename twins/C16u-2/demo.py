#!/usr/bin/env python
# -*- coding: utf-8 -*-
"""demo2: signed cookies -- only intact, unexpired, server-signed data is ever
presented.  Emphasis of this demo: SignedCookieMiddleware configuration
(names, keys, deprecated data_expiry, repr) and exactly which arguments reach
response.set_cookie, plus a model-based run through a real Application.

Prints PASS and exits 0 when every assertion holds.
"""
import sys
import json
import base64
import random
import warnings

warnings.filterwarnings('ignore')

from werkzeug.test import Client
from werkzeug.http import parse_cookie, dump_cookie, cookie_date

import secure_cookie.cookie as sc_mod
from secure_cookie.cookie import UnquoteError
import clastic.middleware.cookie as ck_mod
from clastic import Application, Response
from clastic.middleware.cookie import (SignedCookieMiddleware, JSONCookie,
                                       NEVER, SESSION, NOW)


# ---------------------------------------------------------------- fake clock
class Clock(object):
    def __init__(self, now):
        self.now = now

    def time(self):
        return self.now


CLOCK = Clock(1000000000.0)
ck_mod.time = CLOCK          # the module only ever calls time.time()
sc_mod.time = CLOCK.time     # "from time import time" in secure_cookie


# ------------------------------------------------------------------ endpoint
def _handle(request, cookie):
    seen = dict(cookie)
    op = request.args.get('op', 'read')
    if op == 'set':
        cookie[request.args['k']] = json.loads(request.args['v'])
    elif op == 'del':
        cookie.pop(request.args['k'], None)
    elif op == 'clear':
        cookie.clear()
    elif op == 'expire_now':
        cookie.set_expires()
    elif op == 'expire_at':
        cookie.set_expires(float(request.args['t']))
    return Response(json.dumps(seen, sort_keys=True),
                    mimetype='application/json')


def make_endpoint(arg_name):
    src = ('def endpoint(request, %s):\n    return _handle(request, %s)\n'
           % (arg_name, arg_name))
    ns = {'_handle': _handle}
    exec(src, ns)
    return ns['endpoint']


def make_app(arg_name='cookie', **mw_kwargs):
    mw = SignedCookieMiddleware(arg_name=arg_name, **mw_kwargs)
    app = Application([('/', make_endpoint(arg_name))], middlewares=[mw])
    return app, mw


# ------------------------------------------------------------------- browser
def parse_set_cookie(header):
    parts = header.split('; ')
    name, value = list(parse_cookie(parts[0]).items())[0]
    attrs = {}
    for p in parts[1:]:
        k, _, v = p.partition('=')
        attrs[k.lower()] = v
    return name, value, attrs


class Browser(object):
    """A hand-made cookie jar holding one cookie; nothing is hidden."""

    def __init__(self, app, cookie_name):
        self.client = Client(app, Response, use_cookies=False)
        self.cookie_name = cookie_name
        self.value = None      # decoded cookie value (text) or None
        self.raw = None        # if set: raw Cookie header sent verbatim

    def cookie_header(self):
        if self.raw is not None:
            return self.raw
        if self.value is None:
            return None
        dumped = dump_cookie(self.cookie_name, self.value, path=None)
        return dumped

    def get(self, **params):
        overrides = {}
        hdr = self.cookie_header()
        if hdr is not None:
            overrides['HTTP_COOKIE'] = hdr
        resp = self.client.get('/', query_string=params,
                               environ_overrides=overrides)
        issued = [parse_set_cookie(h)
                  for h in resp.headers.getlist('Set-Cookie')]
        return resp, issued


def decode_independently(value):
    """Decode a server cookie without clastic: returns (sig_bytes, dict)."""
    sig, _, payload = value.partition('?')
    out = {}
    for item in payload.split('&'):
        if not item:
            continue
        k, _, v = item.partition('=')
        from werkzeug.urls import url_unquote_plus
        out[url_unquote_plus(k)] = json.loads(base64.b64decode(v).decode('utf8'))
    return base64.b64decode(sig), out


# --------------------------------------------------------------------- model
class Model(object):
    def __init__(self):
        self.state = 'none'    # none | valid | garbage
        self.data = {}
        self.expires = None


def is_timed(expiry):
    return expiry != NEVER and expiry != SESSION


def step(browser, model, mw, op='read', **args):
    now = CLOCK.now
    if model.state == 'valid' and (model.expires is None
                                   or not now > model.expires):
        seen_exp = dict(model.data)
    else:
        seen_exp = {}
    resp, issued = browser.get(op=op, **args)
    assert resp.status_code == 200, (resp.status_code, browser.cookie_header())
    seen = json.loads(resp.data.decode('utf8'))
    assert seen == seen_exp, (seen, seen_exp, browser.cookie_header())

    new = dict(seen_exp)
    app_expires = None
    if op == 'set':
        new[args['k']] = json.loads(args['v'])
    elif op == 'del':
        new.pop(args['k'], None)
    elif op == 'clear':
        new = {}
    elif op == 'expire_now':
        app_expires = 123456
    elif op == 'expire_at':
        app_expires = float(args['t'])

    if app_expires is not None:
        raw_e = app_expires
    elif is_timed(mw.expiry):
        raw_e = now + mw.expiry
    else:
        raw_e = None

    must_issue = op in ('set', 'expire_now', 'expire_at') or is_timed(mw.expiry)
    issued = [i for i in issued if i[0] == mw.cookie_name]
    assert len(issued) <= 1
    if must_issue:
        assert issued, (op, args)
    if not issued:
        assert new == seen_exp and raw_e is None
        return seen
    name, value, attrs = issued[0]
    # Set-Cookie attributes
    if raw_e is not None:
        assert attrs.get('expires') == cookie_date(raw_e), (attrs, raw_e)
    else:
        assert 'expires' not in attrs, attrs
    assert 'max-age' not in attrs
    assert attrs.get('path') == mw.path
    if mw.domain:
        assert attrs.get('domain') == mw.domain
    else:
        assert 'domain' not in attrs
    assert ('secure' in attrs) == bool(mw.secure)
    assert ('httponly' in attrs) == bool(mw.http_only)
    # contents: exactly what the application stored (+ the _expires stamp)
    sig, payload = decode_independently(value)
    stored = dict(new)
    if raw_e is not None:
        stored['_expires'] = int(raw_e) if raw_e else raw_e
    assert payload == stored, (payload, stored)
    assert len(sig) == 20
    browser.value, browser.raw = value, None
    model.state, model.data = 'valid', new
    model.expires = stored.get('_expires')
    return seen


# ------------------------------------------------------------------ tampering
B64 = 'ABCDEFGHIJKLMNOPQRSTUVWXYZabcdefghijklmnopqrstuvwxyz0123456789+/'


def flip(ch):
    return B64[(B64.index(ch) + 7) % 64] if ch in B64 else 'A'


def tamper(kind, value, rng, other_value=None, mw=None):
    """Return a cookie value that the server did NOT produce."""
    sig, _, payload = value.partition('?')
    if kind == 'flip_sig':
        i = rng.randrange(0, 20)
        return sig[:i] + flip(sig[i]) + sig[i + 1:] + '?' + payload
    if kind == 'flip_payload':
        idx = [i for i, c in enumerate(payload) if c in B64]
        i = rng.choice(idx)
        return sig + '?' + payload[:i] + flip(payload[i]) + payload[i + 1:]
    if kind == 'truncate':
        return value[:-rng.randrange(1, max(2, len(payload)))]
    if kind == 'truncate_sig':
        return value[rng.randrange(1, 20):]
    if kind == 'extend':
        return value + rng.choice(['A', '&x=MQ==', '&', '=', '&admin=dHJ1ZQ=='])
    if kind == 'swap':
        osig, _, opayload = other_value.partition('?')
        return sig + '?' + opayload
    if kind == 'resign':
        _, data = decode_independently(value)
        data['admin'] = True
        forged = JSONCookie(data, b'not the server key').serialize()
        return forged.decode('ascii')
    if kind == 'random':
        return ''.join(chr(rng.randrange(33, 127)) for _ in range(rng.randrange(1, 60)))
    if kind == 'nonascii':
        return rng.choice([u'\xfc\xf1\xee?k\xe9y=dmFs', u'☃?☃=☃',
                           sig + u'?\xfc=' + payload.partition('=')[2],
                           sig + u'?\xff\xfe' + payload])
    if kind == 'bad_b64':
        return rng.choice(['!!!!?' + payload, '=?' + payload, 'A?' + payload,
                           sig[:-1] + '?' + payload, sig + '?a=!!!',
                           sig + '?a=A', '?', '??', '?=', '=', '&', '?a',
                           '?a=', '?=MQ==', sig + '?', sig + '?%ff=MQ=='])
    if kind == 'no_sep':
        return rng.choice([sig, payload, sig + payload, value.replace('?', ''),
                           value.replace('=', ''), value.replace('?', '&')])
    raise ValueError(kind)


KINDS = ['flip_sig', 'flip_payload', 'truncate', 'truncate_sig', 'extend',
         'swap', 'resign', 'random', 'nonascii', 'bad_b64', 'no_sep']

VALUES = [0, 1, -1, 1.5, 1e100, '', 'x', u'\xfcn\xefc\xf6de ☃', True, False,
          None, [], {}, [1, [2, [3, {'a': None}]]], {'k': {'k': [u'é', '']}},
          'a' * 300, '"quoted"', '?&=;, ', 12345678901234567890]
KEYS = ['name', 'a b', 'k=1', u'\xfc&?', 'x', '', '0', 'admin', u'☃']


def random_run(seed, n_steps, n_browsers=3, **mw_kwargs):
    rng = random.Random(seed)
    arg_name = mw_kwargs.pop('arg_name', 'cookie')
    app, mw = make_app(arg_name=arg_name, **mw_kwargs)
    browsers = [Browser(app, mw.cookie_name) for _ in range(n_browsers)]
    models = [Model() for _ in range(n_browsers)]
    n_tampered = 0
    for _ in range(n_steps):
        i = rng.randrange(n_browsers)
        b, m = browsers[i], models[i]
        r = rng.random()
        if r < 0.30:
            step(b, m, mw, 'set', k=rng.choice(KEYS),
                 v=json.dumps(rng.choice(VALUES)))
        elif r < 0.38:
            step(b, m, mw, 'del', k=rng.choice(KEYS))
        elif r < 0.42:
            step(b, m, mw, 'clear')
        elif r < 0.60:
            step(b, m, mw, 'read')
        elif r < 0.64:
            step(b, m, mw, 'expire_now')
        elif r < 0.70:
            step(b, m, mw, 'expire_at', t=repr(CLOCK.now + rng.choice([1, 3.5, 20, -5])))
        elif r < 0.80:
            CLOCK.now += rng.choice([0.25, 0.5, 1, 2, 7, 30])
        else:
            if b.value is None or m.state != 'valid' or not m.data:
                continue
            kind = rng.choice(KINDS)
            other = None
            if kind == 'swap':
                others = [x.value for x in browsers
                          if x.value and x.value.partition('?')[2] != b.value.partition('?')[2]]
                if not others:
                    continue
                other = rng.choice(others)
            forged = tamper(kind, b.value, rng, other, mw)
            assert forged != b.value
            b.value = forged
            m.state = 'garbage'
            n_tampered += 1
            # a tampered cookie: empty contents, normal response
            step(b, m, mw, 'read')
    return n_tampered


# ------------------------------------------- configuration-level checks
class StubRequest(object):
    def __init__(self, cookies):
        self.cookies = cookies


class StubResponse(object):
    def __init__(self):
        self.calls = []

    def set_cookie(self, *a, **kw):
        self.calls.append((a, kw))


def call_request(mw, cookies, action):
    """Drive mw.request() by hand; returns (seen, set_cookie calls)."""
    seen = {}
    resp = StubResponse()

    def next(**kw):
        assert list(kw) == [mw.arg_name], kw
        cookie = kw[mw.arg_name]
        assert type(cookie) is JSONCookie
        seen.update(cookie)
        action(cookie)
        return resp
    out = mw.request(next, StubRequest(cookies))
    assert out is resp
    return seen, resp.calls


def config_checks():
    import io
    import contextlib
    # ---- constructor defaults and naming
    mw = SignedCookieMiddleware()
    assert (mw.arg_name, mw.cookie_name, mw.provides) == ('cookie', 'clastic_cookie', ('cookie',))
    assert (mw.domain, mw.path, mw.secure, mw.http_only, mw.expiry) == (None, '/', False, False, SESSION)
    assert isinstance(mw.secret_key, bytes) and len(mw.secret_key) == 20
    assert SignedCookieMiddleware().secret_key != mw.secret_key
    for falsy in (None, '', b'', 0):
        k = SignedCookieMiddleware(secret_key=falsy).secret_key
        assert isinstance(k, bytes) and len(k) == 20
    assert SignedCookieMiddleware(secret_key='abc').secret_key == 'abc'
    assert SignedCookieMiddleware(secret_key=b'abc').secret_key == b'abc'
    assert SignedCookieMiddleware(arg_name='jar').cookie_name == 'clastic_jar'
    assert SignedCookieMiddleware(arg_name=u'j\xe4r').cookie_name == u'clastic_j\xe4r'
    assert SignedCookieMiddleware(arg_name='jar', cookie_name='x').cookie_name == 'x'
    # only None triggers the default name; other falsy names are kept
    assert SignedCookieMiddleware(cookie_name='').cookie_name == ''
    assert SignedCookieMiddleware(cookie_name=0).cookie_name == 0
    m = SignedCookieMiddleware('a', 'b', 'c', 'd', '/e', True, True, 5)
    assert (m.arg_name, m.cookie_name, m.secret_key, m.domain, m.path,
            m.secure, m.http_only, m.expiry) == ('a', 'b', 'c', 'd', '/e', True, True, 5)

    class Fixed(SignedCookieMiddleware):
        def _get_random(self):
            # the name attributes are already in place when the key is drawn
            return ('%s|%s' % (self.arg_name, self.cookie_name)).encode('ascii')
    assert Fixed(arg_name='q').secret_key == b'q|clastic_q'
    assert Fixed(arg_name='q', cookie_name='n').secret_key == b'q|n'
    assert Fixed(secret_key='given').secret_key == 'given'

    # ---- deprecated data_expiry
    for de, expected in ((7, 7), (0, 0), (NEVER, NEVER), ('', '')):
        buf = io.StringIO()
        with contextlib.redirect_stdout(buf):
            m = SignedCookieMiddleware(expiry=99, data_expiry=de)
        assert m.expiry == expected
        assert buf.getvalue() == ("SignedCookieMiddleware's data_expiry argument"
                                  " is deprecated. Use expiry instead.\n")
    buf = io.StringIO()
    with contextlib.redirect_stdout(buf):
        m = SignedCookieMiddleware(expiry=99, data_expiry=None)
    assert m.expiry == 99 and buf.getvalue() == ''

    # ---- repr
    assert repr(SignedCookieMiddleware()) == "SignedCookieMiddleware(arg_name='cookie', cookie_name='clastic_cookie')"
    assert repr(Fixed('a', 'it\'s "q"')) == "Fixed(arg_name='a', cookie_name='it\\'s \"q\"')"
    assert repr(SignedCookieMiddleware(u'\xfc', 0)) == u"SignedCookieMiddleware(arg_name='\xfc', cookie_name=0)"
    assert repr(SignedCookieMiddleware(('t',), ('u', 'v'))) == "SignedCookieMiddleware(arg_name=('t',), cookie_name=('u', 'v'))"
    assert repr(SignedCookieMiddleware('{}', '%s {0!r}')) == "SignedCookieMiddleware(arg_name='{}', cookie_name='%s {0!r}')"

    # ---- what exactly reaches response.set_cookie
    CLOCK.now = 1000000000.0
    key = b'k'

    def opts(mw, expires):
        return dict(expires=expires, max_age=None, path=mw.path,
                    domain=mw.domain, secure=mw.secure, httponly=mw.http_only)

    def noop(c):
        pass

    def put(c):
        c['a'] = [1, u'\xfc']

    for kwargs in (dict(), dict(expiry=NEVER), dict(expiry=SESSION),
                   dict(domain='d.example', path='/p', secure=True, http_only=True),
                   dict(arg_name='jar', cookie_name='n', secure=None, domain='', path=None)):
        mw = SignedCookieMiddleware(secret_key=key, **kwargs)
        # untouched cookie: nothing is saved
        assert call_request(mw, {}, noop) == ({}, [])
        # written cookie, no expiry anywhere -> expires=None
        seen, calls = call_request(mw, {}, put)
        assert seen == {} and len(calls) == 1
        (name, data), kw = calls[0]
        assert name == mw.cookie_name and kw == opts(mw, None), kw
        assert decode_independently(data.decode('ascii'))[1] == {'a': [1, u'\xfc']}
        # it is presented again, intact; reading alone saves nothing
        seen, calls = call_request(mw, {mw.cookie_name: data.decode('ascii')}, noop)
        assert seen == {'a': [1, u'\xfc']} and calls == []
        # a cookie under another name is not picked up
        seen, calls = call_request(mw, {'other': data.decode('ascii')}, noop)
        assert seen == {} and calls == []
        # application-chosen expiry values travel to set_cookie unchanged
        for t in (CLOCK.now + 2.5, 123456, 0, None, -1):
            seen, calls = call_request(mw, {}, lambda c: c.set_expires(t))
            (name, data), kw = calls[0]
            assert kw == opts(mw, t) and type(kw['expires']) is type(t), kw
            payload = decode_independently(data.decode('ascii'))[1]
            assert payload == {'_expires': int(t) if t else t}, payload
        seen, calls = call_request(mw, {}, lambda c: c.set_expires())
        assert calls[0][1] == opts(mw, 123456)

    for expiry in (10, 0.5, 2 ** 40, True):
        mw = SignedCookieMiddleware(secret_key=key, expiry=expiry)
        # timed expiry: always stamped and saved, even when untouched
        seen, calls = call_request(mw, {}, noop)
        (name, data), kw = calls[0]
        assert kw == opts(mw, CLOCK.now + expiry), kw
        assert type(kw['expires']) is float
        payload = decode_independently(data.decode('ascii'))[1]
        assert payload == {'_expires': int(CLOCK.now + expiry)}
        # application override wins (also falsy ones)
        for t in (5, 0, None, CLOCK.now + 1000.25):
            seen, calls = call_request(mw, {}, lambda c: c.set_expires(t))
            assert calls[0][1] == opts(mw, t), calls
    # SESSION-equal numerics are "session" too
    for expiry in (0, 0.0, False):
        mw = SignedCookieMiddleware(secret_key=key, expiry=expiry)
        assert call_request(mw, {}, noop) == ({}, [])
        assert call_request(mw, {}, put)[1][0][1] == opts(mw, None)
    # a non-numeric, non-marker expiry fails in the stamping step (TypeError)
    mw = SignedCookieMiddleware(secret_key=key, expiry='soon')
    try:
        call_request(mw, {}, noop)
    except TypeError:
        pass
    else:
        raise AssertionError('expected TypeError')
    # ... but not when the application already chose an expiry
    assert call_request(mw, {}, lambda c: c.set_expires(9))[1][0][1] == opts(mw, 9)


def main():
    config_checks()
    total = 0
    total += random_run(11, 400, expiry=NEVER, secret_key='s3cret')
    total += random_run(12, 400, secret_key=b'bytes key')                # SESSION
    total += random_run(13, 400, expiry=10, secret_key='k')
    total += random_run(14, 300, expiry=0.5)                             # random key
    total += random_run(15, 300, expiry=3, arg_name='jar', cookie_name='my-jar',
                        domain='example.com', path='/', secure=True,
                        http_only=True, secret_key=u'k\xe9y')
    total += random_run(16, 200, arg_name='sess', expiry=SESSION)
    assert total > 150, total
    print('PASS')
    return 0


if __name__ == '__main__':
    sys.exit(main())
