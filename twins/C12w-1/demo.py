# -*- coding: utf-8 -*-
"""demo1: concurrent requests on one Application do not interfere.

Focus: the per-request parameter dicts that Application.dispatch builds
(base_params / params / uncaught_params / error_params): resources,
built-ins, URL parameters, and the `_route` / `_error` values handed to the
error handler.  Prints PASS and exits 0.
"""
import os
import sys
import threading

sys.path.insert(0, os.path.dirname(os.path.abspath(__file__)))

from werkzeug.test import Client
from werkzeug.wrappers import Response

import clastic
from clastic import Application, Route, GET, POST, Middleware, redirect
from clastic.application import DispatchState
from clastic.errors import ErrorHandler, NotFound, BadRequest, HTTPException
from clastic.route import BoundRoute

assert os.path.dirname(os.path.abspath(clastic.__file__)).startswith(
    os.path.dirname(os.path.abspath(__file__))), clastic.__file__


class TagMiddleware(Middleware):
    provides = ('tag',)

    def request(self, next, request):
        return next(tag='tag:' + request.args.get('t', '-'))


class EpMiddleware(Middleware):
    endpoint_provides = ('ep_val',)

    def endpoint(self, next, tag, request):
        return next(ep_val=tag.upper() + '/' + request.path)


def hello(name, tag, ep_val, greeting, request, _application, _route, _dispatch_state):
    assert isinstance(_dispatch_state, DispatchState)
    assert isinstance(_route, BoundRoute)
    assert request.path_params == {'name': name}, request.path_params
    return Response('|'.join([greeting, name, tag, ep_val, request.args.get('t', '-'),
                              _route.pattern, type(_application).__name__,
                              repr(sorted(_dispatch_state.allowed_methods)),
                              str(len(_dispatch_state.exceptions))]))


def num(n, factor, tag):
    return Response('num %r %s' % (n * factor, tag))


def nums(ns, tag):
    return Response('nums %r %s' % (ns, tag))


def post_only(request, tag):
    return Response('posted %s %s' % (request.get_data(as_text=True), tag))


def fall_first(request, tag):
    raise NotFound(detail='fall-first ' + tag, is_breaking=False)


def fall_second(request, tag, _dispatch_state):
    excs = _dispatch_state.exceptions
    return Response('fell through %s after %d: %s'
                    % (tag, len(excs), excs[-1].detail))


def fall_only(tag):
    return NotFound(detail='only ' + tag, is_breaking=False)


def boom(tag, request):
    raise ValueError('boom ' + tag + ' ' + request.args.get('t', '-'))


def bad(tag):
    raise BadRequest(detail='bad ' + tag)


def not_a_response(tag):
    return 'just text ' + tag   # noop render -> str -> TypeError -> 500


def redir(tag):
    return redirect('/hello/' + tag.replace(':', '_'))


def rid(request):
    return Response('%d %s' % (request.request_id, request.request_guid))


class RecordingErrorHandler(ErrorHandler):
    """Reports everything dispatch() hands to the error handler."""

    def uncaught_to_response(self, _application, _route, **kwargs):
        err = kwargs['_error']
        keys = sorted(kwargs)
        assert kwargs['request'].path == '/boom' or kwargs['request'].path == '/text'
        detail = 'uncaught %s %r keys=%r route=%s greeting=%s' % (
            type(err).__name__, str(err), keys, _route.pattern, kwargs['greeting'])
        return self.server_error_type(detail, source_route=_route)

    def render_error(self, request, _error, _route, _application, _dispatch_state, greeting):
        _error.adapt('text/plain')
        extra = ' [%s %s %s exc=%d %s]' % (request.path, _route.pattern, greeting,
                                          len(_dispatch_state.exceptions),
                                          sorted(_dispatch_state.allowed_methods))
        _error.data = _error.data + extra.encode('utf8')
        return _error


def build_app():
    routes = [GET('/hello/<name>', hello),
              GET('/num/<n:int>/', num),
              GET('/nums/<ns*float>', nums),
              POST('/post', post_only),
              Route('/post', post_only, methods=['PUT']),
              GET('/fall', fall_first),
              GET('/fall', fall_second),
              GET('/fallonly', fall_only),
              GET('/boom', boom),
              GET('/bad', bad),
              GET('/text', not_a_response),
              GET('/redir', redir),
              GET('/rid', rid)]
    return Application(routes,
                       resources={'greeting': 'hi', 'factor': 3},
                       middlewares=[TagMiddleware(), EpMiddleware()],
                       error_handler=RecordingErrorHandler())


# (method, path, query, data)
REQUESTS = [
    ('GET', '/hello/alice', 't=1', None),
    ('GET', '/hello/bob', 't=2', None),
    ('GET', '/hello/%C3%A9ric', '', None),
    ('HEAD', '/hello/carol', 't=h', None),
    ('GET', '/num/7/', 't=3', None),
    ('GET', '/num/-12/', 't=4', None),
    ('GET', '/num/7', 't=5&x=%3F', None),        # slash redirect, keeps the query
    ('GET', '/num/notanint/', 't=6', None),      # converter fails -> 404
    ('GET', '/nums/1/2.5/3', 't=7', None),
    ('GET', '/nums', 't=8', None),
    ('POST', '/post', 't=9', b'payload-9'),
    ('PUT', '/post', 't=10', b'payload-10'),
    ('GET', '/post', 't=11', None),              # 405
    ('DELETE', '/post', 't=12', None),           # 405
    ('GET', '/fall', 't=13', None),              # non-breaking fallthrough
    ('GET', '/fallonly', 't=14', None),          # non-breaking, nothing after -> 404
    ('GET', '/boom', 't=15', None),              # uncaught -> 500
    ('GET', '/boom', 't=16', None),
    ('GET', '/bad', 't=17', None),               # breaking HTTPException
    ('GET', '/text', 't=18', None),              # TypeError -> 500
    ('GET', '/redir', 't=19', None),
    ('GET', '/nowhere/at/all', 't=20', None),    # 404
    ('GET', '/', '', None),                      # 404
]


def send(app, req):
    method, path, query, data = req
    client = Client(app, Response)
    resp = client.open(path=path, query_string=query, method=method, data=data)
    return (resp.status_code, resp.headers.get('Location'),
            resp.headers.get('Allow'), resp.get_data())


def main():
    app = build_app()
    expected = [send(app, r) for r in REQUESTS]

    # sanity of the sequential answers themselves
    by_req = dict(zip([r[:3] for r in REQUESTS], expected))
    assert by_req[('GET', '/hello/alice', 't=1')][3] == (
        b"hi|alice|tag:1|TAG:1//hello/alice|1|/hello/<name>|Application|[]|0")
    assert by_req[('GET', '/num/7/', 't=3')][3] == b"num 21 tag:3"
    assert by_req[('GET', '/num/7', 't=5&x=%3F')][0] in (301, 302, 308)
    assert by_req[('GET', '/num/7', 't=5&x=%3F')][1].endswith('/num/7/?t=5&x=%3F')
    assert by_req[('GET', '/num/notanint/', 't=6')][0] == 404
    assert by_req[('GET', '/nums/1/2.5/3', 't=7')][3] == b"nums [1.0, 2.5, 3.0] tag:7"
    assert by_req[('GET', '/nums', 't=8')][3] == b"nums [] tag:8"
    assert by_req[('POST', '/post', 't=9')][3] == b"posted payload-9 tag:9"
    assert by_req[('GET', '/post', 't=11')][0] == 405
    assert b"['POST', 'PUT']" in by_req[('GET', '/post', 't=11')][3]
    assert by_req[('GET', '/fall', 't=13')][3] == (
        b"fell through tag:13 after 1: fall-first tag:13")
    assert by_req[('GET', '/fallonly', 't=14')][0] == 404
    assert b'only tag:14' in by_req[('GET', '/fallonly', 't=14')][3]
    # added once by the route's pass, once more when the sentinel returns it
    assert b'exc=2' in by_req[('GET', '/fallonly', 't=14')][3]
    boom15 = by_req[('GET', '/boom', 't=15')]
    assert boom15[0] == 500
    assert b"uncaught ValueError 'boom tag:15 15'" in boom15[3], boom15
    # exactly the keys dispatch() passes on top of _application/_route
    assert (b"keys=['_dispatch_state', '_error', 'factor', 'greeting', 'request']"
            in boom15[3]), boom15
    assert b'route=/boom greeting=hi' in boom15[3]
    assert b'[/boom /boom hi exc=0 []]' in boom15[3]
    assert by_req[('GET', '/bad', 't=17')][0] == 400
    assert b'bad tag:17' in by_req[('GET', '/bad', 't=17')][3]
    text18 = by_req[('GET', '/text', 't=18')]
    assert text18[0] == 500 and b'uncaught TypeError' in text18[3], text18
    assert by_req[('GET', '/redir', 't=19')][1].endswith('/hello/tag_19')
    assert by_req[('GET', '/nowhere/at/all', 't=20')][0] == 404
    assert b'/<_ignored*>' in by_req[('GET', '/nowhere/at/all', 't=20')][3]

    # resources are not mutated by dispatching
    assert app.resources == {'greeting': 'hi', 'factor': 3}

    # concurrent: every thread must see its sequential answers
    old_interval = sys.getswitchinterval()
    sys.setswitchinterval(1e-6)
    errors = []
    rids = []
    n_threads, rounds = 4, 12
    barrier = threading.Barrier(n_threads)

    def worker(idx):
        try:
            order = REQUESTS[idx:] + REQUESTS[:idx]
            if idx % 2:
                order = order[::-1]
            barrier.wait()
            for _ in range(rounds):
                for req in order:
                    got = send(app, req)
                    want = expected[REQUESTS.index(req)]
                    if got != want:
                        errors.append((idx, req, got, want))
                status, _, _, body = send(app, ('GET', '/rid', '', None))
                assert status == 200
                num_s, guid = body.decode('ascii').split()
                rids.append((int(num_s), guid))
        except Exception as e:  # pragma: no cover
            import traceback
            errors.append((idx, 'crash', traceback.format_exc()))

    threads = [threading.Thread(target=worker, args=(i,)) for i in range(n_threads)]
    for t in threads:
        t.start()
    for t in threads:
        t.join()
    sys.setswitchinterval(old_interval)

    assert not errors, errors[:3]
    assert len(rids) == n_threads * rounds
    assert len(set(r[0] for r in rids)) == len(rids), 'request ids repeat'
    assert len(set(r[1] for r in rids)) == len(rids), 'request guids repeat'
    assert app.resources == {'greeting': 'hi', 'factor': 3}
    print('PASS')


if __name__ == '__main__':
    main()
