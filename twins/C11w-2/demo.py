# -*- coding: utf-8 -*-
"""demo2: dependency resolution done while a Route is bound
(BoundRoute._resolve_required_args -> resolve_deps / normalize_deps /
find_cycle).  A bind that hits a dependency cycle must fail *before* the
application's routing table is touched; successful binds must report the
same required arguments whatever application the route is bound into, and
must not edit the Route, the middlewares or the embedded application.

The three helpers are also compared with reference copies (the textbook
versions, kept in this file) on a few thousand random graphs.
"""
import os
import sys
import random
from collections import OrderedDict

sys.path.insert(0, os.path.dirname(os.path.abspath(__file__)))

from clastic import Application, Route, GET, Response, Middleware, SubApplication
from clastic.route import resolve_deps, normalize_deps, find_cycle


# ---------------------------------------------------------------- reference
def ref_normalize_deps(dep_map):
    ret = type(dep_map)()
    for k, _deps in dep_map.items():
        cur_seen = set()
        ret[k] = []
        for d in _deps:
            if d not in ret:
                ret[d] = []
            if d in cur_seen:
                continue
            ret[k].append(d)
            cur_seen.add(d)
    return ret


def ref_find_cycle(dep_map, prenormalize=True):
    if prenormalize:
        dep_map = ref_normalize_deps(dep_map)
    rem_nodes = list(dep_map.keys())
    while rem_nodes:
        cur_root = rem_nodes.pop()
        cur_path = [cur_root]
        while cur_path:
            cur_deps = list(dep_map[cur_path[-1]])
            while cur_deps:
                cd = cur_deps.pop()
                if cd in cur_path:
                    return cur_path + [cd]
                if cd in rem_nodes:
                    cur_path.append(cd)
                    rem_nodes.remove(cd)
                    break
            else:
                cur_path.pop()
    return None


def ref_resolve_deps(dep_map):
    dep_map = ref_normalize_deps(dep_map)
    cycle = ref_find_cycle(dep_map, prenormalize=False)
    if cycle:
        links_str = ', '.join(['%r->%r' % (t, d) for t, d
                               in zip(cycle, cycle[1:])])
        raise RuntimeError('cycle detected (%s)' % links_str)
    dict_type = type(dep_map)
    resolved_map = dict_type([(k, []) for k in dep_map])
    for cur_target, cur_resolved_deps in resolved_map.items():
        cur_deps = list(reversed(dep_map[cur_target]))
        while cur_deps:
            cd = cur_deps.pop()
            if cd not in cur_resolved_deps:
                cur_resolved_deps.append(cd)
            cd_deps = dep_map.get(cd, [])
            cur_deps.extend(reversed(cd_deps))
    return resolved_map


def outcome(func, *a, **kw):
    try:
        ret = func(*a, **kw)
    except Exception as e:
        return ('exc', type(e), str(e))
    if ret is None:
        return ('ok', None, None)
    if isinstance(ret, list):
        return ('ok', list, ret)
    # mapping: type, key order and value lists all matter
    return ('ok', type(ret), list(ret.items()))


def snapshot(dep_map):
    return [(k, list(v) if not isinstance(v, (set, frozenset)) else v)
            for k, v in dep_map.items()]


def random_graph(rng, dict_type):
    n = rng.randint(0, 7)
    names = ['n%d' % i for i in range(n)] + [0, None, '', ('t', 1)][:rng.randint(0, 4)]
    extra = ['x', 'y']               # deps that are never targets
    ret = dict_type()
    rng.shuffle(names)
    acyclic = rng.random() < 0.6
    for i, name in enumerate(names):
        pool = (names[i + 1:] if acyclic else names) + extra
        deps = [rng.choice(pool) for _ in range(rng.randint(0, 5))] if pool else []
        kind = rng.random()
        if kind < 0.15:
            deps = tuple(deps)
        ret[name] = deps
    return ret


def check_helpers():
    rng = random.Random(1109)
    n_cycles = 0
    for i in range(4000):
        graph = random_graph(rng, OrderedDict if i % 3 == 0 else dict)
        before = snapshot(graph)
        for new, ref in ((normalize_deps, ref_normalize_deps),
                         (find_cycle, ref_find_cycle),
                         (resolve_deps, ref_resolve_deps)):
            got, want = outcome(new, graph), outcome(ref, graph)
            assert got == want, (new.__name__, graph, got, want)
            assert snapshot(graph) == before, 'input mutated'
        norm = ref_normalize_deps(graph)
        got = outcome(find_cycle, norm, prenormalize=False)
        assert got == outcome(ref_find_cycle, norm, prenormalize=False)
        # un-normalized input with prenormalize=False: KeyError for a
        # dependency that is not a target, identical in both
        got = outcome(find_cycle, graph, prenormalize=False)
        assert got == outcome(ref_find_cycle, graph, prenormalize=False), graph
        if got[2] is not None and got[0] == 'ok':
            n_cycles += 1
    assert n_cycles > 200, n_cycles

    # fixed corner cases
    assert normalize_deps({}) == {} and find_cycle({}) is None and resolve_deps({}) == {}
    assert normalize_deps({'a': ['b', 'b', 'a', 'b']}) == {'a': ['b', 'a'], 'b': []}
    assert list(normalize_deps(OrderedDict([('a', ['c', 'b']), ('b', [])]))) == ['a', 'c', 'b']
    assert find_cycle({'a': ['a']}) == ['a', 'a']
    assert find_cycle({'a': ['b'], 'b': ['c'], 'c': ['a']}) in (['c', 'a', 'b', 'c'],)
    assert find_cycle({'a': ['b', 'c'], 'b': ['c'], 'c': []}) is None
    assert resolve_deps({'a': ['b', 'c'], 'b': ['d'], 'c': ['d', 'e']}) == \
        {'a': ['b', 'd', 'c', 'e'], 'b': ['d'], 'c': ['d', 'e'], 'd': [], 'e': []}
    try:
        resolve_deps({'a': ['b'], 'b': ['a']})
    except RuntimeError as e:
        assert str(e) == "cycle detected ('b'->'a', 'a'->'b')", str(e)
    else:
        raise AssertionError('no cycle error')
    for bad in ({'a': [[]]}, {'a': 5}, {'a': None}):
        got, want = outcome(resolve_deps, bad), outcome(ref_resolve_deps, bad)
        assert got == want and got[0] == 'exc' and got[1] is TypeError, got
    result = normalize_deps({'a': ['b'], 'b': []})
    assert result['a'] is not result['b']
    src = {'a': ['b']}
    assert normalize_deps(src)['a'] is not src['a']


# ------------------------------------------------------------ via binding
class ProvideA(Middleware):
    provides = ('a',)

    def request(self, next, request, b=None):
        return next(a='A(%s)' % b)


class ProvideB(Middleware):
    provides = ('b',)

    def request(self, next, a):
        return next(b='B(%s)' % a)


class ProvideC(Middleware):
    provides = ('c',)

    def __init__(self, tag='c'):
        self.tag = tag

    def request(self, next, res1):
        return next(c='%s:%s' % (self.tag, res1))


class ProvideD(Middleware):
    endpoint_provides = ('d',)
    render_provides = ('e',)

    def endpoint(self, next, c, item_id):
        return next(d='d<%s,%s>' % (c, item_id))

    def render(self, next, context, res2='dflt'):
        return next(e='e<%s>' % res2)


def ep_plain():
    return Response('plain')


def ep_d(d, request, other=3):
    return {'d': d, 'other': other}


def render_e(context, e):
    return Response('%s|%s|%s' % (context['d'], context['other'], e))


def ep_ab(a, b):
    return Response('%s %s' % (a, b))


def patterns(app):
    return [r.pattern for r in app.routes]


def get(app, path):
    resp = app.get_local_client().get(path)
    return resp.status_code, resp.get_data(True)


def check_binding():
    route_d = GET('/item/<item_id:int>', ep_d, render_e,
                  middlewares=[ProvideD()])
    route_plain = Route('/plain', ep_plain)
    route_state = (dict(vars(route_d)), dict(vars(route_plain)))
    mw_c1, mw_c2 = ProvideC('one'), ProvideC('two')

    app1 = Application([route_d, route_plain], resources={'res1': 'r1'},
                       middlewares=[mw_c1])
    app2 = Application([route_plain, route_d],
                       resources={'res1': 'R1', 'res2': 'R2', 'other': 9},
                       middlewares=[mw_c2])
    br1 = app1.routes[0]
    br2 = app2.routes[1]
    assert br1.unbound_route is br2.unbound_route is route_d
    assert br1.get_required_args() == ['d', 'c', 'res1', 'item_id', 'other'], br1.get_required_args()
    assert br2.get_required_args() == ['d', 'c', 'res1', 'item_id', 'other']
    assert br1._resolve_required_args(with_builtins=True) == \
        ['d', 'next', 'c', 'res1', 'item_id', 'request', 'other'], \
        br1._resolve_required_args(with_builtins=True)
    assert br1.is_required_arg('item_id') and not br1.is_required_arg('res2')
    assert app1.routes[1].get_required_args() == []
    ra = br1.get_required_args()
    ra.append('junk')
    assert br1.get_required_args() == ['d', 'c', 'res1', 'item_id', 'other']   # a copy
    assert get(app1, '/item/7') == (200, 'd<one:r1,7>|3|e<dflt>')
    assert get(app2, '/item/7') == (200, 'd<two:R1,7>|9|e<R2>')
    assert get(app1, '/plain') == (200, 'plain')

    # embedding: same answers under a prefix, originals untouched
    outer = Application([('/v1', app1), SubApplication('/v2/', app2)],
                        resources={'res1': 'outer'})
    assert patterns(outer) == ['/v1/item/<item_id:int>', '/v1/plain',
                               '/v2/plain', '/v2/item/<item_id:int>']
    assert [r.get_required_args() for r in outer.routes] == \
        [['d', 'c', 'res1', 'item_id', 'other'], [], [], ['d', 'c', 'res1', 'item_id', 'other']]
    assert get(outer, '/v1/item/3') == (200, 'd<one:outer,3>|3|e<dflt>')
    assert get(outer, '/v2/item/3') == (200, 'd<two:outer,3>|9|e<R2>')
    assert patterns(app1) == ['/item/<item_id:int>', '/plain']
    assert patterns(app2) == ['/plain', '/item/<item_id:int>']
    assert (dict(vars(route_d)), dict(vars(route_plain))) == route_state
    assert get(app1, '/item/7') == (200, 'd<one:r1,7>|3|e<dflt>')

    # a cyclic pair (a needs optional b, b needs a) passes the chain
    # compiler but is refused by resolve_deps while binding -> atomic add
    cyc_route = Route('/cyc', ep_ab, middlewares=[ProvideA(), ProvideB()])
    snap1 = (patterns(app1), list(app1.routes), app1._dispatch_wsgi)
    snap_outer = (patterns(outer), list(outer.routes))
    for app, index in ((app1, None), (app1, 0), (outer, 1)):
        try:
            app.add(cyc_route, index)
        except RuntimeError as e:
            assert str(e).startswith('cycle detected ('), str(e)
            assert "'a'->'b'" in str(e) and "'b'->'a'" in str(e)
        else:
            raise AssertionError('cycle not detected')
    # a parent that cannot satisfy ProvideB ('a' missing) refuses every bind
    child = Application([('/ok', ep_plain),
                         Route('/needs-a', ep_ab, middlewares=[ProvideA()],
                               resources={'b': 'static-b'})])
    assert get(child, '/needs-a') == (200, 'A(static-b) static-b')
    try:
        Application([('/pre', ep_plain), ('/child', child)], middlewares=[ProvideB()])
    except NameError as e:
        assert 'unresolved request middleware arguments' in str(e), str(e)
    else:
        raise AssertionError('expected NameError')
    assert patterns(child) == ['/ok', '/needs-a']
    assert get(child, '/needs-a') == (200, 'A(static-b) static-b')

    # successful embedding at several indexes: contiguous, order preserved
    child2 = Application([('/ok', ep_plain),
                          Route('/ab', ep_ab, middlewares=[ProvideA()])],
                         resources={'b': 'res-b'})
    child2_before = (patterns(child2), list(child2.routes))
    for index in (None, 0, 1):
        app1.add(SubApplication('/c2', child2), index)
        added = [r for r in app1.routes if r.pattern.startswith('/c2')]
        assert [r.pattern for r in added] == ['/c2/ok', '/c2/ab']
        start = app1.routes.index(added[0])
        assert app1.routes[start:start + 2] == added      # contiguous
        assert start == (len(snap1[0]) if index is None else index)
        assert added[1].get_required_args() == ['a', 'b']
        assert get(app1, '/c2/ab') == (200, 'A(res-b) res-b')
        del app1.routes[start:start + 2]   # undo, for the snapshot below
    assert (patterns(child2), list(child2.routes)) == child2_before

    cyc_parent_mws = [ProvideA(), ProvideB()]
    cyc_child = Application([('/ok', ep_plain), ('/x', ep_plain), ('/ab', ep_plain)])
    cyc_child_before = (patterns(cyc_child), list(cyc_child.routes))
    try:
        # every route bound into this parent gets both middlewares -> the
        # very first bind fails, the constructor raises
        Application([('/first', cyc_child)], middlewares=cyc_parent_mws)
    except RuntimeError as e:
        assert str(e).startswith('cycle detected (')
    else:
        raise AssertionError('cycle not detected')
    assert (patterns(cyc_child), list(cyc_child.routes)) == cyc_child_before
    assert get(cyc_child, '/x') == (200, 'plain')

    assert (patterns(app1), list(app1.routes), app1._dispatch_wsgi) == snap1
    assert (patterns(outer), list(outer.routes)) == snap_outer
    assert get(app1, '/item/7') == (200, 'd<one:r1,7>|3|e<dflt>')
    assert get(app1, '/cyc')[0] == 404
    assert get(outer, '/v2/item/3') == (200, 'd<two:outer,3>|9|e<R2>')
    # the route itself is still fine and bindable where no cycle arises
    ok_route = Route('/cyc', ep_ab, middlewares=[ProvideA()], resources={'b': 'bb'})
    app1.add(ok_route, 1)
    assert patterns(app1) == ['/item/<item_id:int>', '/cyc', '/plain']
    assert app1.routes[1].get_required_args() == ['a', 'b']
    assert get(app1, '/cyc') == (200, 'A(bb) bb')


def main():
    check_helpers()
    check_binding()
    print('PASS')


if __name__ == '__main__':
    main()
