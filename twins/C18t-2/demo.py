# -*- coding: utf-8 -*-
"""demo2: MetaApplication.get_main / render_main_page_html -- a failing
peripheral (context, rendering, general items) is reported inside the page,
the page itself always renders; secrets stay redacted."""
import sys
import os
import json

sys.path.insert(0, os.path.dirname(os.path.abspath(__file__)))

from clastic import Application, MetaApplication, render_basic
from clastic import meta
from clastic.meta import MetaPeripheral
from clastic.middleware.cookie import SignedCookieMiddleware

SECRET = 'sw0rdfish-SECRETVALUE'
COOKIE_KEY = 'c00kie-signing-key-PLUGH'
LOG = []


class OKPeri(MetaPeripheral):
    title = 'OK peripheral'
    group_key = 'okp'

    def get_context(self, request, _route, _application, _meta_application,
                    script_root):
        LOG.append(('ctx', 'okp'))
        return {'a': 1,
                'has_request': request is not None,
                'app_is_meta': _application is _meta_application,
                'meta_type': type(_meta_application).__name__,
                'script_root': script_root}

    def render_main_page_html(self, context):
        LOG.append(('render', 'okp'))
        return '<b>OK-CONTENT a=%s</b>' % context['a']

    def get_general_items(self, context):
        LOG.append(('general', 'okp'))
        return [('ok key', 'ok value'),
                (('k', 'k detail'), ('v', 'v detail')),
                ('three', 'part', 'item')]


class FailCtx(MetaPeripheral):
    title = 'Failing context'
    group_key = 'failctx'

    def get_context(self):
        LOG.append(('ctx', 'failctx'))
        raise ValueError('ctx boom')

    def get_general_items(self, context):
        # sees the error context
        return [('failctx exc', context['exc_content'])]


class FailRender(MetaPeripheral):
    title = 'Failing render'
    group_key = 'failrender'

    def get_context(self):
        return {'fine': True}

    def render_main_page_html(self, context):
        raise KeyError('render boom')

    def get_general_items(self, context):
        return [('failrender general', 'still here')]


class FailGeneral(MetaPeripheral):
    title = 'Failing general'
    group_key = 'failgeneral'

    def render_main_page_html(self, context):
        return 'FAILGENERAL-CONTENT'

    def get_general_items(self):
        raise RuntimeError('general boom')


class BadItems(MetaPeripheral):
    title = 'Bad items'
    group_key = 'baditems'

    def get_general_items(self):
        return 42       # not iterable -> no items, no failure


class SharedOne(MetaPeripheral):
    title = 'Shared one'
    group_key = 'shared'

    def get_context(self):
        return {'x': 1, 'y': 'one'}


class SharedTwo(MetaPeripheral):
    title = 'Shared two'
    group_key = 'shared'

    def get_context(self):
        return [('y', 'two'), ('z', 3)]     # anything dict.update accepts

    def render_main_page_html(self, context):
        return 'SHARED x=%(x)s y=%(y)s z=%(z)s' % context


class NeedsUnknownArg(MetaPeripheral):
    title = 'Needs unknown'
    group_key = 'unknownarg'

    def get_context(self, no_such_injectable):
        return {'never': True}


class NoGetContext(object):
    title = 'No get_context'
    group_key = 'nogetctx'

    def render_main_page_html(self, context):
        return None

    def get_general_items(self):
        return []

    def get_extra_routes(self):
        return []


class FalsyExc(MetaPeripheral):
    title = 'Falsy exc_content'
    group_key = 'falsyexc'

    def get_context(self):
        return {'exc_content': ''}      # falsy: not copied to the section

    def render_main_page_html(self, context):
        return 'FALSY'


PERIS = [OKPeri(), FailCtx(), FailRender(), FailGeneral(), BadItems(),
         SharedOne(), SharedTwo(), NeedsUnknownArg(), NoGetContext(),
         FalsyExc()]

# ---- direct call of get_main ------------------------------------------
m = MetaApplication(base_peripherals=PERIS, page_title='Demo Title')
host = Application([('/m', m)], {'x_secret': SECRET})
del LOG[:]
ctx = m.get_main(request=None, _application=host, _route=None,
                 script_root='/sr')
assert list(ctx.keys()) == ['page_title', 'okp', 'failctx', 'failrender',
                            'failgeneral', 'baditems', 'shared',
                            'unknownarg', 'nogetctx', 'falsyexc'], list(ctx)
assert ctx['page_title'] == 'Demo Title'
assert ctx['okp'] == {'a': 1, 'has_request': False, 'app_is_meta': False,
                      'meta_type': 'MetaApplication', 'script_root': '/sr'}
assert ctx['failctx'] == {'exc_content': "ValueError('ctx boom')"}
assert ctx['failrender'] == {'fine': True}
assert ctx['failgeneral'] == {} and ctx['baditems'] == {}
assert ctx['shared'] == {'x': 1, 'y': 'two', 'z': 3}
assert list(ctx['unknownarg'].keys()) == ['exc_content']
assert ctx['unknownarg']['exc_content'].startswith('TypeError(')
assert 'no_such_injectable' in ctx['unknownarg']['exc_content']
assert list(ctx['nogetctx'].keys()) == ['exc_content']
assert ctx['nogetctx']['exc_content'].startswith('AttributeError(')
assert ctx['falsyexc'] == {'exc_content': ''}
assert LOG == [('ctx', 'okp'), ('ctx', 'failctx')]

# every call builds fresh dicts
ctx_b = m.get_main(request=None, _application=host, _route=None, script_root='')
assert ctx_b is not ctx and ctx_b['shared'] is not ctx['shared']
assert ctx_b['okp']['script_root'] == ''


# errors that are NOT swallowed by get_main
class NoneCtx(MetaPeripheral):
    group_key = 'nonectx'

    def get_context(self):
        return None


class NoGroupKey(object):
    title = 'no group key'

    def get_extra_routes(self):
        return []

    def get_context(self):
        return {}


class Interrupt(BaseException):
    pass


class InterruptCtx(MetaPeripheral):
    group_key = 'interrupt'

    def get_context(self):
        raise Interrupt()


for bad_peri, exc_type in [(NoneCtx(), TypeError),
                           (NoGroupKey(), AttributeError),
                           (InterruptCtx(), Interrupt)]:
    bad_m = MetaApplication(base_peripherals=[OKPeri(), bad_peri])
    try:
        bad_m.get_main(request=None, _application=host, _route=None,
                       script_root='')
    except exc_type:
        pass
    else:
        raise AssertionError('expected %r' % exc_type)

# ---- direct call of render_main_page_html -----------------------------
m._main_page_render = lambda context: ('RENDERED', context)
del LOG[:]
tag, out = m.render_main_page_html(ctx)
assert tag == 'RENDERED' and out is ctx
assert list(ctx.keys())[-2:] == ['sections', 'general']
secs = ctx['sections']
assert [s['title'] for s in secs] == [p.title for p in PERIS]
assert [s['group_key'] for s in secs] == [p.group_key for p in PERIS]
assert secs[0] == {'title': 'OK peripheral', 'group_key': 'okp',
                   'content': '<b>OK-CONTENT a=1</b>'}
assert list(secs[0].keys()) == ['title', 'group_key', 'content']
assert secs[1] == {'title': 'Failing context', 'group_key': 'failctx',
                   'content': None,
                   'exc_content': "ValueError('ctx boom')"}
assert secs[2] == {'title': 'Failing render', 'group_key': 'failrender',
                   'exc_content': "KeyError('render boom')"}
assert secs[3] == {'title': 'Failing general', 'group_key': 'failgeneral',
                   'content': 'FAILGENERAL-CONTENT'}
assert secs[4] == {'title': 'Bad items', 'group_key': 'baditems',
                   'content': None}
assert secs[5] == {'title': 'Shared one', 'group_key': 'shared',
                   'content': None}
assert secs[6] == {'title': 'Shared two', 'group_key': 'shared',
                   'content': 'SHARED x=1 y=two z=3'}
assert secs[7]['content'] is None
assert secs[7]['exc_content'] == ctx['unknownarg']['exc_content']
assert secs[8]['content'] is None
assert secs[8]['exc_content'] == ctx['nogetctx']['exc_content']
assert secs[9] == {'title': 'Falsy exc_content', 'group_key': 'falsyexc',
                   'content': 'FALSY'}
assert ctx['general'] == [
    {'key': 'ok key', 'value': 'ok value'},
    {'key': 'k', 'key_detail': 'k detail', 'value': 'v',
     'value_detail': 'v detail'},
    {'key': 'three', 'value': 'part', 'value_detail': 'item'},
    {'key': 'failctx exc', 'value': "ValueError('ctx boom')"},
    {'key': 'failrender general', 'value': 'still here'},
], ctx['general']
assert LOG == [('render', 'okp'), ('general', 'okp')]

# rendering twice starts over (no accumulation)
m.render_main_page_html(ctx)
assert len(ctx['sections']) == len(PERIS) and len(ctx['general']) == 5


# a context that lacks the group of a peripheral (only possible when calling
# the renderer by hand): error in the section, no general items for a first
# peripheral, later ones fall back on the previous peripheral's arguments
class ArglessGeneral(MetaPeripheral):
    title = 'Argless'
    group_key = 'argless'

    def get_general_items(self):
        return [('argless', 'item')]


class CtxGeneral(MetaPeripheral):
    title = 'CtxGeneral'
    group_key = 'ctxgeneral'

    def get_general_items(self, context):
        return [('seen', context.get('marker', 'no marker'))]


m2 = MetaApplication(base_peripherals=[ArglessGeneral(), OKPeri(),
                                       CtxGeneral(), ArglessGeneral()])
m2._main_page_render = lambda context: context
hand_ctx = {'page_title': 't', 'okp': {'a': 7, 'marker': 'from okp'}}
out = m2.render_main_page_html(hand_ctx)
assert out is hand_ctx
assert out['sections'] == [
    {'title': 'Argless', 'group_key': 'argless',
     'exc_content': "KeyError('argless')"},
    {'title': 'OK peripheral', 'group_key': 'okp',
     'content': '<b>OK-CONTENT a=7</b>'},
    {'title': 'CtxGeneral', 'group_key': 'ctxgeneral',
     'exc_content': "KeyError('ctxgeneral')"},
    {'title': 'Argless', 'group_key': 'argless',
     'exc_content': "KeyError('argless')"},
], out['sections']
assert out['general'] == [
    {'key': 'ok key', 'value': 'ok value'},
    {'key': 'k', 'key_detail': 'k detail', 'value': 'v',
     'value_detail': 'v detail'},
    {'key': 'three', 'value': 'part', 'value_detail': 'item'},
    {'key': 'seen', 'value': 'from okp'},
    {'key': 'argless', 'value': 'item'},
], out['general']


# a peripheral without title: the page cannot be rendered (not swallowed)
class NoTitle(object):
    group_key = 'notitle'

    def get_extra_routes(self):
        return []


m3 = MetaApplication(base_peripherals=[NoTitle()])
try:
    m3.render_main_page_html({'notitle': {}})
except AttributeError:
    pass
else:
    raise AssertionError('expected AttributeError')

# group keys that collide with the renderer's own keys
class SectionsPeri(MetaPeripheral):
    title = 'Sections collide'
    group_key = 'sections'

    def get_context(self):
        return {'s': 1}


class GeneralPeri(MetaPeripheral):
    title = 'General collide'
    group_key = 'general'

    def get_context(self):
        return {'g': 1}

    def get_general_items(self, context):
        return [('len', str(len(context)))]


m4 = MetaApplication(base_peripherals=[SectionsPeri(), GeneralPeri()])
m4._main_page_render = lambda context: context
c4 = m4.get_main(request=None, _application=host, _route=None, script_root='')
assert c4 == {'page_title': 'Clastic', 'sections': {'s': 1}, 'general': {'g': 1}}
out4 = m4.render_main_page_html(c4)
assert [sorted(s.keys()) for s in out4['sections']] == \
    [['content', 'exc_content', 'group_key', 'title']] * 2
assert all(s['content'] is None for s in out4['sections'])
assert all(s['exc_content'].startswith('AttributeError(')
           for s in out4['sections'])
assert out4['general'] == [{'key': 'len', 'value': '0'}], out4['general']

# ---- through the application, default + custom peripherals --------------
def hello(request, cookie):
    return 'hi'


def make_app(meta_app, prefix):
    return Application([('/hello', hello, render_basic), (prefix, meta_app)],
                       {'the_secret_thing': SECRET, 'visible': 'seen-value',
                        'nested_secret': {'deep': [SECRET]}},
                       [SignedCookieMiddleware(secret_key=COOKIE_KEY)])


for prefix in ('/meta', '/', '/deep/er/meta'):
    meta_app = MetaApplication(peripherals=PERIS, page_title='Demo <Title>')
    app = make_app(meta_app, prefix)
    cl = app.get_local_client()
    base = prefix.rstrip('/')
    resp = cl.get(base + '/')
    assert resp.status_code == 200
    html = resp.get_data(as_text=True)
    resp = cl.get(base + '/json/')
    assert resp.status_code == 200
    jtext = resp.get_data(as_text=True)
    data = json.loads(jtext)
    for body in (html, jtext):
        assert SECRET not in body and COOKIE_KEY not in body
        assert '[REDACTED]' in body
        assert 'seen-value' in body
    # html: good sections are there, failures are reported, not fatal
    assert 'Demo &lt;Title&gt;' in html
    assert '<b>OK-CONTENT a=1</b>' in html
    assert 'FAILGENERAL-CONTENT' in html
    assert 'SHARED x=1 y=two z=3' in html
    assert 'ctx boom' in html and 'render boom' in html
    assert 'no_such_injectable' in html
    assert 'general boom' not in html
    assert 'still here' in html and 'ok value' in html
    assert 'Start time' in html and 'PID' in html
    assert 'Application Resources' in html and 'Routes' in html
    # json: the same context that get_main computed
    assert data['page_title'] == 'Demo <Title>'
    assert data['failctx'] == {'exc_content': "ValueError('ctx boom')"}
    assert data['shared'] == {'x': 1, 'y': 'two', 'z': 3}
    assert data['okp']['a'] == 1 and data['okp']['has_request'] is True
    assert isinstance(data['okp']['script_root'], str)
    assert 'sections' not in data and 'general' not in data
    assert 'exc_content' not in data['app']
    jres = dict((r['key'], r['value']) for r in data['app']['resources'])
    assert jres['the_secret_thing'] == '[REDACTED]'
    assert jres['nested_secret'] == '[REDACTED]'
    assert jres['visible'] == "'seen-value'"
    for grp in ('basic', 'app', 'host', 'proc', 'rusage', 'pyvm'):
        assert grp in data, grp

print('PASS')
