# -*- coding: utf-8 -*-
"""demo1: when no route settles a request, the NullRoute sentinel still
produces a complete HTTP response: the last non-breaking error if any, else
405 when some pattern matched with another method, else 404 -- for the default
and the contextual (debug) error handler, for custom error types, for every
Accept header, and repeatedly against one application.
"""
import json
import warnings

warnings.simplefilter('ignore')

from werkzeug.test import EnvironBuilder
from werkzeug.wrappers import Request, Response

from clastic import Application, Route, GET, POST, PUT, S_STRICT, S_REDIRECT
from clastic.application import DispatchState
from clastic.route import NullRoute
from clastic.errors import (ErrorHandler, ContextualErrorHandler, HTTPException,
                            NotFound, MethodNotAllowed, Forbidden, BadRequest,
                            ContextualNotFound, ServiceUnavailable)

ACCEPTS = [None, 'text/plain', 'text/html', 'application/json',
           'application/xml', '*/*', 'image/png', 'text/html;q=0.1,application/json',
           'garbage', '']
CTYPES = {'text/plain': 'text/plain', 'text/html': 'text/html',
          'application/json': 'application/json', 'application/xml': 'application/xml'}


def ok():
    return Response('ok')


def nb403():
    raise Forbidden('nope-403', is_breaking=False)


def nb404_returned():
    return NotFound('gone-a', is_breaking=False)


def nb503():
    raise ServiceUnavailable('later', is_breaking=False)


def boom():
    raise KeyError('boom')


class TeapotNotFound(NotFound):
    code = 404
    message = 'Teapot not found'


class MyMNA(MethodNotAllowed):
    message = 'Custom MNA'


class CustomTypesHandler(ErrorHandler):
    not_found_type = TeapotNotFound
    method_not_allowed_type = MyMNA


def make_routes():
    return [POST('/a', ok),
            ('/b', nb403),
            ('/b', nb404_returned),
            GET('/c', nb403),
            POST('/c', ok),
            GET('/d', nb403),
            GET('/d', nb503),
            PUT('/e', ok),
            GET('/e', nb503),
            Route('/s/', ok, slash_mode=S_STRICT),
            ('/boom', boom)]


def fetch(app, path, method='GET', accept=None):
    headers = {} if accept is None else {'Accept': accept}
    cl = app.get_local_client()
    resp = cl.open(path, method=method, headers=headers)
    body = resp.get_data(True)  # iterates the whole body
    assert resp.status_code == int(resp.status.split()[0])
    assert resp.headers.get('Content-Type')
    return resp, body


def expected_ctype(accept):
    from werkzeug.datastructures import MIMEAccept
    from werkzeug.http import parse_accept_header
    best = parse_accept_header(accept or '', MIMEAccept).best_match(
        ['text/html', 'application/json', 'text/plain', 'application/xml'])
    return CTYPES.get(best, 'text/plain')


def check_app(app, nf_message, mna_message, contextual, strict=False):
    # (method, path) -> (status, fragment expected in the body)
    table = [
        ('GET', '/a', 405, mna_message),           # only POST allowed
        ('DELETE', '/a', 405, mna_message),
        ('POST', '/a', 200, 'ok'),
        ('GET', '/b', 404, 'gone-a'),              # last non-breaking error wins
        ('GET', '/c', 403, 'nope-403'),            # error beats allowed methods
        ('PUT', '/c', 405, mna_message),
        ('GET', '/d', 503, 'later'),
        ('GET', '/e', 503, 'later'),               # error beats 405 of PUT /e
        ('DELETE', '/e', 405, mna_message),
        ('GET', '/zzz', 404, nf_message),
        ('GET', '/zzz/deeper/still', 404, nf_message),
        ('POST', '/', 404, nf_message),
        # strict slashes: not found; otherwise a redirect to /s/
        ('GET', '/s', 404, nf_message) if strict else ('GET', '/s', 302, '/s/'),
        ('GET', '/s/', 200, 'ok'),
        ('GET', '/boom', 500, 'KeyError'),
    ]
    for _round in range(2):   # the app is unchanged by failed requests
        for method, path, status, fragment in table:
            for accept in ACCEPTS:
                resp, body = fetch(app, path, method, accept)
                ctx = (method, path, accept, resp.status, body[:80])
                assert resp.status_code == status, ctx
                if status == 200:
                    assert body == 'ok', ctx
                    continue
                if status == 302:
                    assert resp.headers['Location'].rstrip('?').endswith('/s/'), (ctx, resp.headers['Location'])
                    continue
                ctype = expected_ctype(accept)
                assert resp.headers['Content-Type'].startswith(ctype), ctx
                if contextual and ctype == 'text/html' and status in (404, 500) \
                   and fragment in (nf_message, 'KeyError'):
                    assert '<html' in body.lower(), ctx
                    continue
                assert fragment.lower() in body.lower(), ctx
                if ctype == 'application/json':
                    data = json.loads(body)
                    assert data['code'] == status, ctx
                if status == 405 and ctype == 'text/plain':
                    assert 'Allowed methods: [' in body, ctx

    # allowed methods are the union over the path-matching routes
    _, body = fetch(app, '/c', 'PUT', 'application/json')
    assert "['GET', 'HEAD', 'POST']" in json.loads(body)['detail']
    _, body = fetch(app, '/a', 'GET', 'application/json')
    assert "['POST']" in json.loads(body)['detail']


def direct_sentinel_checks():
    """Call the sentinel endpoint itself with hand-made dispatch states."""
    for handler, nf_type, mna_type in [
            (ErrorHandler(), NotFound, MethodNotAllowed),
            (ContextualErrorHandler(), ContextualNotFound, MethodNotAllowed),
            (CustomTypesHandler(), TeapotNotFound, MyMNA)]:
        app = Application(make_routes(), error_handler=handler)
        null_route = app._null_route
        sentinel = null_route.endpoint
        request = Request(EnvironBuilder(path='/nowhere').get_environ())

        # nothing happened: 404 of the handler's type, wired to the dispatch
        state = DispatchState()
        ret = sentinel(request=request, _application=app,
                       _route=null_route, _dispatch_state=state)
        assert type(ret) is nf_type, ret
        assert ret.code == 404 and ret.dispatch_state is state
        if nf_type is ContextualNotFound:
            assert ret.request is request and ret.application is app

        # only methods recorded: 405 of the handler's type
        state = DispatchState()
        state.update_methods(set(['POST', 'PUT']))
        ret = sentinel(request=request, _application=app,
                       _route=null_route, _dispatch_state=state)
        assert type(ret) is mna_type and ret.code == 405
        assert ret.allowed_methods == set(['POST', 'PUT'])
        assert ret.allowed_methods is not state.allowed_methods

        # exceptions recorded: the very same (last) object comes back,
        # whatever else the state holds
        first, last = Forbidden(is_breaking=False), BadRequest(is_breaking=False)
        for methods in (set(), set(['GET'])):
            state = DispatchState()
            state.update_methods(methods)
            state.add_exception(first)
            state.add_exception(last)
            ret = sentinel(request=request, _application=app,
                           _route=null_route, _dispatch_state=state)
            assert ret is last
            assert state.exceptions == [first, last]

        # a handler without the needed attributes fails the same way,
        # even if an exception is already recorded
        class NoHandlerApp(object):
            pass
        state = DispatchState()
        state.add_exception(first)
        try:
            sentinel(request=request, _application=NoHandlerApp(),
                     _route=null_route, _dispatch_state=state)
        except AttributeError:
            pass
        else:
            raise AssertionError('expected AttributeError')


def main():
    check_app(Application(make_routes()), 'not found', 'method not allowed',
              contextual=False)
    check_app(Application(make_routes(), debug=True), 'not found',
              'method not allowed', contextual=True)
    check_app(Application(make_routes(), error_handler=CustomTypesHandler()),
              'teapot not found', 'custom mna', contextual=False)
    check_app(Application(make_routes(), slash_mode=S_STRICT), 'not found',
              'method not allowed', contextual=False, strict=True)
    check_app(Application(make_routes(), slash_mode=S_STRICT, debug=True),
              'not found', 'method not allowed', contextual=True, strict=True)
    direct_sentinel_checks()

    # a re-raising handler has no influence on 404 / 405 / non-breaking errors
    app = Application(make_routes(),
                      error_handler=ErrorHandler(reraise_uncaught=True))
    for method, path, status in [('GET', '/a', 405), ('GET', '/zzz', 404),
                                 ('GET', '/c', 403), ('GET', '/b', 404)]:
        resp, body = fetch(app, path, method)
        assert resp.status_code == status
    try:
        fetch(app, '/boom')
    except KeyError as ke:
        assert ke.args == ('boom',)
    else:
        raise AssertionError('expected the original KeyError to escape')
    resp, body = fetch(app, '/a', 'POST')
    assert (resp.status_code, body) == (200, 'ok')

    # an application with no routes at all still answers
    empty = Application()
    for accept in ACCEPTS:
        for method in ('GET', 'POST', 'HEAD', 'OPTIONS'):
            resp, body = fetch(empty, '/anything', method, accept)
            assert resp.status_code == 404
    print('PASS')


if __name__ == '__main__':
    main()
