# -*- coding: utf-8 -*-
"""C11 demo 1: binding is non-destructive, applications are isolated, add() is atomic.

Focus: Application.add() / SubApplication.bind_all() / cast_to_route_factory().
A model routing table is kept for every live application and compared with the
real one (patterns + responses) after every single operation.
"""
import random
import sys

from clastic import Application, Route, SubApplication, Response
from clastic.route import InvalidPattern, NullRoute, BoundRoute
from clastic.middleware import Middleware


def make_ep(tag):
    def ep(who):
        return Response('%s|%s' % (tag, who))
    ep.__name__ = 'ep_%s' % tag
    return ep


def needs_missing(who, not_there):
    return Response('never')


def var_ep(x, who):
    return Response('var:%s|%s' % (x, who))


class WhoMW(Middleware):
    provides = ('who',)

    def request(self, next):
        return next(who='mw')


class ModelApp(object):
    def __init__(self, name, app):
        self.name = name
        self.app = app
        self.table = []   # list of (pattern, tag, who)

    def insert(self, entries, index):
        if index is None:
            index = len(self.table)
        for e in entries:
            self.table.insert(index, e)
            index += 1

    def expected(self, path):
        for patt, tag, who in self.table:
            if patt == path:
                # application resources of the *dispatching* app are injected at
                # request time, so an embedded route answers with the outer name
                return 200, '%s|%s' % (tag, self.name)
        return 404, None


class Harness(object):
    def __init__(self, seed):
        self.rnd = random.Random(seed)
        self.models = []
        self.shared_routes = []   # (Route, tag, snapshot)
        self.counter = 0
        self.all_paths = set(['/nope'])

    # -- helpers
    def fresh_tag(self):
        self.counter += 1
        return 't%d' % self.counter

    def route_snapshot(self, rt):
        return (rt.pattern, rt.endpoint, rt.render, rt.render_error, rt.methods,
                rt.slash_mode, list(rt.middlewares), dict(rt.resources),
                sorted(k for k in vars(rt)))

    def new_route(self):
        tag = self.fresh_tag()
        patt = '/' + tag
        rt = Route(patt, make_ep(tag))
        self.shared_routes.append((rt, tag, self.route_snapshot(rt)))
        self.all_paths.add(patt)
        return rt, tag

    def pick_index(self, model):
        n = len(model.table)
        return self.rnd.choice([None, 0, n, n + 3, n // 2, 1, -1, -n - 2])

    # -- checks
    def check_all(self, why):
        for m in self.models:
            real = [r.pattern for r in m.app.routes]
            want = [e[0] for e in m.table]
            assert real == want, (why, m.name, real, want)
            assert all(isinstance(r, BoundRoute) for r in m.app.routes)
            assert all(r.bound_apps[-1] is m.app for r in m.app.routes), (why, m.name)
            assert not any(isinstance(r.unbound_route, NullRoute) for r in m.app.routes)
            cl = m.app.get_local_client()
            own = set(e[0] for e in m.table)
            foreign = sorted(self.all_paths - own)
            probe = own | set(self.rnd.sample(foreign, min(6, len(foreign)))) | set(['/nope'])
            for path in sorted(probe):
                status, body = m.expected(path)
                resp = cl.get(path)
                assert resp.status_code == status, (why, m.name, path, resp.status_code, status)
                if body is not None:
                    assert resp.get_data(True) == body, (why, m.name, path, resp.get_data(True), body)
        for rt, tag, snap in self.shared_routes:
            assert self.route_snapshot(rt) == snap, (why, tag)
            assert not hasattr(rt, 'bound_apps') and not hasattr(rt, 'unbound_route')

    # -- operations
    def op_new_app(self):
        name = 'app%d' % len(self.models)
        init = []
        entries = []
        for _ in range(self.rnd.randrange(0, 3)):
            rt, tag = self.new_route()
            form = self.rnd.randrange(3)
            init.append([rt, (rt.pattern, rt.endpoint), [rt.pattern, rt.endpoint, None]][form])
            entries.append((rt.pattern, tag, name))
        app = Application(init, resources={'who': name})
        m = ModelApp(name, app)
        m.insert(entries, None)
        self.models.append(m)
        return 'new ' + name

    def op_add_route(self):
        m = self.rnd.choice(self.models)
        if self.shared_routes and self.rnd.random() < 0.5:
            rt, tag, _ = self.rnd.choice(self.shared_routes)   # same Route object, bound again
        else:
            rt, tag = self.new_route()
        idx = self.pick_index(m)
        entry = rt if self.rnd.random() < 0.6 else (rt.pattern, rt.endpoint)
        if idx is None and self.rnd.random() < 0.5:
            ret = m.app.add(entry)
        else:
            ret = m.app.add(entry, idx)
        assert ret is None
        m.insert([(rt.pattern, tag, m.name)], idx)
        return 'add %s to %s at %r' % (tag, m.name, idx)

    def op_embed(self):
        outer = self.rnd.choice(self.models)
        inner = self.rnd.choice(self.models)   # may be the same app: self-embedding a snapshot
        prefix = '/p%d' % self.counter
        self.counter += 1
        idx = self.pick_index(outer)
        before_inner_routes = list(inner.app.routes)
        form = self.rnd.randrange(3)
        if form == 0:
            outer.app.add((prefix, inner.app), idx)
        elif form == 1:
            outer.app.add(SubApplication(prefix + '/', inner.app), idx)   # trailing slash stripped
        else:
            outer.app.add([prefix, inner.app], index=idx)
        if inner is not outer:
            assert inner.app.routes == before_inner_routes
            assert all(a is b for a, b in zip(inner.app.routes, before_inner_routes))
        new_entries = [(prefix + p, t, w) for (p, t, w) in list(inner.table)]
        for e in new_entries:
            self.all_paths.add(e[0])
        outer.insert(new_entries, idx)
        return 'embed %s in %s under %s at %r' % (inner.name, outer.name, prefix, idx)

    def op_failing_add(self):
        m = self.rnd.choice(self.models)
        idx = self.pick_index(m)
        kind = self.rnd.randrange(8)
        routes_before = list(m.app.routes)
        try:
            if kind == 0:
                m.app.add(('/missing', needs_missing), idx)
                exp = None
            elif kind == 1:
                exp = InvalidPattern
                m.app.add(('no-slash', make_ep('x')), idx)
            elif kind == 2:
                exp = TypeError
                m.app.add(('/notcallable', 'a string'), idx)
            elif kind == 3:
                exp = TypeError
                m.app.add(42, idx)
            elif kind == 4:
                exp = IndexError
                m.app.add(('/short',), idx)
            elif kind == 5:
                # middleware providing a name which is already a resource
                exp = NameError
                m.app.add(Route('/conflict', make_ep('c'), middlewares=[WhoMW()]), idx)
            elif kind == 6:
                # k-th route of an embedded application fails
                exp = InvalidPattern
                sub = Application([('/ok1', make_ep('ok1')), ('/ok2', make_ep('ok2')),
                                   ('/bad/<x>', var_ep), ('/ok3', make_ep('ok3'))],
                                  resources={'who': 'sub'})
                m.app.add(('/<x>', sub), idx)
            else:
                exp = TypeError
                m.app.add(Route('/kw', make_ep('kw')), idx, bogus_kwarg=1)
        except Exception as e:
            if kind == 0:
                assert type(e) is NameError, e
            else:
                assert isinstance(e, exp), (kind, e)
            if kind == 4:
                assert type(e) is IndexError
        else:
            raise AssertionError('failing add kind %d did not fail' % kind)
        assert len(m.app.routes) == len(routes_before)
        assert all(a is b for a, b in zip(m.app.routes, routes_before))
        return 'failing add kind %d on %s' % (kind, m.name)

    def op_failing_ctor(self):
        rt, tag, _ = self.rnd.choice(self.shared_routes) if self.shared_routes else (None, None, None)
        routes = [rt] if rt is not None else []
        routes.append(('/missing', needs_missing))
        try:
            Application(routes, resources={'who': 'ghost'})
        except NameError:
            pass
        else:
            raise AssertionError('constructor should have failed')
        return 'failing ctor'

    def run(self, steps):
        self.op_new_app()
        self.check_all('initial')
        ops = [self.op_new_app, self.op_add_route, self.op_add_route, self.op_embed,
               self.op_failing_add, self.op_failing_add, self.op_failing_ctor]
        for _ in range(steps):
            op = self.rnd.choice(ops)
            if op is self.op_new_app and len(self.models) >= 4:
                continue
            if op is self.op_embed and sum(len(m.table) for m in self.models) > 60:
                continue
            why = op()
            self.check_all(why)


def fixed_scenarios():
    # explicit kwargs handling on add() / bind_all()
    ep = make_ep('k')
    inner = Application([('/a', ep), ('/b/', ep)], resources={'who': 'inner'}, slash_mode='strict')
    outer = Application(resources={'who': 'outer'})
    sub = SubApplication('/s/', inner, rebind_render=True, inherit_slashes=False)
    assert sub.prefix == '/s'
    outer.add(sub)
    assert [r.pattern for r in outer.routes] == ['/s/a', '/s/b/']
    assert [r.slash_mode for r in outer.routes] == ['strict', 'strict']   # not inherited
    outer.add(sub, 0, inherit_slashes=True)                               # explicit kwarg wins
    assert [r.slash_mode for r in outer.routes] == ['redirect', 'redirect', 'strict', 'strict']
    # caller-supplied prefix is overridden by the SubApplication's own
    got = sub.bind_all(outer, prefix='/zzz')
    assert [r.pattern for r in got] == ['/s/a', '/s/b/']
    assert [r.pattern for r in inner.routes] == ['/a', '/b/']
    assert got is not inner.routes and isinstance(got, list)
    # unknown kwargs: error names exactly the unknown keys, in caller order
    try:
        sub.bind_all(outer, zeta=1, rebind_render=False, alpha=2)
    except TypeError as te:
        assert "['zeta', 'alpha']" in str(te), str(te)
    else:
        raise AssertionError('expected TypeError')
    # empty sub application: nothing is added, whatever the index
    empty = Application()
    outer.add(('/e', empty), 1)
    assert len(outer.routes) == 4
    # error message of cast failure
    for bad in (42, 'ab', ('/x', 5), None, ['/x', None]):
        try:
            outer.add(bad)
        except TypeError as te:
            assert str(te) == 'Could not create route from %r' % (bad,), str(te)
        else:
            raise AssertionError('expected TypeError for %r' % (bad,))
    assert len(outer.routes) == 4
    cl = outer.get_local_client()
    assert cl.get('/s/a').get_data(True) == 'k|outer'
    assert [r.resources for r in outer.routes] == [{'who': 'inner'}] * 4
    assert inner.get_local_client().get('/a').get_data(True) == 'k|inner'
    assert inner.get_local_client().get('/s/a').status_code == 404


def main():
    fixed_scenarios()
    for seed in range(10):
        Harness(seed).run(40)
    print('PASS')
    return 0


if __name__ == '__main__':
    sys.exit(main())
