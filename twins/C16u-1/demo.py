#!/usr/bin/env python
# -*- coding: utf-8 -*-
"""demo1: signed cookies -- only intact, unexpired, server-signed data is ever
presented.  Emphasis of this demo: the JSONCookie codec (quote / unquote /
unserialize / set_expires) plus a model-based run through a real Application.

Prints PASS and exits 0 when every assertion holds.
"""
import sys
import json
import base64
import random
import warnings

warnings.filterwarnings('ignore')

from werkzeug.test import Client
from werkzeug.http import parse_cookie, dump_cookie, cookie_date

import secure_cookie.cookie as sc_mod
from secure_cookie.cookie import UnquoteError
import clastic.middleware.cookie as ck_mod
from clastic import Application, Response
from clastic.middleware.cookie import (SignedCookieMiddleware, JSONCookie,
                                       NEVER, SESSION, NOW)


# ---------------------------------------------------------------- fake clock
class Clock(object):
    def __init__(self, now):
        self.now = now

    def time(self):
        return self.now


CLOCK = Clock(1000000000.0)
ck_mod.time = CLOCK          # the module only ever calls time.time()
sc_mod.time = CLOCK.time     # "from time import time" in secure_cookie


# ------------------------------------------------------------------ endpoint
def _handle(request, cookie):
    seen = dict(cookie)
    op = request.args.get('op', 'read')
    if op == 'set':
        cookie[request.args['k']] = json.loads(request.args['v'])
    elif op == 'del':
        cookie.pop(request.args['k'], None)
    elif op == 'clear':
        cookie.clear()
    elif op == 'expire_now':
        cookie.set_expires()
    elif op == 'expire_at':
        cookie.set_expires(float(request.args['t']))
    return Response(json.dumps(seen, sort_keys=True),
                    mimetype='application/json')


def make_endpoint(arg_name):
    src = ('def endpoint(request, %s):\n    return _handle(request, %s)\n'
           % (arg_name, arg_name))
    ns = {'_handle': _handle}
    exec(src, ns)
    return ns['endpoint']


def make_app(arg_name='cookie', **mw_kwargs):
    mw = SignedCookieMiddleware(arg_name=arg_name, **mw_kwargs)
    app = Application([('/', make_endpoint(arg_name))], middlewares=[mw])
    return app, mw


# ------------------------------------------------------------------- browser
def parse_set_cookie(header):
    parts = header.split('; ')
    name, value = list(parse_cookie(parts[0]).items())[0]
    attrs = {}
    for p in parts[1:]:
        k, _, v = p.partition('=')
        attrs[k.lower()] = v
    return name, value, attrs


class Browser(object):
    """A hand-made cookie jar holding one cookie; nothing is hidden."""

    def __init__(self, app, cookie_name):
        self.client = Client(app, Response, use_cookies=False)
        self.cookie_name = cookie_name
        self.value = None      # decoded cookie value (text) or None
        self.raw = None        # if set: raw Cookie header sent verbatim

    def cookie_header(self):
        if self.raw is not None:
            return self.raw
        if self.value is None:
            return None
        dumped = dump_cookie(self.cookie_name, self.value, path=None)
        return dumped

    def get(self, **params):
        overrides = {}
        hdr = self.cookie_header()
        if hdr is not None:
            overrides['HTTP_COOKIE'] = hdr
        resp = self.client.get('/', query_string=params,
                               environ_overrides=overrides)
        issued = [parse_set_cookie(h)
                  for h in resp.headers.getlist('Set-Cookie')]
        return resp, issued


def decode_independently(value):
    """Decode a server cookie without clastic: returns (sig_bytes, dict)."""
    sig, _, payload = value.partition('?')
    out = {}
    for item in payload.split('&'):
        if not item:
            continue
        k, _, v = item.partition('=')
        from werkzeug.urls import url_unquote_plus
        out[url_unquote_plus(k)] = json.loads(base64.b64decode(v).decode('utf8'))
    return base64.b64decode(sig), out


# --------------------------------------------------------------------- model
class Model(object):
    def __init__(self):
        self.state = 'none'    # none | valid | garbage
        self.data = {}
        self.expires = None


def is_timed(expiry):
    return expiry != NEVER and expiry != SESSION


def step(browser, model, mw, op='read', **args):
    now = CLOCK.now
    if model.state == 'valid' and (model.expires is None
                                   or not now > model.expires):
        seen_exp = dict(model.data)
    else:
        seen_exp = {}
    resp, issued = browser.get(op=op, **args)
    assert resp.status_code == 200, (resp.status_code, browser.cookie_header())
    seen = json.loads(resp.data.decode('utf8'))
    assert seen == seen_exp, (seen, seen_exp, browser.cookie_header())

    new = dict(seen_exp)
    app_expires = None
    if op == 'set':
        new[args['k']] = json.loads(args['v'])
    elif op == 'del':
        new.pop(args['k'], None)
    elif op == 'clear':
        new = {}
    elif op == 'expire_now':
        app_expires = 123456
    elif op == 'expire_at':
        app_expires = float(args['t'])

    if app_expires is not None:
        raw_e = app_expires
    elif is_timed(mw.expiry):
        raw_e = now + mw.expiry
    else:
        raw_e = None

    must_issue = op in ('set', 'expire_now', 'expire_at') or is_timed(mw.expiry)
    issued = [i for i in issued if i[0] == mw.cookie_name]
    assert len(issued) <= 1
    if must_issue:
        assert issued, (op, args)
    if not issued:
        assert new == seen_exp and raw_e is None
        return seen
    name, value, attrs = issued[0]
    # Set-Cookie attributes
    if raw_e is not None:
        assert attrs.get('expires') == cookie_date(raw_e), (attrs, raw_e)
    else:
        assert 'expires' not in attrs, attrs
    assert 'max-age' not in attrs
    assert attrs.get('path') == mw.path
    if mw.domain:
        assert attrs.get('domain') == mw.domain
    else:
        assert 'domain' not in attrs
    assert ('secure' in attrs) == bool(mw.secure)
    assert ('httponly' in attrs) == bool(mw.http_only)
    # contents: exactly what the application stored (+ the _expires stamp)
    sig, payload = decode_independently(value)
    stored = dict(new)
    if raw_e is not None:
        stored['_expires'] = int(raw_e) if raw_e else raw_e
    assert payload == stored, (payload, stored)
    assert len(sig) == 20
    browser.value, browser.raw = value, None
    model.state, model.data = 'valid', new
    model.expires = stored.get('_expires')
    return seen


# ------------------------------------------------------------------ tampering
B64 = 'ABCDEFGHIJKLMNOPQRSTUVWXYZabcdefghijklmnopqrstuvwxyz0123456789+/'


def flip(ch):
    return B64[(B64.index(ch) + 7) % 64] if ch in B64 else 'A'


def tamper(kind, value, rng, other_value=None, mw=None):
    """Return a cookie value that the server did NOT produce."""
    sig, _, payload = value.partition('?')
    if kind == 'flip_sig':
        i = rng.randrange(0, 20)
        return sig[:i] + flip(sig[i]) + sig[i + 1:] + '?' + payload
    if kind == 'flip_payload':
        idx = [i for i, c in enumerate(payload) if c in B64]
        i = rng.choice(idx)
        return sig + '?' + payload[:i] + flip(payload[i]) + payload[i + 1:]
    if kind == 'truncate':
        return value[:-rng.randrange(1, max(2, len(payload)))]
    if kind == 'truncate_sig':
        return value[rng.randrange(1, 20):]
    if kind == 'extend':
        return value + rng.choice(['A', '&x=MQ==', '&', '=', '&admin=dHJ1ZQ=='])
    if kind == 'swap':
        osig, _, opayload = other_value.partition('?')
        return sig + '?' + opayload
    if kind == 'resign':
        _, data = decode_independently(value)
        data['admin'] = True
        forged = JSONCookie(data, b'not the server key').serialize()
        return forged.decode('ascii')
    if kind == 'random':
        return ''.join(chr(rng.randrange(33, 127)) for _ in range(rng.randrange(1, 60)))
    if kind == 'nonascii':
        return rng.choice([u'\xfc\xf1\xee?k\xe9y=dmFs', u'☃?☃=☃',
                           sig + u'?\xfc=' + payload.partition('=')[2],
                           sig + u'?\xff\xfe' + payload])
    if kind == 'bad_b64':
        return rng.choice(['!!!!?' + payload, '=?' + payload, 'A?' + payload,
                           sig[:-1] + '?' + payload, sig + '?a=!!!',
                           sig + '?a=A', '?', '??', '?=', '=', '&', '?a',
                           '?a=', '?=MQ==', sig + '?', sig + '?%ff=MQ=='])
    if kind == 'no_sep':
        return rng.choice([sig, payload, sig + payload, value.replace('?', ''),
                           value.replace('=', ''), value.replace('?', '&')])
    raise ValueError(kind)


KINDS = ['flip_sig', 'flip_payload', 'truncate', 'truncate_sig', 'extend',
         'swap', 'resign', 'random', 'nonascii', 'bad_b64', 'no_sep']

VALUES = [0, 1, -1, 1.5, 1e100, '', 'x', u'\xfcn\xefc\xf6de ☃', True, False,
          None, [], {}, [1, [2, [3, {'a': None}]]], {'k': {'k': [u'é', '']}},
          'a' * 300, '"quoted"', '?&=;, ', 12345678901234567890]
KEYS = ['name', 'a b', 'k=1', u'\xfc&?', 'x', '', '0', 'admin', u'☃']


def random_run(seed, n_steps, n_browsers=3, **mw_kwargs):
    rng = random.Random(seed)
    arg_name = mw_kwargs.pop('arg_name', 'cookie')
    app, mw = make_app(arg_name=arg_name, **mw_kwargs)
    browsers = [Browser(app, mw.cookie_name) for _ in range(n_browsers)]
    models = [Model() for _ in range(n_browsers)]
    n_tampered = 0
    for _ in range(n_steps):
        i = rng.randrange(n_browsers)
        b, m = browsers[i], models[i]
        r = rng.random()
        if r < 0.30:
            step(b, m, mw, 'set', k=rng.choice(KEYS),
                 v=json.dumps(rng.choice(VALUES)))
        elif r < 0.38:
            step(b, m, mw, 'del', k=rng.choice(KEYS))
        elif r < 0.42:
            step(b, m, mw, 'clear')
        elif r < 0.60:
            step(b, m, mw, 'read')
        elif r < 0.64:
            step(b, m, mw, 'expire_now')
        elif r < 0.70:
            step(b, m, mw, 'expire_at', t=repr(CLOCK.now + rng.choice([1, 3.5, 20, -5])))
        elif r < 0.80:
            CLOCK.now += rng.choice([0.25, 0.5, 1, 2, 7, 30])
        else:
            if b.value is None or m.state != 'valid' or not m.data:
                continue
            kind = rng.choice(KINDS)
            other = None
            if kind == 'swap':
                others = [x.value for x in browsers
                          if x.value and x.value.partition('?')[2] != b.value.partition('?')[2]]
                if not others:
                    continue
                other = rng.choice(others)
            forged = tamper(kind, b.value, rng, other, mw)
            assert forged != b.value
            b.value = forged
            m.state = 'garbage'
            n_tampered += 1
            # a tampered cookie: empty contents, normal response
            step(b, m, mw, 'read')
    return n_tampered


# ------------------------------------------------------ codec-level checks
def codec_checks():
    key = b'server secret'
    for v in VALUES:
        q = JSONCookie.quote(v)
        assert isinstance(q, bytes)
        assert q == base64.b64encode(json.dumps(v).encode('utf8')), (v, q)
        assert b'\n' not in q and q.strip() == q
        back = JSONCookie.unquote(q)
        assert back == v and type(back) is type(v), (v, back)
        # text input is accepted by b64decode too
        assert JSONCookie.unquote(q.decode('ascii')) == v
    # unquote: every failure is an UnquoteError, nothing else escapes
    bad_inputs = [b'!!!', b'A', b'AAAA', base64.b64encode(b'\xff\xfe'),
                  base64.b64encode(b'{not json'), base64.b64encode(b''), b'',
                  u'☃', None, 5, object(), [b'MQ=='],
                  base64.b64encode(b'[1, 2'), base64.b64encode(b'NaNx')]
    for bad in bad_inputs:
        try:
            res = JSONCookie.unquote(bad)
        except UnquoteError as e:
            assert type(e) is UnquoteError and e.args == ()
        else:
            raise AssertionError('unquote accepted %r -> %r' % (bad, res))
    # an exception that is not an Exception subclass is not swallowed
    class Boom(BaseException):
        pass

    class Exploding(object):
        @staticmethod
        def loads(s):
            raise Boom()
        dumps = staticmethod(json.dumps)

    class BoomCookie(JSONCookie):
        serialization_method = Exploding
    try:
        BoomCookie.unquote(b'MQ==')
    except Boom:
        pass
    else:
        raise AssertionError('BaseException swallowed')
    # the serialization_method of the class in use is honoured
    class Rec(object):
        calls = []

        @classmethod
        def loads(cls, s):
            cls.calls.append(('loads', s))
            return json.loads(s)

        @classmethod
        def dumps(cls, v):
            cls.calls.append(('dumps', v))
            return json.dumps(v)

    class RecCookie(JSONCookie):
        serialization_method = Rec
    assert RecCookie.unquote(RecCookie.quote([1, u'\xfc'])) == [1, u'\xfc']
    assert Rec.calls == [('dumps', [1, u'\xfc']), ('loads', u'[1, "\\u00fc"]')]

    # set_expires
    c = JSONCookie({'a': 1}, key)
    assert c.modified is False
    c.set_expires()
    assert c['_expires'] == 123456 and type(c['_expires']) is int and c.modified
    c.set_expires(NOW)
    assert c['_expires'] == 123456
    c.set_expires('now')
    assert c['_expires'] == 123456
    for t in (0, 1, 2.5, -3, 10 ** 12, None, '', 'later', 123456):
        c2 = JSONCookie({}, key)
        assert c2.set_expires(t) is None
        assert c2['_expires'] == t and type(c2['_expires']) is type(t)
        assert c2.modified is True and list(c2) == ['_expires']
    c3 = JSONCookie({}, key)
    c3.set_expires(epoch_time=77)
    assert c3['_expires'] == 77

    # unserialize: round trip, quotes stripped, invalid -> empty, not new
    data = {'name': u'K\xfcrt', 'n': [1, 2, {'x': None}], 'e': ''}
    ser = JSONCookie(data, key).serialize().decode('ascii')
    for s in (ser, '"' + ser + '"', '""' + ser, ser + '"', ser.encode('ascii')
              if False else ser):
        got = JSONCookie.unserialize(s, key)
        assert type(got) is JSONCookie and dict(got) == data, (s, got)
        assert got.new is False and got.modified is False
        assert got.secret_key == key
    assert dict(JSONCookie.unserialize(ser, b'other key')) == {}
    assert dict(JSONCookie.unserialize(ser, u'server secret')) == data
    rng = random.Random(5)
    ser2 = JSONCookie({'z': 1}, key).serialize().decode('ascii')
    for kind in KINDS:
        for _ in range(25):
            forged = tamper(kind, ser, rng, ser2)
            got = JSONCookie.unserialize(forged, key)
            assert type(got) is JSONCookie and dict(got) == {}, (kind, forged, got)
            assert got.new is False and got.modified is False
            assert got.secret_key == key
    # bytes input is not text: strip('"') raises TypeError *outside* the
    # guarded region; this must stay as it is
    try:
        JSONCookie.unserialize(ser.encode('ascii'), key)
    except TypeError:
        pass
    else:
        raise AssertionError('expected TypeError for bytes input')
    # expiry inside the signed data
    CLOCK.now = 1000000000.0
    c = JSONCookie({'a': 1}, key)
    c.set_expires(CLOCK.now + 10)
    ser = c.serialize().decode('ascii')
    assert dict(JSONCookie.unserialize(ser, key)) == {'a': 1}
    CLOCK.now += 10
    assert dict(JSONCookie.unserialize(ser, key)) == {'a': 1}   # not *past* it
    CLOCK.now += 0.5
    assert dict(JSONCookie.unserialize(ser, key)) == {}
    c = JSONCookie({'a': 1}, key)
    c.set_expires()
    assert dict(JSONCookie.unserialize(c.serialize().decode('ascii'), key)) == {}


def main():
    codec_checks()
    total = 0
    total += random_run(1, 400, expiry=NEVER, secret_key='s3cret')
    total += random_run(2, 400, secret_key=b'bytes key')                # SESSION
    total += random_run(3, 400, expiry=10, secret_key='k')
    total += random_run(4, 300, expiry=0.5)                             # random key
    total += random_run(5, 300, expiry=3, arg_name='jar', cookie_name='my-jar',
                        domain='example.com', path='/', secure=True,
                        http_only=True, secret_key=u'k\xe9y')
    total += random_run(6, 200, arg_name='sess', expiry=SESSION)
    assert total > 150, total
    print('PASS')
    return 0


if __name__ == '__main__':
    sys.exit(main())
