# -*- coding: utf-8 -*-
"""demo1: path confinement of find_file / StaticApplication.get_file_response.

Builds a directory tree with secrets beside and above the served roots,
then enumerates request paths built from tricky segments and checks every
answer against an independent model (posixpath.normpath + containment).
Prints PASS and a digest of all observations.
"""
import os
import sys
import shutil
import hashlib
import itertools
import mimetypes
import posixpath
import random
import tempfile
from datetime import datetime

sys.path.insert(0, os.path.dirname(os.path.abspath(__file__)))

from clastic import Application, StaticApplication
from clastic.static import find_file
from clastic.errors import Forbidden, NotFound

FIXED_MTIME = 1500000000

LOG = []


def log(*a):
    LOG.append(repr(a))


def write(path, data):
    d = os.path.dirname(path)
    if not os.path.isdir(d):
        os.makedirs(d)
    with open(path, 'wb') as f:
        f.write(data)
    os.utime(path, (FIXED_MTIME, FIXED_MTIME))


def build_tree(base):
    root1 = os.path.join(base, 'root1')
    root2 = os.path.join(base, 'root2')
    files1 = {
        'a.txt': b'root1 a\n',
        'sub/b.bin': bytes(bytearray(range(256))) * 3,
        'sub/deep/c.html': b'<html>c</html>',
        'sub/deep/noext': b'plain text no extension',
        'sub/binnoext': b'\x00\x01\x02\x03\xff',
        'empty': b'',
        'sp ace.txt': b'space',
        u'\xfcn\xef.txt': u'\xfcn\xef'.encode('utf-8'),
        'x..y.txt': b'dots inside',
        'dir.d/f.tar.gz': b'\x1f\x8b not really',
        '..hidden': b'SECRET-ish refused name',
        '.../inner.txt': b'SECRET-ish refused dir',
        '.dot': b'dotfile',
    }
    files2 = {
        'a.txt': b'root2 a (shadowed)\n',
        'only2.txt': b'only in root2',
        'sub/deep/only2.css': b'body{}',
    }
    for rel, data in files1.items():
        write(os.path.join(root1, *rel.split('/')), data)
    for rel, data in files2.items():
        write(os.path.join(root2, *rel.split('/')), data)
    write(os.path.join(base, 'secret.txt'), b'SECRET above root')
    write(os.path.join(base, 'root1_sibling', 'secret.txt'), b'SECRET beside')
    write(os.path.join(base, 'root1x'), b'SECRET prefix-named file')
    return root1, root2, files1, files2


def model(roots, path):
    """Independent statement of the property for a relative request path."""
    norm = posixpath.normpath(path)
    if norm.startswith('/') or norm.startswith('..'):
        return 403, None
    for r in roots:
        full = os.path.join(r, norm)
        if os.path.isfile(full):
            return 200, full
    return 404, None


def expected_mime(full):
    mt = mimetypes.guess_type(full)[0]
    if mt:
        return mt
    with open(full, 'rb') as f:
        head = f.read(1024)
    printable = set([7, 8, 9, 10, 12, 13, 27] + list(range(32, 256)))
    if head and any(b not in printable for b in bytearray(head)):
        return 'application/octet-stream'
    return 'text/plain'


class FakeRequest(object):
    if_modified_since = None

    def __init__(self):
        self.environ = {}


def inside(full, roots):
    real = os.path.realpath(full)
    return any(real.startswith(os.path.realpath(r) + os.sep) for r in roots)


def check_direct(sapp, roots, path_arg, joined):
    """Call the endpoint directly (list or str path)."""
    exp_status, exp_full = model(roots, joined)
    try:
        resp = sapp.get_file_response(path_arg, FakeRequest())
    except Forbidden as e:
        assert e.is_breaking is False
        assert type(e) is Forbidden
        got = 403
    except NotFound as e:
        assert e.is_breaking is False
        assert type(e) is NotFound
        got = 404
    else:
        got = resp.status_code
        body = b''.join(resp.response)
        resp.close()
        assert exp_full is not None, (path_arg, 'served unexpectedly')
        assert inside(exp_full, roots)
        with open(exp_full, 'rb') as f:
            assert body == f.read(), path_arg
        assert resp.content_length == len(body)
        assert resp.mimetype == expected_mime(exp_full), (path_arg, resp.mimetype)
        assert resp.last_modified.replace(tzinfo=None) == \
            datetime.utcfromtimestamp(FIXED_MTIME)
        assert b'SECRET a' not in body and b'SECRET b' not in body
    assert got == exp_status, (path_arg, got, exp_status)
    log('direct', path_arg if isinstance(path_arg, str) else list(path_arg), got)
    return got


def check_find_file(roots, path):
    exp_status, exp_full = model(roots, path)
    try:
        res = find_file(roots, path)
    except ValueError as e:
        assert type(e) is ValueError
        assert exp_status == 403, path
        norm = posixpath.normpath(path)
        if norm.startswith('/'):
            assert str(e) == 'expected relative path, not %r' % (path,)
        else:
            assert str(e) == 'attempted to access beyond root directory'
        log('find', path, 'ValueError', str(e))
        return
    if exp_status == 404:
        assert res is None, path
    else:
        assert exp_status == 200 and res == exp_full, (path, res, exp_full)
        assert isinstance(res, str)
    log('find', path, os.path.relpath(res, os.path.dirname(roots[0])) if res else None)


def check_client(client, prefix, roots, segs):
    joined = '/'.join(segs)
    url = prefix + '/' + joined
    if url.startswith('//'):
        # the test client would parse '//x/y' as scheme-relative (host x);
        # hand the raw path to the WSGI app the way a server would
        raw = url.encode('utf-8').decode('latin-1')
        resp = client.get('/', environ_overrides={'PATH_INFO': raw})
    else:
        resp = client.get(url)
    got = resp.status_code
    body = resp.get_data()
    assert got in (200, 403, 404), (url, got)
    assert b'SECRET a' not in body and b'SECRET b' not in body \
        and b'SECRET p' not in body, url
    # default (non-strict) slash mode: trailing slashes are not part of the
    # path; the first slash after the mount point separates, any further
    # leading slashes yield empty first segments (=> absolute path)
    # (werkzeug's request.path collapses slashes at the very start of the URL)
    tail = ('/' + url.lstrip('/'))[len(prefix):].rstrip('/')
    exp_status, exp_full = model(roots, tail[1:])
    assert got == exp_status, (url, got, exp_status)
    if got == 200:
        with open(exp_full, 'rb') as f:
            assert body == f.read()
        assert int(resp.headers['Content-Length']) == len(body)
        assert resp.headers.get('Last-Modified')
        assert resp.mimetype == expected_mime(exp_full)
    log('client', url, got, hashlib.sha1(body).hexdigest() if got == 200 else None)
    return got


def main():
    base = tempfile.mkdtemp(prefix='c14demo1_')
    try:
        root1, root2, files1, files2 = build_tree(base)
        roots = [root1, root2]
        abs_pieces = [p for p in base.split('/') if p]

        # --- 1. find_file directly -------------------------------------
        segs = ['a.txt', 'sub', 'deep', 'b.bin', 'c.html', '.', '..', '',
                '...', '..hidden', 'only2.txt', 'secret.txt', 'root1',
                'root1_sibling']
        n = 0
        for depth in range(0, 4):
            for combo in itertools.product(segs, repeat=depth):
                check_find_file(roots, '/'.join(combo))
                n += 1
        # absolute paths to real secrets and real served files
        for p in [os.path.join(base, 'secret.txt'), os.path.join(root1, 'a.txt'),
                  '/' + '/'.join(abs_pieces + ['root1', 'a.txt']),
                  '//' + '/'.join(abs_pieces + ['secret.txt']),
                  '../root1/a.txt', '../root1x', '../secret.txt',
                  'sub/../../root1_sibling/secret.txt', './/a.txt',
                  'sub//deep///c.html', 'sub/deep/../../a.txt', 'a.txt/',
                  'a.txt/.', 'a.txt/..', 'sub/', '.', '', '..', '...',
                  '.../inner.txt', '..hidden', '.dot', 'x..y.txt',
                  'sp ace.txt', u'\xfcn\xef.txt', 'dir.d/f.tar.gz']:
            check_find_file(roots, p)
            n += 1
        # limit_root=False is the documented escape hatch: no refusals at all
        assert find_file(roots, '../secret.txt', limit_root=False) == \
            os.path.join(root1, '../secret.txt')
        assert find_file(roots, os.path.join(base, 'secret.txt'),
                         limit_root=False) == os.path.join(base, 'secret.txt')
        assert find_file(roots, 'nope', limit_root=False) is None
        assert find_file([], 'a.txt') is None
        assert find_file(iter(roots), 'only2.txt') == os.path.join(root2, 'only2.txt')
        assert find_file((root2, root1), 'a.txt') == os.path.join(root2, 'a.txt')
        # order of checks: absolute refusal message wins, TypeErrors propagate
        for bad in (None, 3, ['a.txt']):
            try:
                find_file(roots, bad)
            except TypeError:
                pass
            else:
                raise AssertionError('expected TypeError for %r' % (bad,))
        try:
            find_file(roots, b'a.txt')
        except TypeError:
            pass
        else:
            raise AssertionError('bytes path should raise TypeError')

        # --- 2. endpoint called directly, list and str paths --------------
        sapp = StaticApplication(roots)
        assert sapp.search_paths is roots
        single = StaticApplication(root2)
        assert single.search_paths == [root2]
        small = ['a.txt', 'sub', 'deep', 'c.html', '.', '..', '', '...',
                 'only2.txt', 'secret.txt'] + abs_pieces[:2]
        counts = {200: 0, 403: 0, 404: 0}
        for depth in range(0, 4):
            for combo in itertools.product(small, repeat=depth):
                joined = '/'.join(combo)
                counts[check_direct(sapp, roots, list(combo), joined)] += 1
                check_direct(sapp, roots, tuple(combo), joined)
                check_direct(sapp, roots, joined, joined)
        check_direct(sapp, roots, [''] + abs_pieces + ['secret.txt'],
                     '/' + '/'.join(abs_pieces + ['secret.txt']))
        check_direct(sapp, roots, [''] + abs_pieces + ['root1', 'a.txt'],
                     '/' + '/'.join(abs_pieces + ['root1', 'a.txt']))
        check_direct(single, [root2], ['a.txt'], 'a.txt')
        check_direct(single, [root2], ['sub', 'b.bin'], 'sub/b.bin')
        assert counts[200] and counts[403] and counts[404], counts
        # non-str segments: TypeError is not swallowed (would be a 500)
        for bad in ([1, 2], [None], 5):
            try:
                sapp.get_file_response(bad, FakeRequest())
            except TypeError:
                pass
            else:
                raise AssertionError('expected TypeError')

        # --- 3. every file is served at its relative path, via HTTP -------
        for prefix, mount in (('/static', '/static/'), ('', '/'), ('/a/b', '/a/b')):
            app = Application([(mount, StaticApplication(roots))])
            client = app.get_local_client()
            for rel, data in sorted(files1.items()):
                first = rel.split('/')[0]
                st = check_client(client, prefix, roots, rel.split('/'))
                if first.startswith('..'):
                    assert st == 403
                else:
                    assert st == 200
            for rel, data in sorted(files2.items()):
                assert check_client(client, prefix, roots, rel.split('/')) == 200
            resp = client.get(prefix + '/a.txt')
            assert resp.get_data() == files1['a.txt']   # first search dir wins

            for depth in range(1, 4):
                for combo in itertools.product(small, repeat=depth):
                    check_client(client, prefix, roots, list(combo))
            check_client(client, prefix, roots, [''] + abs_pieces + ['secret.txt'])
            check_client(client, prefix, roots, ['', ''] + abs_pieces + ['secret.txt'])
            check_client(client, prefix, roots, ['..', 'secret.txt'])
            check_client(client, prefix, roots, ['..', 'root1x'])
            check_client(client, prefix, roots, ['..', 'root1_sibling', 'secret.txt'])
            check_client(client, prefix, roots, ['sub', '..', '..', 'secret.txt'])
            # encoded variants decode to the same segments
            for enc, dec in (('%2e%2e/secret.txt', '../secret.txt'),
                             ('%2E%2E%2Fsecret.txt', '../secret.txt'),
                             ('sub/%2e%2e/a.txt', 'sub/../a.txt'),
                             ('sp%20ace.txt', 'sp ace.txt'),
                             ('%C3%BCn%C3%AF.txt', u'\xfcn\xef.txt'),
                             ('%2F' + '%2F'.join(abs_pieces) + '%2Fsecret.txt',
                              base + '/secret.txt')):
                resp = client.get(prefix + '/' + enc)
                durl = prefix + '/' + dec
                dtail = ('/' + durl.lstrip('/'))[len(prefix):].rstrip('/')
                exp_status, exp_full = model(roots, dtail[1:])
                assert resp.status_code == exp_status, (enc, resp.status_code)
                assert b'SECRET a' not in resp.get_data()
                log('enc', prefix, enc, resp.status_code)

            # random mutations of valid paths
            rnd = random.Random(1234)
            valid = sorted(files1) + sorted(files2)
            for _ in range(300):
                parts = rnd.choice(valid).split('/')
                for _m in range(rnd.randint(1, 3)):
                    pos = rnd.randint(0, len(parts))
                    op = rnd.random()
                    if op < 0.6:
                        parts.insert(pos, rnd.choice(['..', '.', '', '...', 'sub',
                                                      'root1', abs_pieces[0]]))
                    elif parts and op < 0.8:
                        parts.pop(min(pos, len(parts) - 1))
                    elif parts:
                        i = min(pos, len(parts) - 1)
                        parts[i] = parts[i] + rnd.choice(['.', '..', ' ', 'x'])
                if not parts:
                    parts = ['.']
                check_client(client, prefix, roots, parts)

        digest = hashlib.sha1('\n'.join(LOG).replace(base, '<BASE>')
                              .replace(os.path.basename(base), '<TMP>')
                              .encode('utf-8')).hexdigest()
        print('observations: %d  digest: %s' % (len(LOG), digest))
    finally:
        shutil.rmtree(base, ignore_errors=True)
    print('PASS')


if __name__ == '__main__':
    main()
