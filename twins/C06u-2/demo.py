# -*- coding: utf-8 -*-
"""demo2: dispatch property C06 (first match in order, methods, 404/405,
non-breaking fallthrough) + direct checks of BoundRoute.execute and
BoundRoute.execute_error (what gets injected, and with which precedence).

Prints PASS and exits 0 when every assertion holds.
"""
import itertools
import random
import sys
import warnings

warnings.simplefilter('ignore')

from clastic import Application, Route, Response
from clastic.errors import Forbidden, NotFound, BadRequest, InternalServerError
from clastic.route import normalize_path, S_REDIRECT, S_REWRITE, S_STRICT

PATTERNS = ['/a', '/a/<x>', '/<x>', '/a/b', '/b', '/<x>/<y>']
METHOD_SETS = [None, ['GET'], ['POST'], ['post', 'Put'], ['GET', 'DELETE'], ['HEAD']]
BEHAVIOURS = ['ok', 'raise403nb', 'ret404nb', 'raise400', 'ret500', 'boom']
PATHS = ['/a', '/a/b', '/b', '/c/d', '/', '/a/b/c']
METHODS = ['GET', 'HEAD', 'POST', 'get', 'post', 'PURGE', 'DELETE', 'PUT']


def make_endpoint(marker, behaviour):
    hdrs = {'X-Marker': marker}

    def endpoint():
        if behaviour == 'ok':
            return Response('ok ' + marker, headers=hdrs)
        if behaviour == 'raise403nb':
            raise Forbidden(detail=marker, is_breaking=False, headers=hdrs)
        if behaviour == 'ret404nb':
            return NotFound(detail=marker, is_breaking=False, headers=hdrs)
        if behaviour == 'raise400':
            raise BadRequest(detail=marker, headers=hdrs)
        if behaviour == 'ret500':
            return InternalServerError(detail=marker, headers=hdrs)
        raise ValueError('boom ' + marker)
    return endpoint


def path_matches(pattern, path):
    psegs = [s for s in pattern.split('/') if s]
    segs = [s for s in path.split('/') if s]
    if len(psegs) != len(segs):
        return False
    for p, s in zip(psegs, segs):
        if p.startswith('<'):
            continue
        if p != s:
            return False
    return True


def norm_methods(methods):
    if not methods:
        return None
    ret = set(m.upper() for m in methods)
    if 'GET' in ret:
        ret.add('HEAD')
    return ret


def oracle(table, path, method):
    """-> (status, marker or None, allow or None)"""
    exceptions = []
    allowed = set()
    for marker, (pattern, methods, behaviour) in table:
        if not path_matches(pattern, path):
            continue
        nm = norm_methods(methods)
        if nm and method.upper() not in nm:
            allowed |= nm
            continue
        if behaviour == 'ok':
            return 200, marker, None
        if behaviour == 'raise400':
            return 400, marker, None
        if behaviour == 'ret500':
            return 500, marker, None
        if behaviour == 'boom':
            return 500, None, None
        code = 403 if behaviour == 'raise403nb' else 404
        exceptions.append((code, marker))
    if exceptions:
        code, marker = exceptions[-1]
        return code, marker, None
    if allowed:
        return 405, None, ', '.join(sorted(allowed))
    return 404, None, None


def build_app(specs, rng):
    """Build by constructor list or by a random sequence of add(entry, index);
    returns (app, table) with table in effective route order."""
    entries = []
    for i, (pattern, methods, behaviour) in enumerate(specs):
        marker = 'R%d' % i
        kw = {}
        if methods is not None:
            kw['methods'] = methods
        route = Route(pattern, make_endpoint(marker, behaviour), **kw)
        entries.append((marker, (pattern, methods, behaviour), route))
    if rng.random() < 0.4:
        app = Application([e[2] for e in entries])
        table = [(e[0], e[1]) for e in entries]
    else:
        app = Application()
        table = []
        for marker, spec, route in entries:
            choice = rng.random()
            if choice < 0.4:
                app.add(route)
                table.append((marker, spec))
            else:
                idx = rng.randint(0, len(table))
                app.add(route, idx)
                table.insert(idx, (marker, spec))
    assert [r.pattern for r in app.routes] == [s[0] for _, s in table]
    return app, table


def check_table(specs, rng):
    app, table = build_app(specs, rng)
    client = app.get_local_client()
    n = 0
    for path in PATHS:
        for method in METHODS:
            resp = client.open(path=path, method=method)
            exp_status, exp_marker, exp_allow = oracle(table, path, method)
            ctx = (table, path, method, resp.status_code, dict(resp.headers))
            assert resp.status_code == exp_status, ctx
            assert resp.headers.get('X-Marker') == exp_marker, ctx
            assert resp.headers.get('Allow') == exp_allow, ctx
            if exp_marker and method.upper() != 'HEAD':
                assert exp_marker in resp.get_data(True), ctx
            if exp_status == 405 and method.upper() != 'HEAD':
                assert repr(sorted(exp_allow.split(', '))) in resp.get_data(True), ctx
            n += 1
    return n


def check_dispatch_property():
    rng = random.Random(60602)
    catalogue = list(itertools.product(PATTERNS, METHOD_SETS, BEHAVIOURS))
    total = 0
    # every single-route table
    for spec in catalogue:
        total += check_table([spec], rng)
    # random tables of 2..4 routes
    for _ in range(260):
        size = rng.randint(2, 4)
        total += check_table([rng.choice(catalogue) for _ in range(size)], rng)
    # the empty table
    total += check_table([], rng)
    return total


# -- specific to refactoring 2: BoundRoute.execute / execute_error -----------

from werkzeug.test import EnvironBuilder
from clastic.application import Request, DispatchState


def _req(path='/p'):
    return Request(EnvironBuilder(path=path).get_environ())


def check_execute_injection():
    seen = {}

    def endpoint(_route, request, _application, ares, rres, x, opt='dflt'):
        seen['args'] = (_route, request, _application, ares, rres, x, opt)
        return Response('ok')

    app = Application(resources={'ares': 'app-a', 'rres': 'app-r', 'zres': 'app-z'})
    app.add(Route('/e/<x>', endpoint, resources={'rres': 'route-r'}))
    br = app.routes[0]
    assert br.resources == {'ares': 'app-a', 'rres': 'route-r', 'zres': 'app-z'}
    resources_before = dict(br.resources)
    req = _req('/e/v')

    # builtins come from the bound route itself, resources from the route
    resp = br.execute(req, x='v')
    assert resp.get_data(True) == 'ok'
    assert seen['args'][0] is br
    assert seen['args'][1] is req
    assert seen['args'][2] is app
    assert seen['args'][3:] == ('app-a', 'route-r', 'v', 'dflt')

    # explicit keyword arguments win over resources AND over the builtins
    kwargs = dict(x=0, ares=None, rres='', _route='RT', _application='APP', opt=0)
    kwargs_before = dict(kwargs)
    br.execute('REQ', **kwargs)
    # (opt has a signature default and no provider: the middleware chain does
    # not forward it, so the default is used)
    assert seen['args'] == ('RT', 'REQ', 'APP', None, '', 0, 'dflt'), seen['args']
    assert kwargs == kwargs_before
    assert br.resources == resources_before  # not mutated / aliased

    # unknown keyword arguments are ignored, missing required ones -> TypeError
    br.execute(req, x='v', unknown=1)
    assert seen['args'][5] == 'v'
    try:
        br.execute(req)
    except TypeError:
        pass
    else:
        raise AssertionError('expected TypeError for missing path arg')
    # request is a required positional of execute()
    try:
        br.execute(x='v')
    except TypeError:
        pass
    else:
        raise AssertionError('expected TypeError for missing request')

    # through the WSGI callable: what dispatch passes (app-level resources in
    # base_params) overrides the route-level resource, as before
    resp = app.get_local_client().get('/e/seg')
    assert resp.status_code == 200
    assert seen['args'][0] is br and seen['args'][2] is app
    assert seen['args'][3:] == ('app-a', 'app-r', 'seg', 'dflt'), seen['args']

    # the innermost application is injected for routes bound twice
    outer = Application([('/sub', app)])
    obr = outer.routes[0]
    assert obr.bound_apps == [app, outer]
    obr.execute(req, x='v')
    assert seen['args'][0] is obr and seen['args'][2] is outer


def check_execute_error_injection():
    seen = {}

    def render_error_kw(**kw):
        seen['keys'] = list(kw.keys())
        seen['kw'] = kw
        return Response('rendered', status=kw['_error'].code)

    def endpoint():
        raise Forbidden(detail='nope')

    app = Application(resources={'ares': 'app-a', 'zres': 'app-z'})
    br = Route('/f', endpoint, render_error=render_error_kw,
               resources={'rres': 'route-r'}).bind(app, rebind_render_error=False)
    err = Forbidden()
    req = _req('/f')
    resp = br.execute_error(req, err, foo=1)
    assert resp.get_data(True) == 'rendered' and resp.status_code == 403
    # insertion order: builtins, resources, explicit keyword arguments
    assert seen['keys'] == ['_route', '_error', 'request', '_application',
                            'ares', 'zres', 'rres', 'foo'], seen['keys']
    assert seen['kw']['_route'] is br and seen['kw']['_error'] is err
    assert seen['kw']['request'] is req and seen['kw']['_application'] is app
    # explicit keyword arguments override, but keep the original position
    br.execute_error(req, err, _route='RT', ares=0, _application=None)
    assert seen['keys'] == ['_route', '_error', 'request', '_application',
                            'ares', 'zres', 'rres'], seen['keys']
    assert seen['kw']['_route'] == 'RT' and seen['kw']['ares'] == 0
    assert seen['kw']['_application'] is None
    assert br.resources == {'ares': 'app-a', 'zres': 'app-z', 'rres': 'route-r'}

    # named-argument render_error only gets what it asks for
    def render_error_named(_error, ares, request):
        seen['named'] = (_error, ares, request)
        return _error
    br2 = Route('/g', endpoint, render_error=render_error_named,
                resources={'ares': 'shadowed-by-app?'}).bind(
        app, rebind_render_error=False)
    assert br2.resources['ares'] == 'shadowed-by-app?'  # route resource wins
    assert br2.execute_error(req, err, _dispatch_state=DispatchState()) is err
    assert seen['named'] == (err, 'shadowed-by-app?', req)

    # not callable -> TypeError, raised before anything else is looked at
    br3 = Route('/h', endpoint).bind(app, rebind_render_error=False)
    assert br3.render_error is None
    for args in ((req, err), (None, None)):
        try:
            br3.execute_error(*args)
        except TypeError as te:
            assert str(te) == 'render_error not set or not callable'
        else:
            raise AssertionError('expected TypeError')

    # through the WSGI callable: the route's own render_error is used for its
    # own error; a route without one falls back to the default rendering
    app2 = Application(resources={'ares': 'app-a', 'zres': 'app-z'})
    app2.routes.append(br)
    app2.routes.append(br3)
    cl = app2.get_local_client()
    resp = cl.get('/f')
    assert (resp.status_code, resp.get_data(True)) == (403, 'rendered')
    assert seen['keys'][:4] == ['_route', '_error', 'request', '_application']
    assert set(seen['keys'][4:]) == set(['ares', 'zres', 'rres', '_dispatch_state'])
    resp = cl.get('/h')
    assert resp.status_code == 403 and 'nope' in resp.get_data(True)
    # default app error handler: adapts to the Accept header
    app3 = Application([Route('/i', endpoint)])
    resp = app3.get_local_client().get('/i', headers={'Accept': 'application/json'})
    assert resp.status_code == 403 and resp.mimetype == 'application/json'
    assert '"detail": "nope"' in resp.get_data(True)


def main():
    total = check_dispatch_property()
    check_execute_injection()
    check_execute_error_injection()
    print('checked %d requests' % total)
    print('PASS')
    return 0


if __name__ == '__main__':
    sys.exit(main())
