# -*- coding: utf-8 -*-
"""demo2: error responses -- status, negotiated format, escaping.

Focus of this demo: Accept negotiation in application.default_render_error
(the fallback used when a route's own render_error fails or is missing) and
in ErrorHandler.render_error, called directly and through applications.
Prints PASS and exits 0 when every assertion holds.
"""
import json
import sys
from html.parser import HTMLParser
from xml.etree import ElementTree as ET

from clastic import Application, render_basic
from clastic import errors
from clastic.errors import (HTTPException, BadRequest, NotFound, Forbidden,
                            MethodNotAllowed, InternalServerError,
                            MIME_SUPPORT_MAP, DEFAULT_MIME, ERROR_CODE_MAP)

MARK = 'xssmarker'
PAYLOADS = [
    '<%s>alert(1)</%s>' % (MARK, MARK),
    '"quoted" & \'single\' <b %s="1">' % MARK,
    '{braces} {0} {code} {detail!r} }{',
    '{{tmpl}} {#x}{/x} {>partial/} <%s/>' % MARK,
    u'\xfcn\xef\xa9ode ☃ <%s>' % MARK,
    '',
    '0',
]

ALLOWED_HTML_TAGS = {'html', 'head', 'title', 'body', 'h1', 'p', 'a'}


class TagCollector(HTMLParser):
    def __init__(self):
        HTMLParser.__init__(self, convert_charrefs=True)
        self.tags = []
        self.attrs = []
        self.text = []

    def handle_starttag(self, tag, attrs):
        self.tags.append(tag)
        self.attrs.extend(attrs)

    def handle_data(self, data):
        self.text.append(data)


def parse_html(body):
    tc = TagCollector()
    tc.feed(body)
    tc.close()
    return tc


def check_body(fmt, ctype, body, exc):
    """Content-Type agrees with the body and every field is there, escaped."""
    fields = exc.to_dict()
    if fmt == 'json':
        assert ctype == 'application/json', ctype
        data = json.loads(body)
        for key in ('code', 'message', 'detail', 'error_type'):
            assert key in data, (key, data)
        assert data['code'] == exc.code
        assert data['message'] == exc.message
        assert data['detail'] == exc.detail
        assert data['error_type'] == exc.error_type
    elif fmt == 'xml':
        assert ctype == 'application/xml; charset=utf-8', ctype
        root = ET.fromstring(body.encode('utf-8'))
        assert root.tag == 'http_error'
        assert [c.tag for c in root] == ['code', 'message', 'detail',
                                         'error_type']
        assert all(len(c) == 0 for c in root)  # no injected children
        got = dict((c.tag, c.text or '') for c in root)
        assert got['code'] == str(exc.code)
        assert got['message'] == exc.message
        assert got['detail'] == (exc.detail or '')
        assert got['error_type'] == (exc.error_type or '')
    elif fmt == 'html':
        assert ctype == 'text/html; charset=utf-8', ctype
        if type(exc).__name__.startswith('Contextual'):
            # debug pages: rendered from the ashes templates
            tc = parse_html(body)
            assert MARK not in tc.tags
            assert all(MARK not in name for name, _ in tc.attrs)
            assert '<%s' % MARK not in body
            return fields
        assert body.startswith('<!doctype html><html>')
        assert body.endswith('</body></html>')
        tc = parse_html(body)
        assert set(tc.tags) <= ALLOWED_HTML_TAGS, tc.tags
        assert MARK not in tc.tags
        assert all(MARK not in name for name, _ in tc.attrs)
        text = ''.join(tc.text)
        assert exc.message in text
        if exc.detail:
            assert exc.detail in text
        if exc.error_type:
            assert exc.error_type in text
    else:
        assert fmt == 'text'
        assert ctype == 'text/plain; charset=utf-8', ctype
        assert body.startswith('%s - %s' % (exc.code, exc.message))
        if exc.detail:
            assert '\n\n' + exc.detail in body
        if exc.error_type:
            assert body.endswith('\n\nError type: %s' % exc.error_type)
    return fields


def test_codes():
    assert len(errors.__all__) == 31
    for name in errors.__all__:
        cls = getattr(errors, name)
        assert issubclass(cls, HTTPException)
        inst = cls()
        assert inst.status_code == cls.code
        assert 400 <= cls.code < 600
        assert ERROR_CODE_MAP[cls.code].code == cls.code
        for mime, fmt in MIME_SUPPORT_MAP.items():
            inst = cls(detail='<%s> & "x"' % MARK, code=499, message='M <%s>' % MARK,
                       error_type='T&<%s>' % MARK, mimetype=mime)
            assert inst.status_code == 499
            body = inst.get_data(True)
            if fmt == 'json':
                data = json.loads(body)
                assert data['code'] == 499
                assert data['detail'] == '<%s> & "x"' % MARK
            else:
                check_body(fmt, inst.headers['Content-Type'], body, inst)


ACCEPTS = [
    ('text/html', 'html'), ('application/json', 'json'),
    ('application/xml', 'xml'), ('text/plain', 'text'),
    ('image/png', 'text'), ('', 'text'), (None, 'text'), (';;;', 'text'),
    ('text/html;q=0.1, application/json;q=0.9', 'json'),
    ('application/xml;q=0.5, text/plain;q=0.4, image/*', 'xml'),
    ('image/png, text/plain;q=0.1', 'text'),
    ('*/*', None), ('text/*', None), ('application/*', None),
    ('text/html;q=abc', None), ('text/html;q=0', None),
]

CTYPE_FMT = {'text/html; charset=utf-8': 'html',
             'application/json': 'json',
             'application/xml; charset=utf-8': 'xml',
             'text/plain; charset=utf-8': 'text'}


def _boom():
    secret = '<%s>local</%s>' % (MARK, MARK)
    raise ValueError('<%s>boom</%s> & "q" {x}' % (MARK, MARK))


def _forbid():
    raise Forbidden('<%s>nope</%s>' % (MARK, MARK),
                    error_type='http://e.x/?<%s>' % MARK)


def test_through_application():
    for debug in (False, True):
        app = Application([('/boom', _boom, render_basic),
                           ('/forbid', _forbid, render_basic)], debug=debug)
        cl = app.get_local_client()
        for accept, want in ACCEPTS:
            headers = {} if accept is None else {'Accept': accept}
            for path, status in (('/boom', 500), ('/forbid', 403),
                                 ('/nf/<%s>"&' % MARK, 404)):
                resp = cl.get(path, headers=headers)
                assert resp.status_code == status, (path, resp.status_code)
                ctype = resp.headers['Content-Type']
                fmt = CTYPE_FMT[ctype]
                if want is not None:
                    assert fmt == want, (accept, fmt, want)
                body = resp.get_data(True)
                if fmt == 'json':
                    data = json.loads(body)
                    for key in ('code', 'message', 'detail', 'error_type'):
                        assert key in data
                    assert data['code'] == status
                elif fmt == 'xml':
                    root = ET.fromstring(resp.get_data())
                    assert root.tag == 'http_error'
                    assert root.find('code').text == str(status)
                    assert all(len(c) == 0 for c in root)
                elif fmt == 'html':
                    tc = parse_html(body)
                    assert MARK not in tc.tags, (path, debug)
                    assert all(MARK not in n for n, _ in tc.attrs)
                    assert '<%s' % MARK not in body
                    if path != '/nf/<%s>"&' % MARK or debug:
                        assert MARK in ''.join(tc.text) or MARK in body
                else:
                    assert body.startswith('%d - ' % status)



def _request(accept):
    from werkzeug.test import EnvironBuilder
    from werkzeug.wrappers import Request
    headers = {} if accept is None else {'Accept': accept}
    return Request(EnvironBuilder(path='/x', headers=headers).get_environ())


def test_default_render_error_direct():
    import clastic.application as capp
    from clastic.application import default_render_error
    from clastic.errors import ErrorHandler
    from clastic.sinter import get_arg_names
    assert capp.default_render_error is default_render_error
    assert capp.MIME_SUPPORT_MAP is errors.MIME_SUPPORT_MAP
    assert callable(default_render_error)
    assert default_render_error.__name__ == 'default_render_error'
    assert list(get_arg_names(default_render_error))[:2] == ['request', '_error']
    handler = ErrorHandler()
    for accept, want in ACCEPTS:
        for payload in PAYLOADS:
            outs = []
            for render in (default_render_error, handler.render_error):
                exc = Forbidden(payload, error_type='T<%s>' % MARK)
                if render is default_render_error:
                    # arbitrary extra injectables are accepted and ignored
                    ret = render(request=_request(accept), _error=exc,
                                 _route=None, _application=None, junk=1)
                else:
                    ret = render(request=_request(accept), _error=exc)
                assert ret is exc
                assert ret.status_code == 403
                ctype = ret.headers['Content-Type']
                fmt = CTYPE_FMT[ctype]
                if want is not None:
                    assert fmt == want, (accept, fmt, want)
                check_body(fmt, ctype, ret.get_data(True), exc)
                outs.append((ctype, ret.get_data()))
            assert outs[0] == outs[1]
    # positional use, and the errors for wrong use stay TypeErrors
    exc = NotFound('x')
    assert default_render_error(_request('application/json'), exc) is exc
    assert json.loads(exc.get_data(True))['code'] == 404
    for args, kwargs in (((), {}), ((_request(None),), {}),
                         ((), {'_error': exc})):
        try:
            default_render_error(*args, **kwargs)
        except TypeError:
            pass
        else:
            raise AssertionError('expected TypeError')
    # a request-like object without accept_mimetypes -> AttributeError
    try:
        default_render_error(object(), exc)
    except AttributeError:
        pass
    else:
        raise AssertionError('expected AttributeError')
    # the table is consulted at call time: an emptied table means plain text
    saved = dict(MIME_SUPPORT_MAP)
    MIME_SUPPORT_MAP.clear()
    try:
        exc = NotFound('x', mimetype='text/plain')
        default_render_error(_request('text/html'), exc)
        assert exc.headers['Content-Type'] == 'text/plain; charset=utf-8'
    finally:
        MIME_SUPPORT_MAP.update(saved)
    assert list(MIME_SUPPORT_MAP) == list(saved)


def test_fallback_through_application():
    from clastic import Route
    from clastic.errors import ErrorHandler, ContextualErrorHandler

    class BrokenErrorHandler(ErrorHandler):
        def render_error(self, **kwargs):
            raise RuntimeError('<%s>render failed' % MARK)

    class BrokenContextualErrorHandler(ContextualErrorHandler):
        def render_error(self, **kwargs):
            return 1 // 0

    class RaisingErrorHandler(ErrorHandler):
        def render_error(self, _error, **kwargs):
            raise _error

    for eh_type in (BrokenErrorHandler, BrokenContextualErrorHandler,
                    RaisingErrorHandler):
        app = Application([('/boom', _boom, render_basic),
                           ('/forbid', _forbid, render_basic)],
                          error_handler=eh_type())
        cl = app.get_local_client()
        for accept, want in ACCEPTS:
            headers = {} if accept is None else {'Accept': accept}
            for path, status in (('/boom', 500), ('/forbid', 403),
                                 ('/nf/<%s>"&' % MARK, 404)):
                resp = cl.get(path, headers=headers)
                assert resp.status_code == status
                ctype = resp.headers['Content-Type']
                fmt = CTYPE_FMT[ctype]
                if want is not None:
                    assert fmt == want, (accept, fmt, want)
                body = resp.get_data(True)
                assert 'render failed' not in body
                if fmt == 'json':
                    assert json.loads(body)['code'] == status
                elif fmt == 'xml':
                    root = ET.fromstring(resp.get_data())
                    assert root.find('code').text == str(status)
                    assert all(len(c) == 0 for c in root)
                elif fmt == 'html':
                    tc = parse_html(body)
                    assert MARK not in tc.tags
                    assert '<%s' % MARK not in body
                else:
                    assert body.startswith('%d - ' % status)

    # a route whose render_error is not callable also ends in the fallback
    rt = Route('/forbid', _forbid, render_basic)
    app = Application([rt])
    for broute in app.routes:
        broute.render_error = None
    cl = app.get_local_client()
    resp = cl.get('/forbid', headers={'Accept': 'application/xml'})
    assert resp.status_code == 403
    assert resp.headers['Content-Type'] == 'application/xml; charset=utf-8'
    root = ET.fromstring(resp.get_data())
    assert root.find('detail').text == '<%s>nope</%s>' % (MARK, MARK)
    resp = cl.get('/forbid', headers={'Accept': 'video/mp4'})
    assert resp.headers['Content-Type'] == 'text/plain; charset=utf-8'


def main():
    test_default_render_error_direct()
    test_fallback_through_application()
    test_codes()
    test_through_application()
    print('PASS')
    return 0


if __name__ == '__main__':
    sys.exit(main())
