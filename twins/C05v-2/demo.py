# -*- coding: utf-8 -*-
"""demo2: the converters built by build_converter (single vs multi,
optional -> None / []) and, through them, what a matching route hands to
its endpoint -- checked directly and against an independent matcher.
"""
import itertools
import random
import sys

from clastic import Application, Response, render_basic
from clastic.route import (Route, BoundRoute, build_converter,
                           S_STRICT, S_REWRITE, S_REDIRECT)

MODES = (S_STRICT, S_REWRITE, S_REDIRECT)
NO_OP = lambda: Response()
DIGITS = '0123456789'


# ---------------------------------------------------------------- reference
def _take_digits(s, i):
    j = i
    while j < len(s) and s[j] in DIGITS:
        j += 1
    return j


def lex_int(s):
    i = 0
    if i < len(s) and s[i] in '+-':
        i += 1
    while i < len(s) and s[i] == ' ':
        i += 1
    j = _take_digits(s, i)
    return j > i and j == len(s)


def lex_float(s):
    i = 0
    if i < len(s) and s[i] in '+-':
        i += 1
    while i < len(s) and s[i] == ' ':
        i += 1
    j = _take_digits(s, i)
    if j > i:
        i = j
        if i < len(s) and s[i] == '.':
            i = _take_digits(s, i + 1)
    elif i < len(s) and s[i] == '.':
        j = _take_digits(s, i + 1)
        if j == i + 1:
            return False
        i = j
    else:
        return False
    if i < len(s) and s[i] in 'eE':
        k = i + 1
        if k < len(s) and s[k] in '+-':
            k += 1
        j = _take_digits(s, k)
        if j == k:
            return False
        i = j
    return i == len(s)


LEX = {'str': lambda s: True, 'unicode': lambda s: True, None: lambda s: True,
       'int': lex_int, 'float': lex_float}
CONV = {'str': str, 'unicode': str, None: str, 'int': int, 'float': float}


def parse_pattern(pattern):
    """-> (elements, trailing_slash); element = ('lit', text) or
    ('bind', name, op, type)"""
    assert pattern.startswith('/')
    parts = pattern.split('/')[1:]
    trailing = parts[-1] == ''
    if trailing:
        parts = parts[:-1]
    elems = []
    for part in parts:
        if part.startswith('<'):
            body = part[1:-1]
            n = 0
            while n < len(body) and (body[n].isalnum() or body[n] == '_'):
                n += 1
            name, rest = body[:n], body[n:]
            op = ''
            if rest and rest[0] in ':?*+':
                op, rest = rest[0], rest[1:]
            if op == ':':
                op = ''
            elems.append(('bind', name, op, rest or None))
        else:
            elems.append(('lit', part))
    return elems, trailing


def tokenize(path, strict, trailing):
    """Split the path into (slash_run, segment) pieces, or None if the
    path's slashes are not acceptable in this mode."""
    if strict and trailing:
        if not path.endswith('/'):
            return None
        path = path[:-1]
    pieces = []
    i = 0
    while i < len(path):
        j = i
        while j < len(path) and path[j] == '/':
            j += 1
        if j == i:
            return None  # a segment without a leading slash
        k = j
        while k < len(path) and path[k] != '/':
            k += 1
        if k == j:
            # trailing run of slashes
            if strict:
                return None
            break
        if strict and j - i != 1:
            return None
        pieces.append((path[i:j], path[j:k]))
        i = k
    return pieces


def assignments(elems, pieces):
    """Yield assignments (dict name -> list of pieces) in the order a
    greedy backtracking matcher tries them."""
    if not elems:
        if not pieces:
            yield {}
        return
    el, rest = elems[0], elems[1:]
    if el[0] == 'lit':
        if pieces and pieces[0][1] == el[1]:
            for a in assignments(rest, pieces[1:]):
                yield a
        return
    _, name, op, type_name = el
    lex = LEX[type_name]
    avail = 0
    while avail < len(pieces) and lex(pieces[avail][1]):
        avail += 1
    lo, hi = {'': (1, 1), '?': (0, 1), '*': (0, None), '+': (1, None)}[op]
    hi = avail if hi is None else min(hi, avail)
    for n in range(hi, lo - 1, -1):
        for a in assignments(rest, pieces[n:]):
            a = dict(a)
            a[name] = pieces[:n]
            yield a


def ref_match(pattern, mode, path):
    elems, trailing = parse_pattern(pattern)
    pieces = tokenize(path, mode == S_STRICT, trailing)
    if pieces is None:
        return None
    first = next(assignments(elems, pieces), None)
    if first is None:
        return None
    ret = {}
    for el in elems:
        if el[0] != 'bind':
            continue
        _, name, op, type_name = el
        conv = CONV[type_name]
        taken = first[name]
        try:
            if op in ('*', '+'):
                # every extra slash of a repeated separator contributes an
                # empty item (that is what the implementation does)
                raw = []
                for slashes, seg in taken:
                    raw.extend([''] * (len(slashes) - 1))
                    raw.append(seg)
                ret[name] = [conv(r) for r in raw]
            elif not taken:
                ret[name] = None
            else:
                ret[name] = conv(taken[0][1])
        except ValueError:
            return None
    return ret


# ------------------------------------------------------------------ harness
def bind(pattern, mode):
    route = Route(pattern, NO_OP, slash_mode=mode)
    br = route.bind(Application(slash_mode=mode))
    assert isinstance(br, BoundRoute) and br.slash_mode == mode
    return br


def same(a, b):
    """== plus identical types (1 vs 1.0 vs '1')."""
    if a is None or b is None:
        return a is b
    if set(a) != set(b):
        return False
    for k in a:
        x, y = a[k], b[k]
        if type(x) is not type(y) or x != y:
            return False
        if isinstance(x, list) and [type(i) for i in x] != [type(i) for i in y]:
            return False
    return True


ALPHABET = ['/', 'a', '1', '.', '-', '+', ' ', 'e', u'\xe9']


def all_paths(max_len):
    for n in range(max_len + 1):
        for tup in itertools.product(ALPHABET, repeat=n):
            yield ''.join(tup)



class Boom(Exception):
    pass


def direct_converter_checks():
    calls = []

    def rec(v):
        calls.append(v)
        return v.upper()

    # --- single, mandatory
    c = build_converter(rec)
    assert callable(c)
    assert c('/ab') == 'AB' and calls == ['ab']
    assert c('//ab') == 'AB'            # repeated separators are dropped
    assert c('') == ''                  # mandatory: the converter sees ''
    assert calls == ['ab', 'ab', '']
    try:
        c(None)
    except AttributeError:
        pass
    else:
        raise AssertionError('None for a mandatory binding must not be swallowed')

    # --- single, optional
    del calls[:]
    c = build_converter(rec, optional=True)
    assert c('') is None and c(None) is None and calls == []
    assert c('/x') == 'X' and calls == ['x']
    c = build_converter(rec, True)      # positional: optional comes first
    assert c('') is None and c('/y') == 'Y'

    # --- multi, mandatory
    del calls[:]
    c = build_converter(rec, multi=True)
    assert c('/a/b/c') == ['A', 'B', 'C'] and calls == ['a', 'b', 'c']
    assert c('/a//b') == ['A', '', 'B']  # an empty item per extra slash
    assert c('') == []                   # ''.split('/')[1:] is empty
    assert c('/') == ['']
    assert c('a/b') == ['B']             # text before the first slash is dropped
    try:
        c(None)
    except AttributeError:
        pass
    else:
        raise AssertionError

    # --- multi, optional
    del calls[:]
    c = build_converter(rec, optional=True, multi=True)
    r1, r2 = c(''), c(None)
    assert r1 == [] and r2 == [] and r1 is not r2 and calls == []
    r1.append(1)
    assert c('') == []                   # no shared default list
    assert c('/q/r') == ['Q', 'R'] and calls == ['q', 'r']
    c = build_converter(rec, True, True)
    assert c('') == [] and c('/z') == ['Z']

    # --- every combination x builtin types, incl. falsy results 0 / 0.0 / ''
    for optional in (False, True):
        for multi in (False, True):
            ci = build_converter(int, optional=optional, multi=multi)
            cf = build_converter(float, optional=optional, multi=multi)
            cs = build_converter(str, optional=optional, multi=multi)
            if multi:
                assert ci('/0/1/-2') == [0, 1, -2]
                assert cf('/0/.5/1e1') == [0.0, 0.5, 10.0]
                assert cs('/0//x') == ['0', '', 'x']
                got = ci('/0')
                assert got == [0] and type(got) is list and type(got[0]) is int
            else:
                assert ci('/0') == 0 and type(ci('/0')) is int
                assert cf('/0') == 0.0 and type(cf('/0')) is float
                assert cs('/0') == '0'
                assert ci('//+7') == 7
            # conversion errors propagate unchanged from the converter
            for bad in ('/x', '/+ 5', '/1/x'):
                try:
                    ci(bad)
                except ValueError:
                    pass
                else:
                    raise AssertionError((optional, multi, bad))
            empty = {(False, False): ValueError, (False, True): [],
                     (True, False): None, (True, True): []}[optional, multi]
            if empty is ValueError:
                try:
                    ci('')
                except ValueError:
                    pass
                else:
                    raise AssertionError
            else:
                assert ci('') == empty and type(ci('')) is type(empty)

    # --- a converter's own exception is not translated; order of calls kept
    seen = []

    def picky(v):
        seen.append(v)
        if v == 'b':
            raise Boom(v)
        return v

    c = build_converter(picky, multi=True)
    try:
        c('/a/b/c')
    except Boom:
        assert seen == ['a', 'b']        # stops at the first failure
    else:
        raise AssertionError
    # truthy / falsy non-bool flags behave like their truth value
    assert build_converter(str, optional=1, multi=0)('') is None
    assert build_converter(str, optional=0, multi=1)('/a') == ['a']
    assert build_converter(str, optional='yes', multi='yes')('') == []
    assert build_converter(str, optional=None, multi=None)('/a') == 'a'
    # two converters are independent objects
    a, b = build_converter(int, multi=True), build_converter(str)
    assert a('/1') == [1] and b('/1') == '1' and a('/2') == [2]


PATTERNS = [
    '/<x>', '/<x:int>', '/<x:float>', '/<x?>', '/<x?int>', '/<x?float>',
    '/<x*>', '/<x*int>', '/<x*float>', '/<x+>', '/<x+int>', '/<x+float>',
    '/<x?int>/', '/<x*>/', '/a/<x?float>/1', '/<x?>/<y?int>/<z?float>',
    '/<x*int>/<y*>', '/<x+>/<y*float>/', '/<x?int>/a/<y+int>',
    '/1/<x*float>/<y?>/<z:int>',
]


def endpoint_checks():
    "what the endpoint receives, through a real Application"
    got = []

    def ep(x, y, z):
        got.append((x, y, z))
        return 'ok'

    for mode in MODES:
        app = Application([('/p/<x?int>/q/<y*float>/r/<z+>', ep, render_basic)],
                          slash_mode=mode)
        cl = app.get_local_client()
        del got[:]
        assert cl.get('/p/q/r/s').status_code == 200
        assert cl.get('/p/3/q/1/.5/r/s/t').status_code == 200
        assert cl.get('/p/x/q/r/s').status_code == 404   # 'x' is no int
        assert cl.get('/p/q/r').status_code == 404       # '+' needs one
        assert got == [(None, [], ['s']), (3, [1.0, 0.5], ['s', 't'])], got
        assert type(got[1][0]) is int and type(got[1][1][0]) is float


def main():
    direct_converter_checks()
    endpoint_checks()

    paths = list(all_paths(4))
    rng = random.Random(5)
    for _ in range(500):
        n = rng.randint(5, 30)
        paths.append(''.join(rng.choice(ALPHABET + ['/', '/', '1', '1'])
                             for _ in range(n)))
    checked = matched = 0
    for pattern in PATTERNS:
        for mode in MODES:
            br = bind(pattern, mode)
            assert all(callable(c) for c in br.converters.values())
            for path in paths:
                got = br.match_path(path)
                want = ref_match(pattern, mode, path)
                assert same(got, want), (pattern, mode, path, got, want)
                checked += 1
                matched += got is not None
    assert matched > 10000, matched
    print('checked %d pattern/path pairs (%d matching)' % (checked, matched))
    print('PASS')
    return 0


if __name__ == '__main__':
    sys.exit(main())
