# -*- coding: utf-8 -*-
"""demo1: error responses -- status, negotiated format, escaping.

Focus of this demo: HTTPException.adapt() (format lookup incl. unsupported,
None and unhashable MIME types) and HTTPException._encode() (str vs bytes).
Prints PASS and exits 0 when every assertion holds.
"""
import json
import sys
from html.parser import HTMLParser
from xml.etree import ElementTree as ET

from clastic import Application, render_basic
from clastic import errors
from clastic.errors import (HTTPException, BadRequest, NotFound, Forbidden,
                            MethodNotAllowed, InternalServerError,
                            MIME_SUPPORT_MAP, DEFAULT_MIME, ERROR_CODE_MAP)

MARK = 'xssmarker'
PAYLOADS = [
    '<%s>alert(1)</%s>' % (MARK, MARK),
    '"quoted" & \'single\' <b %s="1">' % MARK,
    '{braces} {0} {code} {detail!r} }{',
    '{{tmpl}} {#x}{/x} {>partial/} <%s/>' % MARK,
    u'\xfcn\xef\xa9ode ☃ <%s>' % MARK,
    '',
    '0',
]

ALLOWED_HTML_TAGS = {'html', 'head', 'title', 'body', 'h1', 'p', 'a'}


class TagCollector(HTMLParser):
    def __init__(self):
        HTMLParser.__init__(self, convert_charrefs=True)
        self.tags = []
        self.attrs = []
        self.text = []

    def handle_starttag(self, tag, attrs):
        self.tags.append(tag)
        self.attrs.extend(attrs)

    def handle_data(self, data):
        self.text.append(data)


def parse_html(body):
    tc = TagCollector()
    tc.feed(body)
    tc.close()
    return tc


def check_body(fmt, ctype, body, exc):
    """Content-Type agrees with the body and every field is there, escaped."""
    fields = exc.to_dict()
    if fmt == 'json':
        assert ctype == 'application/json', ctype
        data = json.loads(body)
        for key in ('code', 'message', 'detail', 'error_type'):
            assert key in data, (key, data)
        assert data['code'] == exc.code
        assert data['message'] == exc.message
        assert data['detail'] == exc.detail
        assert data['error_type'] == exc.error_type
    elif fmt == 'xml':
        assert ctype == 'application/xml; charset=utf-8', ctype
        root = ET.fromstring(body.encode('utf-8'))
        assert root.tag == 'http_error'
        assert [c.tag for c in root] == ['code', 'message', 'detail',
                                         'error_type']
        assert all(len(c) == 0 for c in root)  # no injected children
        got = dict((c.tag, c.text or '') for c in root)
        assert got['code'] == str(exc.code)
        assert got['message'] == exc.message
        assert got['detail'] == (exc.detail or '')
        assert got['error_type'] == (exc.error_type or '')
    elif fmt == 'html':
        assert ctype == 'text/html; charset=utf-8', ctype
        if type(exc).__name__.startswith('Contextual'):
            # debug pages: rendered from the ashes templates
            tc = parse_html(body)
            assert MARK not in tc.tags
            assert all(MARK not in name for name, _ in tc.attrs)
            assert '<%s' % MARK not in body
            return fields
        assert body.startswith('<!doctype html><html>')
        assert body.endswith('</body></html>')
        tc = parse_html(body)
        assert set(tc.tags) <= ALLOWED_HTML_TAGS, tc.tags
        assert MARK not in tc.tags
        assert all(MARK not in name for name, _ in tc.attrs)
        text = ''.join(tc.text)
        assert exc.message in text
        if exc.detail:
            assert exc.detail in text
        if exc.error_type:
            assert exc.error_type in text
    else:
        assert fmt == 'text'
        assert ctype == 'text/plain; charset=utf-8', ctype
        assert body.startswith('%s - %s' % (exc.code, exc.message))
        if exc.detail:
            assert '\n\n' + exc.detail in body
        if exc.error_type:
            assert body.endswith('\n\nError type: %s' % exc.error_type)
    return fields


def test_adapt_table():
    assert MIME_SUPPORT_MAP == {'text/html': 'html',
                                'application/json': 'json',
                                'text/plain': 'text',
                                'application/xml': 'xml'}
    assert DEFAULT_MIME == 'text/plain'
    for payload in PAYLOADS:
        for etype in ('', None, 'plain-type <%s>' % MARK,
                      'http://example.com/?a=1&b="<%s>"' % MARK):
            for mime, fmt in sorted(MIME_SUPPORT_MAP.items()):
                exc = Forbidden(payload, error_type=etype)
                assert exc.status_code == 403
                # fresh instances start as text/plain
                check_body('text', exc.headers['Content-Type'],
                           exc.get_data(True), exc)
                ret = exc.adapt(mime)
                assert ret is None
                assert exc.status_code == 403
                check_body(fmt, exc.headers['Content-Type'],
                           exc.get_data(True), exc)
                # the same via the constructor
                exc2 = Forbidden(payload, error_type=etype, mimetype=mime)
                assert exc2.get_data() == exc.get_data()
                assert exc2.headers['Content-Type'] == exc.headers['Content-Type']
            # unsupported / missing / odd MIME types fall back to plain text
            for mime in (None, 'image/png', 'TEXT/HTML', 'text/html ', '',
                         'html', 0, ('text/html',), b'text/html'):
                exc = Forbidden(payload, error_type=etype,
                                mimetype='application/json')
                exc.adapt(mime)
                check_body('text', exc.headers['Content-Type'],
                           exc.get_data(True), exc)
            exc = Forbidden(payload, error_type=etype, mimetype='text/html')
            exc.adapt()
            check_body('text', exc.headers['Content-Type'],
                       exc.get_data(True), exc)
    # unhashable MIME types are a TypeError, not a fallback
    for bad in (['text/html'], {'text/html': 1}, set()):
        exc = BadRequest('x', mimetype='text/html')
        before = (exc.get_data(), exc.headers['Content-Type'])
        try:
            exc.adapt(bad)
        except TypeError as e:
            assert 'unhashable' in str(e)
        else:
            raise AssertionError('expected TypeError for %r' % (bad,))
        assert (exc.get_data(), exc.headers['Content-Type']) == before
    # a temporarily extended table is honoured (looked up at call time)
    MIME_SUPPORT_MAP['text/x-demo'] = 'text'
    try:
        exc = BadRequest('x')
        exc.adapt('text/x-demo')
        assert exc.headers['Content-Type'] == 'text/x-demo; charset=utf-8'
        assert exc.get_data(True) == '400 - Bad Request\n\nx'
    finally:
        del MIME_SUPPORT_MAP['text/x-demo']
    # a format name without serializer is an AttributeError
    MIME_SUPPORT_MAP['text/x-none'] = 'nonesuch'
    try:
        exc = BadRequest('x')
        try:
            exc.adapt('text/x-none')
        except AttributeError as e:
            assert 'to_nonesuch' in str(e)
        else:
            raise AssertionError('expected AttributeError')
    finally:
        del MIME_SUPPORT_MAP['text/x-none']


def test_encode():
    exc = BadRequest('x')
    raw = b'\xff\xfe raw'
    assert exc._encode(raw) is raw
    assert exc._encode(b'') == b''
    assert exc._encode('') == b''
    assert exc._encode(u'☃') == b'\xe2\x98\x83'
    assert exc._encode(u'a\udcffb') == b'a\\udcffb'  # lone surrogate
    assert exc._encode(bytearray(b'x').decode('ascii')) == b'x'
    for bad in (None, 1, bytearray(b'x'), memoryview(b'x')):
        try:
            exc._encode(bad)
        except (AttributeError, TypeError):
            pass
        else:
            raise AssertionError('expected an error for %r' % (bad,))
    exc.charset = 'latin-1'
    assert exc._encode(u'\xfc☃') == b'\xfc\\u2603'
    # surrogates / non-ASCII in a detail end up in the body without error
    for mime in MIME_SUPPORT_MAP:
        e = NotFound(u'p\udcff ☃ <%s>' % MARK, mimetype=mime)
        assert b'\\udcff' in e.get_data()
        assert ('<%s>' % MARK).encode() not in e.get_data() or \
            mime in ('text/plain', 'application/json')


def test_codes():
    assert len(errors.__all__) == 31
    for name in errors.__all__:
        cls = getattr(errors, name)
        assert issubclass(cls, HTTPException)
        inst = cls()
        assert inst.status_code == cls.code
        assert 400 <= cls.code < 600
        assert ERROR_CODE_MAP[cls.code].code == cls.code
        for mime, fmt in MIME_SUPPORT_MAP.items():
            inst = cls(detail='<%s> & "x"' % MARK, code=499, message='M <%s>' % MARK,
                       error_type='T&<%s>' % MARK, mimetype=mime)
            assert inst.status_code == 499
            body = inst.get_data(True)
            if fmt == 'json':
                data = json.loads(body)
                assert data['code'] == 499
                assert data['detail'] == '<%s> & "x"' % MARK
            else:
                check_body(fmt, inst.headers['Content-Type'], body, inst)


ACCEPTS = [
    ('text/html', 'html'), ('application/json', 'json'),
    ('application/xml', 'xml'), ('text/plain', 'text'),
    ('image/png', 'text'), ('', 'text'), (None, 'text'), (';;;', 'text'),
    ('text/html;q=0.1, application/json;q=0.9', 'json'),
    ('application/xml;q=0.5, text/plain;q=0.4, image/*', 'xml'),
    ('image/png, text/plain;q=0.1', 'text'),
    ('*/*', None), ('text/*', None), ('application/*', None),
    ('text/html;q=abc', None), ('text/html;q=0', None),
]

CTYPE_FMT = {'text/html; charset=utf-8': 'html',
             'application/json': 'json',
             'application/xml; charset=utf-8': 'xml',
             'text/plain; charset=utf-8': 'text'}


def _boom():
    secret = '<%s>local</%s>' % (MARK, MARK)
    raise ValueError('<%s>boom</%s> & "q" {x}' % (MARK, MARK))


def _forbid():
    raise Forbidden('<%s>nope</%s>' % (MARK, MARK),
                    error_type='http://e.x/?<%s>' % MARK)


def test_through_application():
    for debug in (False, True):
        app = Application([('/boom', _boom, render_basic),
                           ('/forbid', _forbid, render_basic)], debug=debug)
        cl = app.get_local_client()
        for accept, want in ACCEPTS:
            headers = {} if accept is None else {'Accept': accept}
            for path, status in (('/boom', 500), ('/forbid', 403),
                                 ('/nf/<%s>"&' % MARK, 404)):
                resp = cl.get(path, headers=headers)
                assert resp.status_code == status, (path, resp.status_code)
                ctype = resp.headers['Content-Type']
                fmt = CTYPE_FMT[ctype]
                if want is not None:
                    assert fmt == want, (accept, fmt, want)
                body = resp.get_data(True)
                if fmt == 'json':
                    data = json.loads(body)
                    for key in ('code', 'message', 'detail', 'error_type'):
                        assert key in data
                    assert data['code'] == status
                elif fmt == 'xml':
                    root = ET.fromstring(resp.get_data())
                    assert root.tag == 'http_error'
                    assert root.find('code').text == str(status)
                    assert all(len(c) == 0 for c in root)
                elif fmt == 'html':
                    tc = parse_html(body)
                    assert MARK not in tc.tags, (path, debug)
                    assert all(MARK not in n for n, _ in tc.attrs)
                    assert '<%s' % MARK not in body
                    if path != '/nf/<%s>"&' % MARK or debug:
                        assert MARK in ''.join(tc.text) or MARK in body
                else:
                    assert body.startswith('%d - ' % status)


def main():
    test_adapt_table()
    test_encode()
    test_codes()
    test_through_application()
    print('PASS')
    return 0


if __name__ == '__main__':
    sys.exit(main())
