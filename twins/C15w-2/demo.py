# -*- coding: utf-8 -*-
"""demo2: HTTPExceptions (raised, returned, framework-generated) are serialized
to the same text / HTML / JSON / XML bodies, with or without the built-in
middlewares in front of them."""
import json
import os
import re
import sys
import warnings

warnings.simplefilter('ignore')
sys.path.insert(0, os.path.dirname(os.path.abspath(__file__)))

from clastic import Application, render_basic, redirect, Response, GET, POST
from clastic.errors import (HTTPException, NotFound, Forbidden, BadRequest,
                            ServiceUnavailable, MethodNotAllowed,
                            InternalServerError, ContextualErrorHandler)
from clastic.middleware import (GzipMiddleware, HTTPCacheMiddleware,
                                SimpleProfileMiddleware, GetParamMiddleware,
                                SimpleContextProcessor, ContextProcessor)
from clastic.middleware.stats import StatsMiddleware
from clastic.middleware.cookie import SignedCookieMiddleware
from clastic.middleware.form import PostDataMiddleware
from clastic.middleware.url import ScriptRootMiddleware

# ---- the scenario application: every kind of response -------------------

def ep_resp():
    return Response('plain response body', mimetype='text/plain')

def ep_ctx():
    return {'a': 1, 'b': [1, 2, 3]}

def ep_redirect():
    return redirect('/resp')

def ep_raise_403():
    raise Forbidden('no entry')

def ep_return_404():
    return NotFound('returned, not raised')

def ep_nonbreaking():
    raise BadRequest('try the next one', is_breaking=False)

def ep_503():
    raise ServiceUnavailable()

def ep_boom():
    raise ValueError('uncaught \udcff <b>boom</b>')

def ep_binary():
    return Response(bytes(bytearray(range(256))) * 4,
                    mimetype='application/octet-stream')

def ep_empty():
    return Response(b'', mimetype='text/plain')


def make_routes(extra=()):
    return [('/resp', ep_resp),
            ('/ctx', ep_ctx, render_basic),
            ('/redir', ep_redirect),
            ('/403', ep_raise_403),
            ('/404', ep_return_404),
            ('/nb', ep_nonbreaking),
            ('/503', ep_503),
            ('/boom', ep_boom),
            ('/bin', ep_binary),
            ('/empty', ep_empty),
            GET('/getonly', ep_resp),
            POST('/postonly', ep_resp)] + list(extra)


REQUESTS = [('GET', '/resp'), ('HEAD', '/resp'), ('GET', '/ctx'),
            ('GET', '/ctx?format=json'), ('GET', '/redir'), ('GET', '/403'),
            ('GET', '/404'), ('GET', '/nb'), ('GET', '/503'), ('GET', '/boom'),
            ('GET', '/bin'), ('GET', '/empty'), ('GET', '/unknown/url'),
            ('POST', '/getonly'), ('GET', '/postonly'), ('POST', '/postonly'),
            ('GET', '/resp?a=1&n=5&n=6&bad=xyz'), ('GET', '/403?a=1&n=notint')]
ACCEPTS = [None, 'text/html', 'application/json', 'application/xml', 'text/plain']


def normalize(resp):
    """The body of an uncaught-exception 500 describes the call stack (which
    legitimately contains the middleware frames): blank that part out."""
    body = resp.get_data()
    if resp.status_code != 500:
        return body
    body = re.sub(br'\(\d+ frames', b'(N frames', body)
    if resp.headers.get('Content-Type') == 'application/json':
        parsed = json.loads(body.decode('utf8'))
        if parsed.get('exc_info'):   # only uncaught exceptions carry one
            assert parsed['exc_info'].pop('exc_tb')['frames']
        body = json.dumps(parsed, sort_keys=True).encode('utf8')
    return body


def observe(app):
    cl = app.get_local_client()
    out = []
    for method, url in REQUESTS:
        for accept in ACCEPTS:
            headers = {'Accept': accept} if accept else {}
            data = {'a': 'x', 'n': '7'} if method == 'POST' else None
            try:
                resp = cl.open(url, method=method, headers=headers, data=data)
            except Exception as exc:
                # an error while serializing the error escapes the application
                out.append((method, url, accept, 'escaped', type(exc).__name__, str(exc), None, None))
                continue
            body = normalize(resp)
            out.append((method, url, accept, resp.status_code, body,
                        resp.headers.get('Content-Type'),
                        resp.headers.get('Location'), resp.headers.get('Allow')))
    return out


baseline = observe(Application(make_routes()))
assert {r[3] for r in baseline} >= {200, 302, 403, 404, 405, 400, 500, 503}

# ---- errors with every shape of detail / error_type, through the app ----------

class Weird(object):
    def __repr__(self):
        return '<Weird & "odd">'

ERROR_KWARGS = [
    dict(),
    dict(detail=None),
    dict(detail=''),
    dict(detail='plain detail'),
    dict(detail=u'<script>alert("x")</script> & \xe9 \u2603 \udcff'),
    dict(late_detail={'a': [1, 2], 'b': '<i>'}),     # structured: repr()-escaped in HTML
    dict(late_detail=['<x>', 1]),
    dict(late_detail=42),
    dict(late_detail=Weird()),
    dict(detail='d', error_type='http://example.net/errors/<invalid>&token'),
    dict(detail='d', error_type='https://example.net/e'),
    dict(detail='d', error_type='invalid_token'),
    dict(detail='d', error_type='<b>bold</b> "type"'),
    dict(detail='d', error_type=''),
    dict(detail='d', error_type=0),                  # falsy for text, '0' once escaped
    dict(detail='d', error_type=5),
    dict(detail='d', error_type=Weird()),
    dict(detail='d', error_type=['http://x']),
    dict(detail=None, error_type='httpish', message='<Custom> message', code=418),
    dict(detail='d', message=None),
    dict(detail='x' * 600),
]
ERROR_TYPES = [HTTPException, BadRequest, NotFound, Forbidden, InternalServerError,
               ServiceUnavailable]


def make_error(i, j):
    kwargs = dict(ERROR_KWARGS[j])
    exc_type = ERROR_TYPES[i]
    if exc_type is HTTPException:
        kwargs.setdefault('code', 400)
    late_detail = kwargs.pop('late_detail', None)
    exc = exc_type(**kwargs)
    if late_detail is not None:
        # (a non-text detail cannot be passed to the constructor: to_text() joins it)
        exc.detail = late_detail
    return exc


def ep_raise(i, j):
    raise make_error(int(i), int(j))

def ep_return(i, j):
    return make_error(int(i), int(j))

def ep_405():
    raise MethodNotAllowed(['POST', 'DELETE', 'GET'])

error_routes = [('/raise/<i>/<j>', ep_raise), ('/return/<i>/<j>', ep_return),
                ('/m405', ep_405)]

BASE_REQUESTS = list(REQUESTS)
REQUESTS[:] = [('GET', '/m405')]
for i in range(len(ERROR_TYPES)):
    for j in range(len(ERROR_KWARGS)):
        REQUESTS.append(('GET', '/raise/%s/%s' % (i, j)))
        if (i + j) % 3 == 0:
            REQUESTS.append(('GET', '/return/%s/%s' % (i, j)))


def all_builtin():
    return [HTTPCacheMiddleware(), GzipMiddleware(), ContextProcessor(),
            SimpleContextProcessor(), SignedCookieMiddleware(secret_key='k'),
            PostDataMiddleware({'lol': str}), SimpleProfileMiddleware(),
            StatsMiddleware(), ScriptRootMiddleware(), GetParamMiddleware({})]


err_baseline = observe(Application(make_routes(error_routes)))
assert len(err_baseline) == len(REQUESTS) * len(ACCEPTS)
assert all(r[3] == 'escaped' or r[3] >= 400 for r in err_baseline)
escaped = [r for r in err_baseline if r[3] == 'escaped']
assert escaped and all(r[4] == 'TypeError' and r[2] in (None, 'text/plain') for r in escaped), escaped
by_key = dict(((r[1], r[2]), r) for r in err_baseline)

# spot-check the four serializations (exact bytes)
r = by_key[('/raise/2/9', 'text/html')]   # NotFound, http error_type
assert r[3] == 404 and r[5] == 'text/html; charset=utf-8'
assert r[4] == (b'<!doctype html><html>\n<head><title>404 - Not found</title></head>\n'
                b'<body><h1>Not found</h1>\n<p>d</p>\n<p>Error type: <a target="_blank" '
                b'href="http://example.net/errors/&lt;invalid&gt;&amp;token">'
                b'http://example.net/errors/&lt;invalid&gt;&amp;token</a></p>\n</body></html>'), r[4]
r = by_key[('/raise/2/11', 'text/html')]  # plain error_type: no link
assert b'<p>Error type: invalid_token</p>' in r[4] and b'<a ' not in r[4]
r = by_key[('/raise/2/12', 'text/html')]
assert b'<p>Error type: &lt;b&gt;bold&lt;/b&gt; &quot;type&quot;</p>' in r[4]
r = by_key[('/raise/2/13', 'text/html')]  # empty error_type: no paragraph
assert b'Error type' not in r[4]
r = by_key[('/raise/2/14', 'text/html')]  # 0 -> repr -> '0'
assert b'<p>Error type: 0</p>' in r[4]
assert b'Error type' not in by_key[('/raise/2/14', 'text/plain')][4]
r = by_key[('/raise/2/16', 'text/html')]
assert b'<p>Error type: &lt;Weird &amp; &quot;odd&quot;&gt;</p>' in r[4], r[4]
r = by_key[('/raise/2/17', 'text/html')]  # a list: repr starts with "[", no link
assert b'<p>Error type: [&#x27;http://x&#x27;]</p>' in r[4], r[4]
r = by_key[('/raise/2/18', 'text/html')]
assert r[3] == 418 and b'<title>418 - &lt;Custom&gt; message</title>' in r[4]
assert b'<a target="_blank" href="httpish">httpish</a>' in r[4]
assert b'<p>The requested URL was not found' in r[4]     # detail=None -> class default
r = by_key[('/raise/2/2', 'text/html')]   # '' detail -> class default too
assert b'<p>The requested URL was not found' in r[4]
r = by_key[('/raise/2/5', 'text/html')]   # dict detail
assert b"<p>{&#x27;a&#x27;: [1, 2], &#x27;b&#x27;: &#x27;&lt;i&gt;&#x27;}</p>" in r[4], r[4]
r = by_key[('/raise/2/19', 'text/html')]  # message None -> ''
assert b'<title>404 - </title>' in r[4] and b'<h1></h1>' in r[4]
r = by_key[('/raise/2/4', 'application/xml')]
assert r[4].startswith(b'<http_error><code>404</code><message>Not found</message>'
                       b'<detail>&lt;script&gt;alert(&quot;x&quot;)&lt;/script&gt; &amp; ')
assert r[4].endswith(b'\\udcff</detail><error_type></error_type></http_error>'), r[4]
r = by_key[('/raise/2/4', 'application/json')]
assert json.loads(r[4].decode('utf8'))['detail'].startswith('<script>alert("x")</script> & \xe9 \u2603')
r = by_key[('/raise/2/3', None)]
assert r[4] == b'404 - Not found\n\nplain detail' and r[5] == 'text/plain; charset=utf-8'
r = by_key[('/m405', 'text/html')]
assert r[3] == 405 and r[7] == 'DELETE, GET, POST'
assert b"Allowed methods: [&#x27;DELETE&#x27;, &#x27;GET&#x27;, &#x27;POST&#x27;]</p>" in r[4]

# ... and nothing changes with the built-in middlewares, alone or stacked
for make_mws in [lambda: [mw] for mw in all_builtin()] + [all_builtin, lambda: all_builtin()[::-1]]:
    mws = make_mws()
    got = observe(Application(make_routes(error_routes), middlewares=mws))
    assert got == err_baseline, (mws, [(g, b) for g, b in zip(got, err_baseline) if g != b][:1])

# the general scenario (200s, redirects, 404/405/500) through the full stack
REQUESTS[:] = BASE_REQUESTS
assert observe(Application(make_routes(), middlewares=all_builtin())) == baseline

# the contextual (debug) error handler overrides to_dict/to_html but shares
# to_escaped_dict for XML and the text form
REQUESTS[:] = [('GET', '/unknown/url'), ('GET', '/boom'), ('GET', '/403'), ('POST', '/getonly')]
def ctx_observe(mws):
    app = Application(make_routes(), middlewares=mws, error_handler=ContextualErrorHandler())
    out = []
    for rec in observe_raw(app):
        out.append(rec)
    return out
def observe_raw(app):
    cl = app.get_local_client()
    for method, url in REQUESTS:
        for accept in ('application/xml', 'text/plain', 'text/html'):
            resp = cl.open(url, method=method, headers={'Accept': accept})
            body = resp.get_data()
            if resp.status_code == 500:
                body = len(body) > 0     # a rendered traceback: depth-dependent
            elif accept == 'application/xml' and resp.status_code == 404:
                assert b'<http_error><code>404</code>' in body
            yield (method, url, accept, resp.status_code, body, resp.headers.get('Content-Type'))
ctx_base = ctx_observe([])
assert [r[3] for r in ctx_base] == [404] * 3 + [500] * 3 + [403] * 3 + [405] * 3
assert ctx_observe(all_builtin()) == ctx_base


# ---- the serializers directly ---------------------------------------------------

exc = Forbidden(error_type=None)
exc.detail = {'k': None}
assert exc.to_escaped_dict() == {'detail': '{&#x27;k&#x27;: None}', 'message': 'Access forbidden',
                                 'code': '403', 'error_type': ''}
assert list(exc.to_escaped_dict()) == ['detail', 'message', 'code', 'error_type']
exc = InternalServerError()
assert exc.to_escaped_dict()['exc_info'] == ''      # extra None-valued key of a subclass
assert exc.to_escaped_dict()['code'] == '500'

class Unescapable(str):
    "a string whose escaping fails: falls back to the repr"
    def replace(self, *a):
        raise RuntimeError('no replace')
exc = BadRequest(Unescapable('<u>'))
assert exc.to_escaped_dict()['detail'] == '&#x27;&lt;u&gt;&#x27;'

# __str__: detail if it is text, its repr if it is not, the message if there is none
assert str(Forbidden()) == Forbidden.detail
assert str(Forbidden('why')) == 'why'
exc = Forbidden('x')
for detail, expected_str in [({'a': 1}, "{'a': 1}"), (42, '42'), (Weird(), '<Weird & "odd">'),
                             (b'bytes', "b'bytes'"), (('t',), "('t',)")]:
    exc.detail = detail
    assert str(exc) == expected_str, (detail, str(exc))
exc.detail = ''
assert str(exc) == 'Access forbidden'
exc.detail = None
assert str(exc) == 'Access forbidden'
exc.detail = 0
assert str(exc) == 'Access forbidden'
exc.detail = []
assert str(exc) == 'Access forbidden'
long_detail = ''.join(chr(65 + i % 26) for i in range(600))
assert str(Forbidden(long_detail)) == long_detail[:256] + '...' + long_detail[-253:]
assert len(str(Forbidden(long_detail))) == 512
assert str(Forbidden('y' * 512)) == 'y' * 512
exc2 = Forbidden('x'); exc2.detail = list(range(300))
assert len(str(exc2)) == 512 and str(exc2).startswith('[0, 1, 2') and str(exc2).endswith('299]')
exc = Forbidden('x'); exc.detail = None; exc.message = 'm' * 513
assert str(exc) == 'm' * 256 + '...' + 'm' * 253
exc.message = None
try:
    str(exc)
except TypeError:
    pass
else:
    raise AssertionError('len(None) should fail as before')

print('PASS')
