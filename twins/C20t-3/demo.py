# -*- coding: utf-8 -*-
"""demo3: the server side of the Flaw failsafe -- run_simple's serve_error_app and
restart_with_reloader.

The child process, the reloader loop and the socket server are replaced by
fakes, so that the whole chain "child dies with exit code 1 and a traceback on
stderr -> error_func(tb_str, monitored files) -> flaw.create_app -> page" can
be driven with arbitrary error texts, and the control flow of the restart loop
(exit codes, SystemExit/KeyboardInterrupt from the reloader, server shutdown)
can be observed.
"""
import contextlib
import html
import io
import os
import sys
import traceback

from clastic import server, flaw
from clastic.application import Application


# ------------------------------------------------------------------ fakes

class FakeServer(object):
    def __init__(self, host, port, app, threaded, processes, request_handler,
                 passthrough_errors, ssl_context, log):
        self.host, self.port, self.app = host, port, app
        self.options = (threaded, processes, request_handler, passthrough_errors, ssl_context)
        self.log = log

    def serve_forever(self):
        self.log.append(('serve_forever', self))

    def shutdown(self):
        self.log.append(('shutdown', self))

    def server_close(self):
        self.log.append(('server_close', self))


class FakeThreadModule(object):
    def __init__(self, log):
        self.log = log

    def start_new_thread(self, func, args, *rest):
        self.log.append(('start_new_thread', func, args, rest))
        return 12345


class FakeProc(object):
    def __init__(self, stderr_bytes, returncode, polls_before_exit=2):
        self.stderr = io.BytesIO(stderr_bytes)
        self._final = returncode
        self._polls = polls_before_exit
        self.returncode = None

    def poll(self):
        if self._polls > 0:
            self._polls -= 1
            return None
        self.returncode = self._final
        return self.returncode


class FakeSubprocess(object):
    PIPE = object()

    def __init__(self, children, log):
        self.children = list(children)
        self.log = log

    def Popen(self, *a, **kw):
        self.log.append(('Popen', a, kw))
        return self.children.pop(0)


@contextlib.contextmanager
def patched(obj, **attrs):
    saved = dict((k, getattr(obj, k)) for k in attrs)
    for k, v in attrs.items():
        setattr(obj, k, v)
    try:
        yield
    finally:
        for k, v in saved.items():
            setattr(obj, k, v)


# ------------------------------------------------------------------ part A: serve_error_app

def get_error_func(hostname, port, log, **run_simple_kwargs):
    """Runs run_simple(use_reloader=True) with everything stubbed, returns the
    error_func it hands to the reloader (i.e. serve_error_app)."""
    captured = {}

    def fake_make_server(host, port, app=None, threaded=False, processes=1, request_handler=None,
                         passthrough_errors=False, ssl_context=None):
        srv = FakeServer(host, port, app, threaded, processes, request_handler,
                         passthrough_errors, ssl_context, log)
        log.append(('make_server', srv))
        return srv

    def fake_run_with_reloader(main_func, extra_files=None, interval=1, error_func=None):
        captured.update(main_func=main_func, extra_files=extra_files, interval=interval,
                        error_func=error_func)

    def fake_open_test_socket(host, port, raise_exc=True):
        log.append(('open_test_socket', host, port))
        return True

    def sentinel_app(environ, start_response):
        raise AssertionError('the real application must not be used by the failsafe')

    out = io.StringIO()
    with patched(server, make_server=fake_make_server, run_with_reloader=fake_run_with_reloader,
                 open_test_socket=fake_open_test_socket, thread=FakeThreadModule(log)):
        with contextlib.redirect_stdout(out):
            server.run_simple(hostname, port, sentinel_app, use_reloader=True, **run_simple_kwargs)
        assert captured['error_func'] is not None
        captured['banner'] = out.getvalue()
        captured['fake_make_server'] = fake_make_server
    return captured


@contextlib.contextmanager
def serve_env(log):
    """serve_error_app looks make_server / thread up at call time: keep them stubbed."""
    def fake_make_server(host, port, app=None, threaded=False, processes=1, request_handler=None,
                         passthrough_errors=False, ssl_context=None):
        srv = FakeServer(host, port, app, threaded, processes, request_handler,
                         passthrough_errors, ssl_context, log)
        log.append(('make_server', srv))
        return srv
    with patched(server, make_server=fake_make_server, thread=FakeThreadModule(log)):
        yield


def expected_pre(text):
    if text is None or len(text) == 0:
        return '<pre></pre>'
    return '<pre>%s</pre>' % html.escape(str(text), True)


def li_items(names):
    return ''.join('<li>%s</li>' % html.escape(n, True) for n in names)


def check_error_server(err_server, log_slice, hostname, port, text, files):
    assert isinstance(err_server, FakeServer)
    assert (err_server.host, err_server.port) == (hostname, port)
    # error server uses make_server defaults, whatever run_simple was given
    assert err_server.options == (False, 1, None, False, None), err_server.options
    assert type(err_server.app) is Application
    kinds = [e[0] for e in log_slice]
    assert kinds == ['make_server', 'start_new_thread'], kinds
    assert log_slice[0][1] is err_server
    _, func, args, rest = log_slice[1]
    assert func == err_server.serve_forever and args == () and rest == ()
    # resources handed through untouched
    assert err_server.app.resources['tb_str'] is text
    assert err_server.app.resources['all_mon_files'] is files
    cl = err_server.app.get_local_client()
    for path in ('/', '/some/deep/path', '/favicon.ico'):
        resp = cl.get(path)
        assert resp.status_code == 200, (text, path)
        body = resp.get_data(True)
        assert 'Whopps!' in body
        assert expected_pre(text) in body, (text, body)
        assert '<script' not in body and '<b>' not in body
        assert ('<ul id="all_files" style="display:none;">%s</ul>' % li_items(files or [])) in body
        for name in flaw._filter_site_files(files):
            assert '<li>%s</li>' % html.escape(name, True) in body


def _raiser(exc, depth):
    if depth:
        return _raiser(exc, depth - 1)
    raise exc


def error_texts():
    out = []
    for exc in (ValueError('bad <value> & more'), KeyError('k'), ImportError('No module named nope'),
                Exception('{tb_str}{#mon_files}{.}{/mon_files}')):
        for depth in (0, 5):
            try:
                _raiser(exc, depth)
            except Exception:
                out.append(traceback.format_exc())
    try:
        compile('def f(:\n', 'broken.py', 'exec')
    except SyntaxError:
        full = traceback.format_exc()
        out.append(full)
        out.append(full[full.index('  File "broken.py"'):])
    out += [u'', u'\n', u'x', u'plain: text', u'<script>alert(1)</script>\n<b>last</b>', u'{tb_str}', u'{>flaw_tmpl/}',
            u'{#parsed_err}', u'\x00\x01\x7f', u'a\r\nb\r\n', u'sn\xf6wman ☃ \U0001f600', u'Traceback (most recent call last):\n',
            None, b'', b'raw bytes: here', b'\xff\xfe']
    return out


FILE_LISTS = [None, [], ['/srv/app/main.py'], ['/srv/app/long_name.py', '/srv/<b>x</b>.py', 'a.py', os.__file__,
                                                 flaw.__file__, '/srv/{tb_str}.py', '/q&a.py']]


def part_a():
    n = 0
    for hostname, port, kwargs in [('127.0.0.1', 5000, {}), ('::1', 8080, {'threaded': True}),
                                   ('*', 0, {'processes': 4, 'passthrough_errors': True,
                                             'extra_files': ['x.cfg'], 'reloader_interval': 3})]:
        log = []
        cap = get_error_func(hostname, port, log, **kwargs)
        assert cap['extra_files'] == kwargs.get('extra_files')
        assert cap['interval'] == kwargs.get('reloader_interval', 1)
        assert log == [('open_test_socket', hostname, port)], log
        assert ' * Running on http://' in cap['banner']
        error_func = cap['error_func']
        with serve_env(log):
            for text in error_texts():
                for fl in FILE_LISTS:
                    files = None if fl is None else list(fl)
                    start = len(log)
                    err_server = error_func(text, files)
                    check_error_server(err_server, log[start:], hostname, port, text, files)
                    n += 1
            # positional / keyword call both fine (restart_with_reloader calls positionally)
            tb = error_texts()[0]
            srv = error_func(tb, ['/srv/app/main.py'])
            body = srv.app.get_local_client().get('/x').get_data(True)
            assert 'ValueError' in body and html.escape('bad <value> & more') in body
    return n


# ------------------------------------------------------------------ part B: restart_with_reloader

class Scenario(object):
    def __init__(self, children, reloader_effects=(), error_func='record', argv=None):
        self.log = []
        self.fake_subprocess = FakeSubprocess(children, self.log)
        self.reloader_effects = list(reloader_effects)
        self.argv = argv or ['app.py', '--flag']
        self.stderr = io.StringIO()
        self.stdout = io.StringIO()
        self.err_servers = []
        if error_func == 'record':
            error_func = self.record_error_func
        self.error_func = error_func

    def record_error_func(self, tb_str, monitored_files):
        srv = FakeServer(None, None, None, False, 1, None, False, None, self.log)
        self.err_servers.append(srv)
        self.log.append(('error_func', tb_str, monitored_files, list(monitored_files)))
        return srv

    def fake_reloader_loop(self, extra_files=None, interval=1):
        self.log.append(('reloader_loop', extra_files, interval))
        effect = self.reloader_effects.pop(0)
        if effect is not None:
            raise effect

    def fake_enable_tty_echo(self, tty=None):
        self.log.append(('enable_tty_echo', tty))

    def run(self):
        environ_before = dict(os.environ)
        with patched(server, subprocess=self.fake_subprocess, reloader_loop=self.fake_reloader_loop,
                     enable_tty_echo=self.fake_enable_tty_echo), \
                patched(sys, argv=self.argv, stderr=self.stderr), \
                contextlib.redirect_stdout(self.stdout):
            if self.error_func is None:
                ret = server.restart_with_reloader()
            else:
                ret = server.restart_with_reloader(error_func=self.error_func)
        assert dict(os.environ) == environ_before
        assert self.fake_subprocess.children == [], 'not all children were started'
        assert self.reloader_effects == []
        return ret

    def kinds(self):
        return [e[0] for e in self.log]

    def popens(self):
        return [e for e in self.log if e[0] == 'Popen']


TB = (u'Traceback (most recent call last):\n  File "app.py", line 3, in <module>\n    import nope\n'
      u"ImportError: No module named <nope> & 'co'\n")
MON = ['/srv/app/app.py', '/srv/app/<b>views</b>.py', os.__file__]


def stderr_of(text, mon=None, mon_first=False):
    data = text.encode('utf8')
    mon_line = b''
    if mon is not None:
        mon_line = ('%s%r\n' % (server._MON_PREFIX, mon)).encode('utf8')
    return mon_line + data if mon_first else data + mon_line


def check_popen(entry, argv):
    _, a, kw = entry
    call_args = a[0] if a else kw['args']
    if argv[0].endswith('__main__.py'):
        pkg = os.path.basename(os.path.dirname(argv[0]))
        assert call_args == [sys.executable, '-m', pkg] + argv[1:], call_args
    else:
        assert call_args == [sys.executable] + argv, call_args
    assert kw['stderr'] is FakeSubprocess.PIPE
    env = kw['env']
    assert env is not os.environ and env['WERKZEUG_RUN_MAIN'] == 'true'
    rest = dict(env)
    rest.pop('WERKZEUG_RUN_MAIN')
    expected = dict(os.environ)
    expected.pop('WERKZEUG_RUN_MAIN', None)
    assert rest == expected
    assert set(kw) - {'args'} == {'env', 'stderr'}, kw.keys()


def part_b():
    # 1. clean exit
    s = Scenario([FakeProc(b'', 0)])
    assert s.run() == 0
    assert s.kinds() == ['Popen']
    check_popen(s.popens()[0], s.argv)
    assert s.stdout.getvalue() == ' * Clastic restarting with reloader\n'

    # 2. exit code 3 restarts, python -m form
    s = Scenario([FakeProc(b'note\n', 3), FakeProc(b'', 3, 0), FakeProc(b'', 0)], argv=['/x/y/pkg/__main__.py', 'serve', '-v'])
    assert s.run() == 0
    assert s.kinds() == ['Popen'] * 3
    for p in s.popens():
        check_popen(p, s.argv)
    assert s.stderr.getvalue() == 'note\n'
    assert s.stdout.getvalue() == ' * Clastic restarting with reloader\n' * 3

    # 3. crash -> failsafe; reloader asks for restart (SystemExit(3)) -> loop; then clean exit
    s = Scenario([FakeProc(stderr_of(TB, MON), 1), FakeProc(b'', 0)], [SystemExit(3)])
    assert s.run() == 0
    assert s.kinds() == ['Popen', 'enable_tty_echo', 'error_func', 'reloader_loop', 'shutdown', 'server_close', 'Popen'], s.kinds()
    ef = s.log[2]
    assert ef[1] == TB and ef[3] == MON
    rl = s.log[3]
    assert rl[1] is ef[2] and rl[2] == 1      # same list object monitored by the reloader
    assert s.log[4][1] is s.err_servers[0] and s.log[5][1] is s.err_servers[0]
    assert s.stderr.getvalue() == TB           # traceback echoed, monitor line swallowed

    # 4. KeyboardInterrupt while showing the failsafe
    s = Scenario([FakeProc(stderr_of(TB, MON, mon_first=True), 1)], [KeyboardInterrupt()])
    assert s.run() == 0
    assert s.kinds() == ['Popen', 'enable_tty_echo', 'error_func', 'reloader_loop', 'shutdown', 'server_close']
    assert s.log[2][1] == TB and s.log[2][3] == MON

    # 5. other SystemExit codes are returned
    for code in (5, 0, None, 'msg'):
        s = Scenario([FakeProc(stderr_of(TB), 1)], [SystemExit(code)])
        assert s.run() == code
        assert s.kinds()[-2:] == ['shutdown', 'server_close']
        assert s.log[2][3] == []               # no monitor line seen

    # 6. reloader returns normally
    s = Scenario([FakeProc(stderr_of(TB), 1)], [None])
    assert s.run() == 0
    assert s.kinds()[-3:] == ['reloader_loop', 'shutdown', 'server_close']

    # 6b. other exceptions from the reloader propagate, the server is still closed
    s = Scenario([FakeProc(stderr_of(TB), 1)], [RuntimeError('boom')])
    try:
        s.run()
    except RuntimeError as e:
        assert str(e) == 'boom'
    else:
        raise AssertionError('RuntimeError expected')
    assert s.kinds()[-2:] == ['shutdown', 'server_close']

    # 7. exit 1 but nothing on stderr / only a monitor line: plain exit code
    for data in (b'', stderr_of(u'', MON)):
        s = Scenario([FakeProc(data, 1)])
        assert s.run() == 1
        assert s.kinds() == ['Popen']

    # 8. no error_func
    s = Scenario([FakeProc(stderr_of(TB, MON), 1)], error_func=None)
    assert s.run() == 1 and s.kinds() == ['Popen']

    # 9. other exit codes
    for code in (2, -11, 127):
        s = Scenario([FakeProc(stderr_of(TB, MON), code)])
        assert s.run() == code and s.kinds() == ['Popen']

    # 10. only the last _STDERR_BUFF_SIZE lines are kept
    many = u''.join(u'line %d\n' % i for i in range(server._STDERR_BUFF_SIZE + 100))
    s = Scenario([FakeProc(stderr_of(many + TB), 1)], [None])
    assert s.run() == 0
    kept = (many + TB).splitlines(True)[-server._STDERR_BUFF_SIZE:]
    assert s.log[2][1] == u''.join(kept)
    assert s.stderr.getvalue() == many + TB

    # 11. monitored files survive restarts (same list, updated in place); buffer is per child
    s = Scenario([FakeProc(stderr_of(u'first run output\n', MON), 3),
                  FakeProc(stderr_of(TB), 1),
                  FakeProc(stderr_of(u'other: error\n', ['/only.py']), 1)],
                 [SystemExit(3), None])
    assert s.run() == 0
    efs = [e for e in s.log if e[0] == 'error_func']
    assert len(efs) == 2
    assert efs[0][1] == TB and efs[0][3] == MON
    assert efs[1][1] == u'other: error\n' and efs[1][3] == ['/only.py']
    assert efs[0][2] is efs[1][2]
    assert len(s.err_servers) == 2

    # 12. a falsy error server object / unusual stderr text
    weird = u'{tb_str} <script>x</script>\n\x00\x01 ☃\n'
    s = Scenario([FakeProc(stderr_of(weird, []), 1)], [None])
    assert s.run() == 0
    assert s.log[2][1] == weird and s.log[2][3] == []


def part_c():
    """whole chain: crashing child -> real serve_error_app -> flaw page"""
    n = 0
    for text in [t for t in error_texts() if isinstance(t, str) and t]:
        for mon in (None, [], ['/srv/app/app.py', '/srv/<b>x</b>.py', os.__file__, '/srv/{tb_str}.py']):
            log = []
            cap = get_error_func('localhost', 5000, log)
            s = Scenario([FakeProc(stderr_of(text, mon, mon_first=True), 1)], [None], error_func=cap['error_func'])
            s.log = log
            s.fake_subprocess.log = log
            with serve_env(log):
                ret = s.run()
            # the decoded, re-joined stderr lines are what the page shows
            expected_text = text
            assert ret == 0
            kinds = [e[0] for e in log]
            assert kinds == ['open_test_socket', 'Popen', 'enable_tty_echo', 'make_server', 'start_new_thread',
                             'reloader_loop', 'shutdown', 'server_close'], kinds
            err_server = log[3][1]
            assert log[6][1] is err_server and log[7][1] is err_server
            files = err_server.app.resources['all_mon_files']
            assert log[5][1] is files           # reloader watches the very list the page shows
            assert sorted(files) == sorted(mon or [])
            assert err_server.app.resources['tb_str'] == expected_text
            body = err_server.app.get_local_client().get('/anything').get_data(True)
            assert expected_pre(expected_text) in body
            assert '<ul id="all_files" style="display:none;">%s</ul>' % li_items(files) in body
            assert '<script' not in body and '<b>' not in body
            n += 1
    return n


def main():
    na = part_a()
    part_b()
    nc = part_c()
    print('error servers checked: %d, full chains: %d' % (na, nc))
    print('PASS')


if __name__ == '__main__':
    main()
    sys.exit(0)
