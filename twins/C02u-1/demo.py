# -*- coding: utf-8 -*-
"""demo1: every injected argument comes from its one declared source.

Focus: sinter.make_chain / compile_chain (what the outermost generated
function accepts, what is reported unresolved, and what each chained
function finally receives), plus an end-to-end application run.
"""
import os
import sys

sys.path.insert(0, os.path.dirname(os.path.abspath(__file__)))

from clastic import Application, Route, Middleware, Response
from clastic.sinter import make_chain, inject, build_chain_str
from clastic.middleware import make_middleware_chain

assert os.path.dirname(os.path.abspath(__file__)) in sys.modules['clastic'].__file__


class S(object):
    "distinct sentinel"
    def __init__(self, label):
        self.label = label

    def __repr__(self):
        return '<S %s>' % self.label


# ---------------------------------------------------------------- make_chain

def test_make_chain_direct():
    calls = []
    v_a, v_b, v_c, v_d = S('a'), S('b'), S('c'), S('d')
    p1, p2 = S('p1'), S('p2')

    def mw1(next, a, opt=S('mw1-default')):
        calls.append(('mw1', dict(a=a, opt=opt)))
        return next(p1=p1)

    def mw2(next, p1, b):
        calls.append(('mw2', dict(p1=p1, b=b)))
        return next(p2=p2)

    def final(p2, a, c, d='final-default', e=None):
        calls.append(('final', dict(p2=p2, a=a, c=c, d=d, e=e)))
        return 'done'

    chain, args, unres = make_chain([mw1, mw2], [('p1',), ('p2',)], final,
                                    ['a', 'b', 'c', 'd', 'zzz'], 'next')
    assert type(args) is set and type(unres) is set
    assert args == set(['a', 'b', 'c', 'd']), args   # 'd' offered and optional
    assert unres == set(), unres
    assert chain.__name__ == 'next'
    assert chain.__code__.co_argcount == 4
    assert set(chain.__code__.co_varnames[:4]) == args

    assert chain(a=v_a, b=v_b, c=v_c, d=v_d) == 'done'
    assert [c[0] for c in calls] == ['mw1', 'mw2', 'final']
    mw1_kw, mw2_kw, fin_kw = [c[1] for c in calls]
    assert mw1_kw['a'] is v_a and mw1_kw['opt'].label == 'mw1-default'
    assert mw2_kw['p1'] is p1 and mw2_kw['b'] is v_b
    assert fin_kw['p2'] is p2 and fin_kw['a'] is v_a and fin_kw['c'] is v_c
    assert fin_kw['d'] is v_d          # offered -> default NOT used
    assert fin_kw['e'] is None         # nobody offers e -> own default

    # input containers are not modified / aliased
    funcs, provides, pre = (mw1, mw2), (('p1',), ('p2',)), ('a', 'b', 'c')
    chain2, args2, unres2 = make_chain(funcs, provides, final, pre, 'next')
    assert funcs == (mw1, mw2) and provides == (('p1',), ('p2',))
    assert pre == ('a', 'b', 'c')
    assert args2 == set(['a', 'b', 'c']) and unres2 == set()
    args2.add('junk')
    unres2.add('junk')                 # results are private to the caller
    del calls[:]
    assert chain2(a=v_a, b=v_b, c=v_c) == 'done'
    assert calls[-1][1]['d'] == 'final-default'

    # unresolved names are reported, and still demanded by the chain
    chain3, args3, unres3 = make_chain([mw1], [('p1',)], final, ['a'], 'next')
    assert unres3 == set(['p2', 'c']), unres3
    assert args3 == set(['a', 'p2', 'c']), args3

    # empty chain: only the final function
    chain4, args4, unres4 = make_chain((), (), final, set(['a', 'e']), 'next')
    assert args4 == set(['p2', 'a', 'c', 'e']) and unres4 == set(['p2', 'c'])
    del calls[:]
    chain4(p2=0, a='', c=None, e=v_d)
    assert calls[-1][1] == dict(p2=0, a='', c=None, d='final-default', e=v_d)

    # generators are accepted as funcs / provides / preprovided
    chain5, args5, unres5 = make_chain(iter([mw1, mw2]),
                                       iter([('p1',), ('p2',)]), final,
                                       iter(['a', 'b', 'c']), 'next')
    assert args5 == set(['a', 'b', 'c']) and unres5 == set()

    # a function is never passed a name it does not declare: the static view
    src = build_chain_str([mw1, mw2, final],
                          [sorted(args), ('p1',), ('p2',)], 'next')
    assert 'return funcs[0](a=a, next=next, opt=opt)' not in src
    assert 'return funcs[0](a=a, next=next)\n' in src
    assert 'return funcs[1](b=b, next=next, p1=p1)\n' in src
    assert 'return funcs[2](a=a, c=c, d=d, p2=p2)\n' in src


# ------------------------------------------------------- middleware chain

def test_middleware_chain():
    rec = {}
    prov, ep_prov, rn_prov = S('prov'), S('ep_prov'), S('rn_prov')

    class MW(Middleware):
        provides = ('prov',)
        endpoint_provides = ('ep_prov',)
        render_provides = ('rn_prov',)

        def request(self, next, request, res1):
            rec['mw.request'] = dict(request=request, res1=res1)
            return next(prov=prov)

        def endpoint(self, next, prov, seg):
            rec['mw.endpoint'] = dict(prov=prov, seg=seg)
            return next(ep_prov=ep_prov)

        def render(self, next, context, res2):
            rec['mw.render'] = dict(context=context, res2=res2)
            return next(rn_prov=rn_prov)

    ctx = S('context')

    def endpoint(seg, prov, ep_prov, res1, missing='ep-default'):
        rec['endpoint'] = dict(seg=seg, prov=prov, ep_prov=ep_prov,
                               res1=res1, missing=missing)
        return ctx

    def render(context, rn_prov, request, res2, prov='unused-default'):
        rec['render'] = dict(context=context, rn_prov=rn_prov,
                             request=request, res2=res2, prov=prov)
        return 'rendered'

    chain = make_middleware_chain([MW()], endpoint, render,
                                  ['request', 'res1', 'res2', 'seg',
                                   'context', 'next', 'unused'])
    req, r1, r2, seg = S('req'), S('res1'), S('res2'), S('seg')
    out = inject(chain, dict(request=req, res1=r1, res2=r2, seg=seg,
                             unused=S('unused'), _route=S('route')))
    assert out == 'rendered'
    assert rec['mw.request'] == dict(request=req, res1=r1)
    assert rec['mw.endpoint'] == dict(prov=prov, seg=seg)
    assert rec['endpoint'] == dict(seg=seg, prov=prov, ep_prov=ep_prov,
                                   res1=r1, missing='ep-default')
    assert rec['mw.render'] == dict(context=ctx, res2=r2)
    assert rec['render'] == dict(context=ctx, rn_prov=rn_prov, request=req,
                                 res2=r2, prov=prov)
    assert rec['render']['context'] is ctx and rec['endpoint']['res1'] is r1

    # unresolved arguments are still a bind-time NameError
    def bad_endpoint(nobody_has_this):
        return None
    try:
        make_middleware_chain([MW()], bad_endpoint, render,
                              ['request', 'res1', 'res2', 'seg'])
    except NameError as ne:
        assert 'nobody_has_this' in str(ne)
    else:
        raise AssertionError('expected NameError')


# ------------------------------------------------------------ application

def test_application():
    seen = []
    res_obj, res_list = S('resource'), []

    class ProvMW(Middleware):
        provides = ('token',)

        def __init__(self):
            self.count = 0

        def request(self, next, request, _route, _application):
            self.count += 1
            tok = S('token-%d' % self.count)
            seen.append(('mw', request, _route, _application, tok))
            return next(token=tok)

    def endpoint(request, num, name, token, res_obj, res_list, _application,
                 _route, _dispatch_state, flag=0, other=''):
        kw = dict(locals())
        kw.pop('seen', None)
        seen.append(('ep', kw))
        return {'num': num}

    def render(context, request, token, res_obj):
        kw = dict(locals())
        kw.pop('seen', None)
        seen.append(('rn', kw))
        return Response('ok %r' % context['num'])

    mw = ProvMW()
    app = Application([Route('/x/<num:int>/<name>', endpoint, render)],
                      resources={'res_obj': res_obj, 'res_list': res_list},
                      middlewares=[mw])
    cl = app.get_local_client()
    for i, (num, name) in enumerate([(0, 'zero'), (17, 'seventeen')]):
        del seen[:]
        resp = cl.get('/x/%d/%s' % (num, name))
        assert resp.status_code == 200 and resp.data == ('ok %d' % num).encode()
        (_, mreq, mroute, mapp, tok), (_, ep), (_, rn) = seen
        assert tok.label == 'token-%d' % (i + 1)
        assert ep['num'] == num and type(ep['num']) is int
        assert ep['name'] == name
        assert ep['token'] is tok and rn['token'] is tok
        assert ep['res_obj'] is res_obj and rn['res_obj'] is res_obj
        assert ep['res_list'] is res_list          # identity, not a copy
        assert ep['request'] is mreq and rn['request'] is mreq
        assert ep['_application'] is app and mapp is app
        assert ep['_route'] is app.routes[0] and mroute is app.routes[0]
        assert ep['_dispatch_state'].__class__.__name__ == 'DispatchState'
        assert ep['flag'] == 0 and ep['other'] == ''   # nobody offers these
        assert rn['context'] == {'num': num}
        assert sorted(rn) == ['context', 'request', 'res_obj', 'token']


if __name__ == '__main__':
    test_make_chain_direct()
    test_middleware_chain()
    test_application()
    print('PASS')
