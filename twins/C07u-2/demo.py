# -*- coding: utf-8 -*-
"""demo2: slash modes inherited / not inherited through embedding.

Exercises Application.add and SubApplication.bind_all (the plumbing that
carries inherit_slashes / rebind_render / prefix to BoundRoute) and checks
the one-hop redirect property on the resulting routes.
"""
from __future__ import print_function

import warnings
warnings.simplefilter('ignore')

from urllib.parse import urlsplit, unquote_to_bytes

from werkzeug.test import EnvironBuilder
from werkzeug.wrappers import Response

from clastic import (Application, Route, SubApplication,
                     S_REDIRECT, S_REWRITE, S_STRICT)
from clastic.route import BoundRoute, NullRoute

MODES = (S_REDIRECT, S_REWRITE, S_STRICT)


def ep(request):
    return Response(repr((request.path, request.query_string)))


def ep_name(request, name):
    return Response(repr((request.path, request.query_string, name)))


def call(app, path, query=b'', method='GET'):
    env = EnvironBuilder(path='/', method=method).get_environ()
    env['PATH_INFO'] = path.encode('utf8').decode('latin1')
    env['QUERY_STRING'] = query.decode('latin1')
    return app.get_local_client().open(env)


def follow(app, location, method='GET'):
    parts = urlsplit(location)
    assert parts.scheme == 'http' and parts.netloc == 'localhost', location
    path = unquote_to_bytes(parts.path).decode('utf8')
    return path, parts.query.encode('latin1'), call(app, path, parts.query.encode('latin1'), method)


def check_mode_behaviour(app, raw, canon, mode, query=b'a=%3F&b=c+d'):
    """The route reached through *raw* must behave as slash mode *mode*."""
    for method in ('GET', 'POST'):
        resp = call(app, raw, query, method)
        if mode == S_REDIRECT:
            assert resp.status_code == 302, (raw, mode, resp.status_code)
            path2, query2, resp2 = follow(app, resp.headers['Location'], method)
            assert path2 == canon, (raw, resp.headers['Location'])
            assert query2 == query
            assert resp2.status_code == 200 and 'Location' not in resp2.headers
            assert eval(resp2.get_data(as_text=True))[:2] == (canon, query)
        elif mode == S_REWRITE:
            assert resp.status_code == 200, (raw, mode, resp.status_code)
            assert 'Location' not in resp.headers
            assert eval(resp.get_data(as_text=True))[:2] == ('/' + raw.lstrip('/'), query)
        else:
            assert resp.status_code == 404, (raw, mode, resp.status_code)
            assert 'Location' not in resp.headers
        # the canonical path is served directly in every mode
        resp = call(app, canon, query, method)
        assert resp.status_code == 200 and 'Location' not in resp.headers, (canon, mode)


def bound_modes(app):
    return [(r.pattern, r.slash_mode) for r in app.routes]


def check_direct_routes():
    for app_mode in MODES:
        for route_mode in MODES:
            # default: the application's mode wins
            app = Application([Route('/d/<name>/', ep_name, slash_mode=route_mode)],
                              slash_mode=app_mode)
            assert bound_modes(app) == [('/d/<name>/', app_mode)]
            check_mode_behaviour(app, '/d/a?b#%41', '/d/a?b#%41/', app_mode)
            # inherit_slashes=False: the route's own mode wins
            app = Application(slash_mode=app_mode)
            app.add(Route('/d/<name>/', ep_name, slash_mode=route_mode),
                    inherit_slashes=False)
            assert bound_modes(app) == [('/d/<name>/', route_mode)]
            check_mode_behaviour(app, u'/d/\xe9 ;&=', u'/d/\xe9 ;&=/', route_mode)
            # the null route always rewrites
            assert app._null_route.slash_mode == S_REWRITE
            assert isinstance(app._null_route.unbound_route, NullRoute)


def check_embedding():
    for outer_mode in MODES:
        for inner_mode in MODES:
            inner = Application([Route('/in/', ep), Route('/leaf', ep)],
                                slash_mode=inner_mode)
            # tuple entry -> SubApplication with inherit_slashes=True
            outer = Application([('/sub', inner)], slash_mode=outer_mode)
            assert bound_modes(outer) == [('/sub/in/', outer_mode), ('/sub/leaf', outer_mode)]
            check_mode_behaviour(outer, '/sub//in', '/sub/in/', outer_mode)
            # explicit SubApplication, not inherited
            outer = Application([SubApplication('/sub/', inner, inherit_slashes=False)],
                                slash_mode=outer_mode)
            assert bound_modes(outer) == [('/sub/in/', inner_mode), ('/sub/leaf', inner_mode)]
            check_mode_behaviour(outer, '/sub/in', '/sub/in/', inner_mode)
            # add()'s explicit keyword beats the SubApplication's attribute ...
            outer = Application(slash_mode=outer_mode)
            outer.add(SubApplication('/sub', inner, inherit_slashes=False),
                      inherit_slashes=True)
            assert bound_modes(outer) == [('/sub/in/', outer_mode), ('/sub/leaf', outer_mode)]
            outer = Application(slash_mode=outer_mode)
            outer.add(SubApplication('/sub', inner, inherit_slashes=True),
                      inherit_slashes=False)
            assert bound_modes(outer) == [('/sub/in/', inner_mode), ('/sub/leaf', inner_mode)]
            check_mode_behaviour(outer, '/sub///in//', '/sub/in/', inner_mode)
            # ... but never the SubApplication's prefix
            outer = Application(slash_mode=outer_mode)
            outer.add(SubApplication('/sub', inner), prefix='/ignored')
            assert [p for p, _ in bound_modes(outer)] == ['/sub/in/', '/sub/leaf']
            # two levels: only the innermost non-inheriting hop keeps its mode
            for mid_mode in MODES:
                mid = Application([SubApplication('/mid', inner, inherit_slashes=False)],
                                  slash_mode=mid_mode)
                assert bound_modes(mid)[0] == ('/mid/in/', inner_mode)
                top = Application([SubApplication('/top', mid, inherit_slashes=False)],
                                  slash_mode=outer_mode)
                assert bound_modes(top)[0] == ('/top/mid/in/', inner_mode)
                check_mode_behaviour(top, '/top/mid/in', '/top/mid/in/', inner_mode)
                mid = Application([('/mid', inner)], slash_mode=mid_mode)
                top = Application([SubApplication('/top', mid, inherit_slashes=False)],
                                  slash_mode=outer_mode)
                assert bound_modes(top)[0] == ('/top/mid/in/', mid_mode)
                check_mode_behaviour(top, '/top//mid//in', '/top/mid/in/', mid_mode)
                top = Application([('/top', mid)], slash_mode=outer_mode)
                assert bound_modes(top)[0] == ('/top/mid/in/', outer_mode)


def check_bind_all_details():
    inner = Application([Route('/a/', ep), Route('/b/', ep)], slash_mode=S_STRICT)
    outer = Application([Route('/first/', ep), Route('/last/', ep)])
    sub = SubApplication('/s/', inner, rebind_render=True, inherit_slashes=False)
    assert sub.prefix == '/s'

    ret = sub.bind_all(outer)
    assert type(ret) is list and len(ret) == 2
    assert all(type(r) is BoundRoute for r in ret)
    assert [(r.pattern, r.slash_mode) for r in ret] == [('/s/a/', S_STRICT), ('/s/b/', S_STRICT)]
    assert all(r.bound_apps == [inner, outer] for r in ret)
    ret = sub.bind_all(outer, inherit_slashes=True, prefix='/zzz', rebind_render=False)
    assert [(r.pattern, r.slash_mode) for r in ret] == [('/s/a/', S_REDIRECT), ('/s/b/', S_REDIRECT)]
    # the null route of the embedded application is not carried over
    assert SubApplication('/e', Application()).bind_all(outer) == []
    # the caller's dict is left alone
    opts = {'inherit_slashes': True}
    sub.bind_all(outer, **opts)
    assert opts == {'inherit_slashes': True}

    # unknown options are rejected by BoundRoute, naming only the unknown ones
    for bad_call in (lambda: sub.bind_all(outer, bogus=1, other=2),
                     lambda: outer.add(sub, bogus=1, other=2),
                     lambda: outer.add(Route('/r/', ep), bogus=1, other=2)):
        try:
            bad_call()
        except TypeError as te:
            assert str(te) == "unexpected keyword args: dict_keys(['bogus', 'other'])", str(te)
        else:
            assert False, 'expected TypeError'
    assert [r.pattern for r in outer.routes] == ['/first/', '/last/']

    # insertion position and order
    outer.add(sub, index=1)
    assert [r.pattern for r in outer.routes] == ['/first/', '/s/a/', '/s/b/', '/last/']
    outer.add(('/t', inner), index=0)
    assert [r.pattern for r in outer.routes][:3] == ['/t/a/', '/t/b/', '/first/']
    outer.add(('/u/', ep))
    assert outer.routes[-1].pattern == '/u/'
    check_mode_behaviour(outer, '/s/a', '/s/a/', S_STRICT)
    check_mode_behaviour(outer, '/t/a', '/t/a/', S_REDIRECT)
    check_mode_behaviour(outer, '/u', '/u/', S_REDIRECT)


if __name__ == '__main__':
    check_direct_routes()
    check_embedding()
    check_bind_all_details()
    print('PASS')
