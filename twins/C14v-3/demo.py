# -*- coding: utf-8 -*-
"""demo3: the request glue of StaticFileRoute and StaticApplication.

Checks, through the WSGI interface and by calling the endpoints directly:
  * exact bytes, Content-Length, Last-Modified, Content-Type, Cache-Control
    for files served by a StaticApplication (several prefixes) and by
    StaticFileRoutes (explicit mimetype or guessed / sniffed);
  * If-Modified-Since before / at / after the file time => 200 / 304 / 304,
    304 has no body; cache_timeout None or 0 turns conditional handling off;
  * the server's wsgi.file_wrapper is used when present;
  * custom default text / binary mimetypes of the application are honoured,
    StaticFileRoute keeps the module defaults;
  * path given as str, list or tuple of segments (empty first segment =>
    absolute => refused), escaping paths => non-breaking Forbidden,
    missing => non-breaking NotFound, overlapping applications fall through;
  * StaticFileRoute checks its file at construction (unless told not to).
Prints PASS and exits 0 on success.
"""
import os
import shutil
import sys
import tempfile

sys.path.insert(0, os.path.dirname(os.path.abspath(__file__)))

from werkzeug.test import EnvironBuilder
from werkzeug.wsgi import FileWrapper

import clastic.static as cs
from clastic import Application, StaticApplication, StaticFileRoute
from clastic.application import Request
from clastic.errors import Forbidden, NotFound

FIXED_MTIME = 1500000000
LAST_MODIFIED = 'Fri, 14 Jul 2017 02:40:00 GMT'
BEFORE = 'Fri, 14 Jul 2017 02:39:59 GMT'
AFTER = 'Sat, 15 Jul 2017 00:00:00 GMT'

FILES = {
    'a.txt': b'alpha\n',
    'empty': b'',
    'page.html': b'<p>hi</p>',
    'noext_text': b'just words',
    'noext_bin': b'\x00\xff\x00\xff' * 10,
    'sub/data.json': b'{"k": 1}',
    u'sub/na\xefve file.txt': b'spaces and accents',
    'sub/deeper/x.y.z': b'dotted',
}


def write(path, data):
    os.makedirs(os.path.dirname(path), exist_ok=True)
    with open(path, 'wb') as f:
        f.write(data)
    os.utime(path, (FIXED_MTIME, FIXED_MTIME))


def make_request(path='/', headers=None, file_wrapper=None):
    environ = EnvironBuilder(path=path, headers=headers or {}).get_environ()
    if file_wrapper is not None:
        environ['wsgi.file_wrapper'] = file_wrapper
    return Request(environ)


class TracingWrapper(FileWrapper):
    instances = []

    def __init__(self, file, buffer_size=8192):
        FileWrapper.__init__(self, file, buffer_size)
        TracingWrapper.instances.append(self)


def body_of(resp):
    return b''.join(resp.response)


def check_application_over_http(root, other):
    sapp = StaticApplication(root)  # a bare string is accepted
    assert sapp.search_paths == [root]
    for prefix in ('/', '/static/', '/deep/er/prefix/'):
        app = Application([(prefix, sapp)])
        client = app.get_local_client()
        for rel, data in sorted(FILES.items()):
            resp = client.get(prefix + rel)
            assert resp.status_code == 200, (prefix, rel, resp.status_code)
            assert resp.data == data
            assert resp.headers['Content-Length'] == str(len(data))
            assert resp.headers['Last-Modified'] == LAST_MODIFIED
            assert resp.headers['Cache-Control'] == 'max-age=360', resp.headers['Cache-Control']
            assert resp.headers['Content-Type']
            # conditional requests
            resp = client.get(prefix + rel, headers={'If-Modified-Since': BEFORE})
            assert resp.status_code == 200 and resp.data == data
            assert 'public' in resp.headers['Cache-Control']
            assert resp.headers['Last-Modified'] == LAST_MODIFIED
            for ims in (LAST_MODIFIED, AFTER):
                resp = client.get(prefix + rel, headers={'If-Modified-Since': ims})
                assert resp.status_code == 304, (rel, ims, resp.status_code)
                assert resp.data == b''
                cc = resp.headers['Cache-Control']
                assert 'public' in cc and 'max-age=360' in cc, cc
            # an unparsable date is no condition at all
            resp = client.get(prefix + rel, headers={'If-Modified-Since': 'yesterday'})
            assert resp.status_code == 200 and resp.data == data
        assert client.get(prefix + 'a.txt').mimetype == 'text/plain'
        assert client.get(prefix + 'page.html').mimetype == 'text/html'
        assert client.get(prefix + 'sub/data.json').mimetype == 'application/json'
        assert client.get(prefix + 'noext_text').mimetype == 'text/plain'
        assert client.get(prefix + 'noext_bin').mimetype == 'application/octet-stream'
        assert client.get(prefix + 'empty').mimetype == 'text/plain'
        for p, want in (('missing', 404), ('sub', 404), ('sub/missing.txt', 404),
                        ('../secret.txt', 403), ('sub/../../secret.txt', 403),
                        ('sub/../a.txt', 200), ('./a.txt', 200), ('..', 403),
                        ('sub/deeper/../../../root/a.txt', 403)):
            resp = client.get(prefix + p)
            assert resp.status_code == want, (prefix, p, resp.status_code)
            assert b'TOP SECRET' not in resp.data

    # caching turned off: If-Modified-Since is ignored, no max-age
    for ct in (None, 0):
        app = Application([('/', StaticApplication([root], cache_timeout=ct))])
        resp = app.get_local_client().get('/a.txt', headers={'If-Modified-Since': AFTER})
        assert resp.status_code == 200 and resp.data == b'alpha\n'
        assert 'max-age' not in resp.headers.get('Cache-Control', '') or ct == 0
    app = Application([('/', StaticApplication([root], cache_timeout=17))])
    resp = app.get_local_client().get('/a.txt', headers={'If-Modified-Since': AFTER})
    assert resp.status_code == 304 and 'max-age=17' in resp.headers['Cache-Control']

    # custom default mimetypes
    custom = StaticApplication([root], default_text_mime='text/x-demo',
                               default_binary_mime='application/x-demo')
    client = Application([('/', custom)]).get_local_client()
    assert client.get('/noext_text').mimetype == 'text/x-demo'
    assert client.get('/empty').mimetype == 'text/x-demo'
    assert client.get('/noext_bin').mimetype == 'application/x-demo'
    assert client.get('/a.txt').mimetype == 'text/plain'

    # overlapping applications are tried in order; first root wins inside one
    app = Application([('/s/', StaticApplication([other])),
                       ('/s/', StaticApplication([root]))])
    client = app.get_local_client()
    assert client.get('/s/a.txt').data == b'other alpha'
    assert client.get('/s/page.html').data == b'<p>hi</p>'
    assert client.get('/s/missing').status_code == 404
    assert client.get('/s/../secret.txt').status_code == 403
    client = Application([('/s/', StaticApplication([root, other]))]).get_local_client()
    assert client.get('/s/a.txt').data == b'alpha\n'
    assert client.get('/s/only_other.txt').data == b'only other'


def check_application_direct(root):
    sapp = StaticApplication([root], default_text_mime='text/x-demo')
    TracingWrapper.instances = []
    req = make_request(file_wrapper=TracingWrapper)
    for path in ('sub/data.json', ['sub', 'data.json'], ('sub', 'data.json'),
                 ['sub', '', '.', 'data.json'], ['sub', 'deeper', '..', 'data.json']):
        resp = sapp.get_file_response(path, req)
        assert resp.status_code == 200
        assert isinstance(resp.response, TracingWrapper), type(resp.response)
        assert body_of(resp) == b'{"k": 1}'
        assert resp.content_length == 8
    assert len(TracingWrapper.instances) == 5
    # without a server-provided wrapper: werkzeug's FileWrapper
    resp = sapp.get_file_response('a.txt', make_request())
    assert type(resp.response) is FileWrapper
    assert body_of(resp) == b'alpha\n'
    resp = sapp.get_file_response('noext_text', make_request())
    assert resp.mimetype == 'text/x-demo'
    # refused: non-breaking Forbidden; missing: non-breaking NotFound
    for path in (['', 'etc', 'passwd'], '/etc/passwd', ['..', 'secret.txt'],
                 ['sub', '..', '..', 'secret.txt'], '../secret.txt', [''] + root.split('/')[1:] + ['a.txt'],
                 ['..'], '..'):
        try:
            sapp.get_file_response(path, req)
        except Forbidden as e:
            assert e.is_breaking is False and e.code == 403
        else:
            raise AssertionError('not refused: %r' % (path,))
    for path in ([], '', ['nope'], 'sub', ['sub'], ['a.txt', 'x'], ['.'], 'a.txt\x00'):
        try:
            sapp.get_file_response(path, req)
        except NotFound as e:
            assert e.is_breaking is False and e.code == 404
        else:
            raise AssertionError('not a 404: %r' % (path,))
    # segments that are not strings: TypeError, not converted (as before)
    try:
        sapp.get_file_response([1, 2], req)
    except TypeError:
        pass
    else:
        raise AssertionError('expected TypeError')
    # conditional, direct
    resp = sapp.get_file_response('a.txt', make_request(headers={'If-Modified-Since': LAST_MODIFIED}))
    assert resp.status_code == 304 and body_of(resp) == b''
    resp = sapp.get_file_response('a.txt', make_request(headers={'If-Modified-Since': BEFORE}))
    assert resp.status_code == 200 and body_of(resp) == b'alpha\n'
    # build_file_response is looked up in the module at call time
    seen = []
    real = cs.build_file_response

    def spy(path, **kwargs):
        seen.append((path, sorted(kwargs)))
        return real(path, **kwargs)
    cs.build_file_response = spy
    try:
        sapp.get_file_response('a.txt', req)
        route = StaticFileRoute('/r', os.path.join(root, 'a.txt'))
        route.get_file_response(req)
    finally:
        cs.build_file_response = real
    assert seen == [(os.path.join(root, 'a.txt'),
                     ['cache_timeout', 'cached_modify_time', 'default_binary_mime',
                      'default_text_mime', 'file_wrapper', 'mimetype']),
                    (os.path.join(root, 'a.txt'),
                     ['cache_timeout', 'cached_modify_time', 'file_wrapper',
                      'mimetype'])], seen


def check_file_route(root):
    a_txt = os.path.join(root, 'a.txt')
    routes = [StaticFileRoute('/plain', a_txt),
              StaticFileRoute('/typed', a_txt, mimetype='application/x-typed'),
              StaticFileRoute('/sniff_text', os.path.join(root, 'noext_text')),
              StaticFileRoute('/sniff_bin', os.path.join(root, 'noext_bin')),
              StaticFileRoute('/nocache', a_txt, cache_timeout=None),
              StaticFileRoute('/short', a_txt, cache_timeout=5),
              StaticFileRoute('/later', os.path.join(root, 'later.txt'), check_file=False),
              StaticFileRoute('/fallthrough', os.path.join(root, 'later.txt'), check_file=False),
              ('/fallthrough', lambda: 'second route', lambda context: cs.Response(context))]
    assert routes[0].file_path == a_txt and routes[0].cache_timeout == 360
    assert routes[1].mimetype == 'application/x-typed' and routes[0].mimetype is None
    client = Application(routes).get_local_client()
    resp = client.get('/plain')
    assert resp.status_code == 200 and resp.data == b'alpha\n'
    assert resp.mimetype == 'text/plain'
    assert resp.headers['Content-Length'] == '6'
    assert resp.headers['Last-Modified'] == LAST_MODIFIED
    assert resp.headers['Cache-Control'] == 'max-age=360'
    resp = client.get('/typed')
    assert resp.mimetype == 'application/x-typed' and resp.data == b'alpha\n'
    assert client.get('/sniff_text').mimetype == 'text/plain'
    assert client.get('/sniff_bin').mimetype == 'application/octet-stream'
    for url in ('/plain', '/typed', '/short'):
        assert client.get(url, headers={'If-Modified-Since': BEFORE}).status_code == 200
        for ims in (LAST_MODIFIED, AFTER):
            resp = client.get(url, headers={'If-Modified-Since': ims})
            assert resp.status_code == 304 and resp.data == b''
    assert 'max-age=5' in client.get('/short', headers={'If-Modified-Since': AFTER}).headers['Cache-Control']
    resp = client.get('/nocache', headers={'If-Modified-Since': AFTER})
    assert resp.status_code == 200 and resp.data == b'alpha\n'
    # unchecked, missing file: a non-breaking 404; appears once the file exists
    assert client.get('/later').status_code == 404
    resp = client.get('/fallthrough')
    assert resp.status_code == 200 and resp.data == b'second route'
    assert client.get('/later', headers={'If-Modified-Since': AFTER}).status_code == 403
    write(os.path.join(root, 'later.txt'), b'here now')
    try:
        assert client.get('/later').data == b'here now'
        assert client.get('/fallthrough').data == b'here now'
    finally:
        os.remove(os.path.join(root, 'later.txt'))
    # the server's file wrapper, direct call
    TracingWrapper.instances = []
    resp = routes[0].get_file_response(make_request(file_wrapper=TracingWrapper))
    assert isinstance(resp.response, TracingWrapper) and body_of(resp) == b'alpha\n'
    resp = routes[0].get_file_response(make_request())
    assert type(resp.response) is FileWrapper
    # construction-time check
    for bad in (os.path.join(root, 'missing.txt'), root):
        try:
            StaticFileRoute('/bad', bad)
        except (IOError, OSError):
            pass
        else:
            raise AssertionError('construction should fail for %r' % bad)
    StaticFileRoute('/bad', os.path.join(root, 'missing.txt'), check_file=False)


def main():
    top = tempfile.mkdtemp(prefix='c14demo3_')
    try:
        root = os.path.join(top, 'root')
        other = os.path.join(top, 'other')
        for rel, data in FILES.items():
            write(os.path.join(root, rel), data)
        write(os.path.join(other, 'a.txt'), b'other alpha')
        write(os.path.join(other, 'only_other.txt'), b'only other')
        write(os.path.join(top, 'secret.txt'), b'TOP SECRET')
        check_application_over_http(root, other)
        check_application_direct(root)
        check_file_route(root)
    finally:
        shutil.rmtree(top, ignore_errors=True)
    print('PASS')


if __name__ == '__main__':
    main()
