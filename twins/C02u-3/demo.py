# -*- coding: utf-8 -*-
"""demo3: every injected argument comes from its one declared source.

Focus: BoundRoute binding -- the resources, middlewares, render function
and "provided" names a bound route is compiled against, including
re-binding through SubApplications, and what execute()/execute_error()
then hand to each function.
"""
import os
import sys

sys.path.insert(0, os.path.dirname(os.path.abspath(__file__)))

from clastic import (Application, SubApplication, Route, GET, Middleware,
                     Response)
from clastic.route import BoundRoute, _noop_render
from clastic.errors import NotFound

assert os.path.dirname(os.path.abspath(__file__)) in sys.modules['clastic'].__file__


class S(object):
    def __init__(self, label):
        self.label = label

    def __repr__(self):
        return '<S %s>' % self.label


def expect(exc_type, func, *a, **kw):
    try:
        func(*a, **kw)
    except exc_type as e:
        return e
    except Exception as e:
        raise AssertionError('expected %s, got %r' % (exc_type.__name__, e))
    raise AssertionError('expected %s, nothing raised' % exc_type.__name__)


# ------------------------------------------------------------- resources

def test_resources():
    got = {}
    app_db, route_db, shared_app, shared_route = (S('app_db'), S('route_db'),
                                                  S('shared@app'), S('shared@route'))

    def ep(app_db, shared, route_db='unset', elsewhere=None):
        got.update(app_db=app_db, shared=shared, route_db=route_db,
                   elsewhere=elsewhere)
        return Response('ok')

    app_res = {'app_db': app_db, 'shared': shared_app}
    route_res = {'route_db': route_db, 'shared': shared_route}
    r_with = Route('/with', ep, resources=route_res)
    r_without = Route('/without', ep)
    app = Application([r_with, r_without], resources=app_res)
    cl = app.get_local_client()

    assert cl.get('/with').status_code == 200
    assert got['app_db'] is app_db and got['route_db'] is route_db
    # (Application.dispatch passes its own resources as explicit keywords,
    # which take precedence over the bound route's merged resources)
    assert got['shared'] is shared_app
    assert got['elsewhere'] is None
    got.clear()
    assert app.routes[0].execute(S('req')).status_code == 200
    assert got['shared'] is shared_route          # bound route alone: its own wins
    assert got['app_db'] is app_db and got['route_db'] is route_db
    got.clear()
    assert cl.get('/without').status_code == 200
    assert got['app_db'] is app_db and got['shared'] is shared_app
    assert got['route_db'] == 'unset'             # not offered here -> default

    b_with, b_without = app.routes
    assert b_with.resources == dict(app_db=app_db, route_db=route_db,
                                    shared=shared_route)
    assert b_without.resources == app_res
    # merged copies: neither the app's nor the route's dict is aliased/changed
    assert b_with.resources is not app.resources
    assert b_without.resources is not app.resources
    assert b_with.resources is not r_with.resources
    assert app.resources == app_res and r_with.resources == route_res
    assert r_without.resources == {}

    # re-binding into an outer app: outer resources below the carried ones
    outer_only, outer_shared = S('outer_only'), S('shared@outer')

    def ep2(outer_only, shared, app_db):
        got.update(outer_only=outer_only, shared=shared, app_db=app_db)
        return Response('ok2')
    expect(NameError, Application, [Route('/e', ep2)])    # nothing offers them
    # an inner app alone cannot satisfy outer_only
    e = expect(NameError, Application, [Route('/e', ep2)], resources=app_res)
    assert 'outer_only' in str(e)
    inner_ok = Application([Route('/e', ep2)],
                           resources=dict(app_res, outer_only=S('inner')))
    outer = Application([('/sub', inner_ok)],
                        resources={'outer_only': outer_only,
                                   'shared': outer_shared})
    got.clear()
    assert outer.get_local_client().get('/sub/e').data == b'ok2'
    # dispatching app's resources are explicit keywords (see above) ...
    assert got['outer_only'] is outer_only
    assert got['shared'] is outer_shared and got['app_db'] is app_db
    sub_route = outer.routes[0]
    # ... while in the bound route's own table the carried resource wins
    assert sub_route.resources['outer_only'].label == 'inner'
    assert sub_route.resources['shared'] is shared_app
    assert sub_route.resources['app_db'] is app_db
    got.clear()
    assert sub_route.execute(S('req')).data == b'ok2'
    assert got['outer_only'].label == 'inner' and got['shared'] is shared_app
    assert sub_route.bound_apps == [inner_ok, outer]
    assert sub_route.unbound_route is inner_ok.routes[0].unbound_route


# ----------------------------------------------------------- middlewares

def test_middlewares():
    trace = []

    class AppMW(Middleware):
        provides = ('from_app',)

        def request(self, next, request):
            trace.append('app')
            return next(from_app=v_app)

    class RouteMW(Middleware):
        provides = ('from_route',)

        def request(self, next, from_app, res):
            trace.append(('route', from_app, res))
            return next(from_route=v_route)

    v_app, v_route, res = S('from_app'), S('from_route'), S('res')
    got = {}

    def ep(from_app, from_route, res):
        got.update(from_app=from_app, from_route=from_route, res=res)
        return Response('ok')

    app_mw, route_mw = AppMW(), RouteMW()
    app = Application([Route('/m', ep, middlewares=[route_mw])],
                      resources={'res': res}, middlewares=[app_mw])
    br = app.routes[0]
    assert type(br.middlewares) is tuple
    assert br.middlewares == (app_mw, route_mw)
    assert br.middlewares[0] is app_mw and br.middlewares[1] is route_mw
    assert app.get_local_client().get('/m').data == b'ok'
    assert trace == ['app', ('route', v_app, res)]
    assert got == dict(from_app=v_app, from_route=v_route, res=res)
    assert got['res'] is res

    # duplicate unique middleware: app-level instance kept once
    app2 = Application([Route('/m', ep, middlewares=[AppMW(), route_mw])],
                       resources={'res': res}, middlewares=[app_mw])
    assert app2.routes[0].middlewares == (app_mw, route_mw)
    assert app2.routes[0].middlewares[0] is app_mw

    class Rigid(AppMW):
        reorderable = False
    e = expect(ValueError, Application,
               [Route('/m', ep, middlewares=[Rigid(), route_mw])],
               resources={'res': res}, middlewares=[Rigid()])
    assert 'multiple inclusion of unique middleware' in str(e)

    # a middleware may not provide what url / builtins / resources provide
    class Clash(Middleware):
        def request(self, next):
            return next()
    for name, pattern in [('res', '/m'), ('request', '/m'), ('context', '/m'),
                          ('seg', '/m/<seg>')]:
        mw = Clash()
        mw.provides = (name,)
        e = expect(NameError, Application,
                   [Route(pattern, lambda: Response('x'), middlewares=[mw])],
                   resources={'res': res})
        assert 'conflicting provides' in str(e) and repr(name) in str(e)

    # unresolved endpoint argument is a bind-time NameError
    e = expect(NameError, Application, [Route('/m', ep)], resources={'res': res})
    assert 'unresolved' in str(e)
    req_args = app.routes[0].get_required_args()
    assert sorted(req_args) == ['from_app', 'from_route', 'res'], req_args
    assert app.routes[0].is_required_arg('res')


# ---------------------------------------------------------------- render

def make_factory(tag):
    def factory(arg):
        def render(context, request):
            return Response('%s:%s:%s' % (tag, arg, context))
        render.tag = (tag, arg)
        return render
    factory.tag = tag
    return factory


def test_render_selection():
    rf_a, rf_b = make_factory('A'), make_factory('B')
    seen = {}

    def ep(request):
        seen['request'] = request
        return 'ctx'

    def explicit(context, request, res):
        seen['explicit'] = dict(context=context, request=request, res=res)
        return Response('explicit')

    res = S('res')
    routes = [Route('/t', ep, 'tmpl'), Route('/n', ep, None),
              Route('/c', ep, explicit), Route('/z', ep, 0), Route('/s', ep, '')]
    inner = Application(routes, resources={'res': res}, render_factory=rf_a)
    t, n, c, z, s = inner.routes
    assert t.render.tag == ('A', 'tmpl') and t.render_factory is rf_a
    assert n.render is _noop_render and n.render_factory is None
    assert c.render is explicit and c.render_factory is None
    assert z.render.tag == ('A', 0) and z.render_factory is rf_a
    assert s.render.tag == ('A', '') and s.render_factory is rf_a
    assert [r.render_arg for r in inner.routes] == ['tmpl', None, explicit, 0, '']

    cl = inner.get_local_client()
    assert cl.get('/t').data == b'A:tmpl:ctx'
    assert cl.get('/c').data == b'explicit'
    assert seen['explicit']['context'] == 'ctx'
    assert seen['explicit']['res'] is res
    assert seen['explicit']['request'] is seen['request']
    assert cl.get('/n').status_code == 500     # noop render: 'ctx' is no Response

    for rebind, tag in ((False, 'A'), (True, 'B')):
        outer = Application([SubApplication('/in', inner, rebind_render=rebind)],
                            render_factory=rf_b)
        ot, on, oc, oz, os_ = outer.routes
        assert ot.render.tag == (tag, 'tmpl'), (rebind, ot.render.tag)
        assert ot.render_factory.tag == tag
        if not rebind:
            assert ot.render is t.render            # carried through, same object
        assert on.render is _noop_render and on.render_factory is None
        assert oc.render is explicit and oc.render_factory is None
        assert oz.render.tag == (tag, 0) and os_.render.tag == (tag, '')
        assert outer.get_local_client().get('/in/t').data == \
            ('%s:tmpl:ctx' % tag).encode()

    # outer app without a factory: rebinding falls back to the inner factory
    outer = Application([SubApplication('/in', inner, rebind_render=True)])
    assert outer.routes[0].render.tag == ('A', 'tmpl')
    assert outer.routes[0].render is not t.render    # re-created by rf_a
    assert outer.routes[0].render_factory is rf_a
    assert outer.routes[1].render is _noop_render

    # no factory anywhere: a non-callable render argument means noop
    bare = Application([Route('/t', ep, 'tmpl')])
    assert bare.routes[0].render is _noop_render
    assert bare.routes[0].render_factory is None
    # and a later app with a factory picks the argument up again
    late = Application([('/x', bare)], render_factory=rf_b)
    assert late.routes[0].render.tag == ('B', 'tmpl')
    assert late.routes[0].render_factory is rf_b

    # a factory that fails, fails at bind time with its own exception
    def bad_factory(arg):
        raise KeyError(arg)
    expect(KeyError, Application, [Route('/t', ep, 'tmpl')],
           render_factory=bad_factory)
    Application([Route('/c', ep, explicit)], resources={'res': res},
                render_factory=bad_factory)      # not consulted for callables

    # unknown bind options
    e = expect(TypeError, BoundRoute, routes[0], inner, bogus=1)
    assert 'unexpected keyword args' in str(e)


# ---------------------------------------------------------- render_error

def test_render_error():
    seen = {}
    res = S('res')

    def route_render_error(request, _error, res, _route, **kwargs):
        seen['re'] = dict(request=request, _error=_error, res=res,
                          _route=_route, kwargs=kwargs)
        return Response('custom error', status=_error.code)

    def ep(request):
        seen['request'] = request
        raise NotFound()

    route = Route('/e', ep, render_error=route_render_error, resources={'res': res})
    app = Application([route])
    br = app.routes[0]
    # rebind_render_error defaults to True: the app's error handler wins
    assert br.render_error == app.error_handler.render_error
    kept = BoundRoute(route, app, rebind_render_error=False)
    assert kept.render_error is route_render_error
    rekept = BoundRoute(kept, app, rebind_render_error=False)
    assert rekept.render_error is route_render_error
    assert rekept.bound_apps == [app, app] and rekept.unbound_route is route

    err = NotFound()
    req = S('request')
    resp = kept.execute_error(req, err, extra=S('extra'), _dispatch_state=S('ds'))
    assert resp.status_code == 404
    got = seen['re']
    assert got['request'] is req and got['_error'] is err
    assert got['res'] is res and got['_route'] is kept
    assert sorted(got['kwargs']) == ['_application', '_dispatch_state', 'extra']
    assert got['kwargs']['_application'] is app

    # render_error with unresolvable arguments is refused when checked
    def needs_more(request, _error, nowhere):
        pass
    bad = Route('/e', ep)
    bad.render_error = needs_more
    e = expect(NameError, BoundRoute, bad, app, rebind_render_error=False)
    assert 'unresolved render_error() arguments' in str(e) and 'nowhere' in str(e)
    assert BoundRoute(bad, app).render_error == app.error_handler.render_error

    # non-callable render_error is carried but unusable
    bad.render_error = None
    nb = BoundRoute(bad, app, rebind_render_error=False)
    assert nb.render_error is None
    expect(TypeError, nb.execute_error, req, err)


# ---------------------------------------------------- end to end injection

def test_end_to_end():
    log = []
    res_a, res_b = S('res_a'), S('res_b')

    class MW(Middleware):
        provides = ('tok',)
        endpoint_provides = ('ep_tok',)
        render_provides = ('rn_tok',)

        def __init__(self):
            self.n = 0

        def request(self, next, request, _route, res_a):
            self.n += 1
            self.tok = S('tok%d' % self.n)
            log.append(('mw.request', request, _route, res_a))
            return next(tok=self.tok)

        def endpoint(self, next, tok, a):
            self.ep_tok = S('ep_tok%d' % self.n)
            log.append(('mw.endpoint', tok, a))
            return next(ep_tok=self.ep_tok)

        def render(self, next, context, tok):
            self.rn_tok = S('rn_tok%d' % self.n)
            log.append(('mw.render', context, tok))
            return next(rn_tok=self.rn_tok)

    def ep(a, b, tok, ep_tok, res_a, res_b, _application, dflt=0, other=None):
        log.append(('ep', dict(a=a, b=b, tok=tok, ep_tok=ep_tok, res_a=res_a,
                               res_b=res_b, _application=_application,
                               dflt=dflt, other=other)))
        return {'a': a}

    def render(context, rn_tok, tok, res_b, b=None):
        log.append(('render', dict(context=context, rn_tok=rn_tok, tok=tok,
                                   res_b=res_b, b=b)))
        return Response('done')

    mw = MW()
    app = Application([GET('/p/<a:int>/<b*>', ep, render, middlewares=[mw])],
                      resources={'res_a': res_a, 'res_b': res_b})
    route = app.routes[0]
    cl = app.get_local_client()
    for i, (path, a, b) in enumerate([('/p/0', 0, []), ('/p/5/x/y', 5, ['x', 'y'])]):
        del log[:]
        assert cl.get(path).data == b'done'
        names = [entry[0] for entry in log]
        assert names == ['mw.request', 'mw.endpoint', 'ep', 'mw.render', 'render']
        _, req, rt, ra = log[0]
        assert rt is route and ra is res_a
        assert log[1] == ('mw.endpoint', mw.tok, a)
        epkw = log[2][1]
        assert epkw == dict(a=a, b=b, tok=mw.tok, ep_tok=mw.ep_tok, res_a=res_a,
                            res_b=res_b, _application=app, dflt=0, other=None)
        assert epkw['res_a'] is res_a and epkw['res_b'] is res_b
        assert log[3] == ('mw.render', {'a': a}, mw.tok)
        rnkw = log[4][1]
        assert rnkw == dict(context={'a': a}, rn_tok=mw.rn_tok, tok=mw.tok,
                            res_b=res_b, b=b)
        assert mw.tok.label == 'tok%d' % (i + 1)

    # direct execute(): explicit keyword values override resources
    del log[:]
    override = S('override')
    resp = route.execute(S('req'), a=1, b=[], res_b=override,
                         _dispatch_state=None)
    assert resp.data == b'done'
    assert log[2][1]['res_b'] is override and log[2][1]['res_a'] is res_a
    assert log[4][1]['res_b'] is override


if __name__ == '__main__':
    test_resources()
    test_middlewares()
    test_render_selection()
    test_render_error()
    test_end_to_end()
    print('PASS')
