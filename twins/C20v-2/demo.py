# -*- coding: utf-8 -*-
"""demo2: the monitored file lists on the Flaw failsafe page (all files,
hidden, and the files outside the stdlib / werkzeug / clastic, visible),
for many file lists, error texts, and for broken environments.

Prints PASS and exits 0 when every check holds.
"""
import ast
import html
import os
import random
import re
import sys
import types
import warnings

warnings.simplefilter('ignore')

import werkzeug  # noqa: E402
import clastic  # noqa: E402
from clastic import flaw  # noqa: E402
from clastic.flaw import create_app, _filter_site_files  # noqa: E402

CHECKS = [0]


def check(cond, *info):
    CHECKS[0] += 1
    if not cond:
        print('FAIL', *[repr(i)[:400] for i in info])
        sys.exit(1)


def esc(text):
    return html.escape(str(text), True)


STDLIB_DIR = os.path.dirname(ast.__file__)
OS_DIR = os.path.dirname(os.__file__)
WERKZEUG_DIR = os.path.dirname(werkzeug.__file__)
CLASTIC_DIR = os.path.dirname(clastic.__file__)
ALL_DIRS = [STDLIB_DIR, OS_DIR, WERKZEUG_DIR, CLASTIC_DIR]


def model_filter(paths, dirs=ALL_DIRS):
    """The specification: drop what textually starts with one of the dirs."""
    return [p for p in (paths or [])
            if not any(p.startswith(d) for d in dirs)]


VISIBLE_RE = re.compile(r'<ul>(.*?)</ul>', re.S)
HIDDEN_RE = re.compile(r'<ul id="all_files" style="display:none;">(.*?)</ul>',
                       re.S)


def li(names):
    return ''.join('<li>%s</li>' % esc(n) for n in names)


TB = '''Traceback (most recent call last):
  File "example.py", line 2, in <module>
    plarp
NameError: name 'plarp' is not defined
'''

USER_FILES = ['/home/me/proj/app.py', '/home/me/proj/<b>views</b>.py',
              'relative.py', '', ' ', '/home/me/proj/a&b "q" \'s\'.py',
              '{tb_str}.py', '{#mon_files}x{/mon_files}', 'é中.py',
              STDLIB_DIR + '-extra/x.py',   # textual prefix only: dropped too
              os.path.dirname(STDLIB_DIR) + '/other.py',
              STDLIB_DIR.upper() + '/x.py' if STDLIB_DIR.upper() != STDLIB_DIR
              else '/UPPER/x.py']
SITE_FILES = [ast.__file__, os.__file__, werkzeug.__file__, clastic.__file__,
              flaw.__file__, os.path.join(STDLIB_DIR, 'json', '__init__.py'),
              os.path.join(WERKZEUG_DIR, 'routing', 'map.py'),
              os.path.join(CLASTIC_DIR, '_clastic_assets', 'common.css'),
              STDLIB_DIR, WERKZEUG_DIR, CLASTIC_DIR]

# --- _filter_site_files itself -------------------------------------------

for empty in (None, [], (), ''):
    res = _filter_site_files(empty)
    check(res == [] and type(res) is list, empty, res)
fresh1, fresh2 = _filter_site_files(None), _filter_site_files([])
check(fresh1 is not fresh2)

for fn in SITE_FILES:
    check(_filter_site_files([fn]) == [], fn)
for fn in USER_FILES:
    check(_filter_site_files([fn]) == model_filter([fn]), fn)
check(_filter_site_files(USER_FILES[:9]) == USER_FILES[:9])

rng = random.Random(2020)
pool = USER_FILES + SITE_FILES
for _ in range(300):
    paths = [rng.choice(pool) for _ in range(rng.randint(1, 25))]
    snapshot = list(paths)
    res = _filter_site_files(paths)
    check(res == model_filter(paths), paths, res)
    check(res is not paths and paths == snapshot)   # new list, input untouched
    as_tuple = _filter_site_files(tuple(paths))
    check(as_tuple == res and type(as_tuple) is list)

# file names that are not text cannot be compared with the directories
for bad, exc_type in (([b'/x.py'], TypeError), (['/ok.py', None], AttributeError),
                      ([5], AttributeError), ([ast.__file__, b'x'], TypeError)):
    try:
        _filter_site_files(bad)
    except Exception as e:
        check(type(e) is exc_type, bad, e)
    else:
        check(False, 'no exception', bad)

# --- broken environments: werkzeug / clastic cannot be located -----------


def with_module(name, replacement, func):
    saved = sys.modules[name]
    sys.modules[name] = replacement
    try:
        return func()
    finally:
        sys.modules[name] = saved


nofile = types.ModuleType('nofile')
nonefile = types.ModuleType('nonefile')
nonefile.__file__ = None
elsewhere = types.ModuleType('elsewhere')
elsewhere.__file__ = '/home/me/proj/__init__.py'
sample = USER_FILES + SITE_FILES

for broken in (None, nofile, nonefile):
    res = with_module('werkzeug', broken, lambda: _filter_site_files(sample))
    check(res == model_filter(sample, [STDLIB_DIR, OS_DIR, CLASTIC_DIR]), res)
    check(werkzeug.__file__ in res or WERKZEUG_DIR.startswith(STDLIB_DIR))
    res = with_module('clastic', broken, lambda: _filter_site_files(sample))
    check(res == model_filter(sample, [STDLIB_DIR, OS_DIR, WERKZEUG_DIR]), res)
    check(flaw.__file__ in res)
res = with_module('werkzeug', elsewhere, lambda: _filter_site_files(sample))
check(res == model_filter(sample, [STDLIB_DIR, OS_DIR, '/home/me/proj',
                                   CLASTIC_DIR]), res)
res = with_module('clastic', elsewhere, lambda: _filter_site_files(sample))
check(res == model_filter(sample, [STDLIB_DIR, OS_DIR, WERKZEUG_DIR,
                                   '/home/me/proj']), res)
check(sys.modules['werkzeug'] is werkzeug and sys.modules['clastic'] is clastic)
check(_filter_site_files(sample) == model_filter(sample))

# --- the page --------------------------------------------------------------

ERROR_TEXTS = [TB, '', None, 'not a traceback', '<script>x</script>',
               '{#mon_files}{.}{/mon_files}', b'bytes <b>',
               '  File "bad.py", line 7\n    def f(:\n          ^\n'
               'SyntaxError: invalid syntax\n']


def check_page(tb, files):
    given = files
    expected_all = sorted(files, key=len) if files else (files or [])
    app = create_app(tb, files)
    if files:
        # the caller's list is sorted in place (stable, by length) ...
        check(files is given and files == expected_all, files)
    # ... and handed on as it is; the filtered list is what is shown
    check(app.resources['all_mon_files'] is given)
    check(app.resources['mon_files'] == model_filter(expected_all))
    check(app.resources['tb_str'] is tb)
    client = app.get_local_client()
    pages = set()
    for path in ('/', '/x', '/deep/er/path/', '/clastic_assetsX'):
        resp = client.get(path)
        check(resp.status_code == 200, path, resp.status_code)
        pages.add(resp.get_data(True))
    check(len(pages) == 1)
    page = pages.pop()
    visible = VISIBLE_RE.findall(page)
    hidden = HIDDEN_RE.findall(page)
    check(len(hidden) == 1 and len(visible) >= 1, page)
    check(hidden[0] == li(expected_all), hidden, expected_all)
    check(visible[-1] == li(model_filter(expected_all)), visible)
    if tb:
        check('<pre>%s</pre>' % esc(tb) in page, tb)
    else:
        check('<pre></pre>' in page, tb)
    return page


for tb in ERROR_TEXTS:
    check_page(tb, None)
    check_page(tb, [])
    check_page(tb, list(USER_FILES))
    check_page(tb, list(SITE_FILES))
    check_page(tb, [flaw.__file__])
    long_list = ['/home/me/proj/mod_%d.py' % i for i in range(400)] + SITE_FILES
    rng.shuffle(long_list)
    check_page(tb, long_list)
    for _ in range(10):
        check_page(tb, [rng.choice(pool) for _ in range(rng.randint(1, 12))])

page = check_page(TB, ['/home/me/proj/<b>views</b>.py', werkzeug.__file__])
check('<b>views</b>' not in page and '&lt;b&gt;views&lt;/b&gt;' in page)
check('NameError' in page and 'parsed-error-h2' in page)

# a tuple cannot be sorted in place: that start-up failure is not hidden
try:
    create_app(TB, ('b.py', 'a.py'))
except AttributeError:
    check(True)
else:
    check(False, 'tuple accepted')

print('PASS (%d checks)' % CHECKS[0])
