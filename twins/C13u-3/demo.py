# -*- coding: utf-8 -*-
"""demo3: Application.dispatch -- slash handling (redirect / strict /
rewrite), method matching, RerouteWSGI and error fall-through, observed at
the WSGI level through wsgiref.validate and a recording start_response.
"""
import io
import sys
import warnings
from wsgiref.validate import validator

warnings.simplefilter('ignore')

from clastic import Application, Response, render_basic, GET, POST, Route
from clastic import S_REDIRECT, S_STRICT, S_REWRITE
from clastic.application import RerouteWSGI
from clastic.errors import NotFound, BadRequest, Forbidden, ErrorHandler
from clastic.middleware import Middleware


def make_environ(path='/', method='GET', query='', body=b'', headers=None,
                 script_name=''):
    env = {'REQUEST_METHOD': method,
           'SCRIPT_NAME': script_name,
           'PATH_INFO': path,
           'QUERY_STRING': query,
           'SERVER_NAME': 'localhost',
           'SERVER_PORT': '80',
           'SERVER_PROTOCOL': 'HTTP/1.1',
           'HTTP_HOST': 'localhost',
           'wsgi.version': (1, 0),
           'wsgi.url_scheme': 'http',
           'wsgi.input': io.BytesIO(body),
           'wsgi.errors': io.StringIO(),
           'wsgi.multithread': False,
           'wsgi.multiprocess': False,
           'wsgi.run_once': False}
    if body or method == 'POST':
        env['CONTENT_LENGTH'] = str(len(body))
        env['CONTENT_TYPE'] = 'text/plain'
    env.update(headers or {})
    return env


def call_wsgi(app, environ=None, **kw):
    if environ is None:
        environ = make_environ(**kw)
    calls = []
    chunks = []

    def start_response(status, headers, exc_info=None):
        assert not chunks, 'start_response after body bytes'
        calls.append((status, list(headers)))
        return chunks.append

    app_iter = validator(app)(environ, start_response)
    try:
        for chunk in app_iter:
            assert calls, 'body bytes before start_response'
            assert isinstance(chunk, bytes)
            chunks.append(chunk)
    finally:
        app_iter.close()
    assert len(calls) == 1, 'start_response called %r times' % len(calls)
    status, headers = calls[0]
    assert isinstance(status, str) and status[:3].isdigit() and status[3] == ' '
    for k, v in headers:
        assert type(k) is str and type(v) is str, (k, v)
    body = b''.join(chunks)
    if environ['REQUEST_METHOD'] == 'HEAD':
        assert body == b'', body
    return status, headers, body


def hget(headers, name):
    vals = [v for k, v in headers if k.lower() == name.lower()]
    assert len(vals) <= 1, (name, vals)
    return vals[0] if vals else None


def text(s):
    return Response(s, mimetype='text/plain')


def make_app(slash_mode, **kw):
    def branch(request):
        return text('branch:' + request.path)

    def leaf(request):
        return text('leaf:' + request.path)

    def item(request, name):
        return text('item:' + name)

    def deep(request, parts):
        return text('deep:' + '|'.join(parts))

    def root(request):
        return text('root')

    routes = [('/', root),
              ('/dir/', branch),
              ('/leaf', leaf),
              ('/items/<name>/', item),
              ('/deep/<parts+>/', deep)]
    return Application(routes, slash_mode=slash_mode, **kw)


def check_slashes():
    redir = make_app(S_REDIRECT)
    strict = make_app(S_STRICT)
    rewrite = make_app(S_REWRITE)

    # paths already in normal form: same answer in all modes
    for app in (redir, strict, rewrite):
        for method in ('GET', 'HEAD', 'POST', 'OPTIONS'):
            for path, expected in [('/', b'root'), ('/dir/', b'branch:/dir/'),
                                   ('/leaf', b'leaf:/leaf'),
                                   ('/items/x/', b'item:x'),
                                   ('/deep/a/b/c/', b'deep:a|b|c')]:
                st, hd, body = call_wsgi(app, path=path, method=method,
                                         query='a=1')
                assert st == '200 OK', (path, method, st)
                if method != 'HEAD':
                    assert body == expected, (path, body)
            st, hd, body = call_wsgi(app, path='/nothing/here', method=method)
            assert st.startswith('404'), st

    # S_REDIRECT: a Location on the same host, path re-quoted, query kept
    redirect_cases = [
        # (path_info, query_string, script_name, host header, expected Location)
        ('/dir', '', '', None, 'http://localhost/dir/'),
        ('/dir', 'a=1&b=2', '', None, 'http://localhost/dir/?a=1&b=2'),
        ('//dir', '', '', None, 'http://localhost/dir/'),
        ('/dir//', 'x', '', None, 'http://localhost/dir/?x'),
        ('//dir//', 'q=a%20b+c', '', None, 'http://localhost/dir/?q=a%20b+c'),
        ('/dir', 'next=/dir/?x=1#frag', '', None,
         'http://localhost/dir/?next=/dir/?x=1#frag'),
        ('/dir', 'a=1', '/mount', None, 'http://localhost/mount/dir/?a=1'),
        ('/dir', 'a=1', '', 'example.com:8080', 'http://example.com:8080/dir/?a=1'),
        ('/items/x', '', '', None, 'http://localhost/items/x/'),
        ('/items/a?b', 'k=v', '', None, 'http://localhost/items/a%3Fb/?k=v'),
        ('/items/a#b', '', '', None, 'http://localhost/items/a%23b/'),
        ('/items/50%', '', '', None, 'http://localhost/items/50%25/'),
        ('/items/a b', '', '', None, 'http://localhost/items/a%20b/'),
        ('/deep/a//b/c', 'z', '', None, 'http://localhost/deep/a/b/c/?z'),
        # utf8 query text (WSGI hands it over as latin-1 decoded bytes)
        ('/dir', u'q=\xe9'.encode('utf8').decode('latin-1'), '', None,
         None),
        # query bytes which are not utf8: percent-encoded, nothing dropped
        ('/dir', 'q=\xff\xfe&ok=1', '', None, 'http://localhost/dir/?q=%FF%FE&ok=1'),
        ('/dir', 'q=%FF\xff', '', None, 'http://localhost/dir/?q=%FF%FF'),
        # utf8 path segment
        (u'/items/\xe9'.encode('utf8').decode('latin-1'), '', '', None,
         'http://localhost/items/%C3%A9/'),
    ]
    for path, query, script_name, host, expected in redirect_cases:
        for method in ('GET', 'HEAD', 'POST', 'OPTIONS'):
            headers = {'HTTP_HOST': host} if host else None
            st, hd, body = call_wsgi(redir, path=path, query=query, method=method,
                                     script_name=script_name, headers=headers)
            assert st.startswith('302'), (path, st)
            loc = hget(hd, 'Location')
            assert type(loc) is str
            if expected is None:
                # werkzeug iri-to-uri's the unicode query
                assert loc in ('http://localhost/dir/?q=%C3%A9',
                               u'http://localhost/dir/?q=\xe9'), loc
            else:
                assert loc == expected, (path, query, loc, expected)
            if method != 'HEAD':
                assert b'Redirecting' in body or b'redirect' in body.lower()

    # leaf routes never redirect: the (lenient or strict) pattern decides
    for app, code in ((redir, '200'), (strict, '404')):
        st, hd, body = call_wsgi(app, path='/leaf/')
        assert st.startswith(code), (app.slash_mode, st)
        assert hget(hd, 'Location') is None

    # S_STRICT: 404 instead of a redirect, no Location
    for path in ('/dir', '/items/x', '/deep/a/b'):
        for method in ('GET', 'HEAD', 'POST'):
            st, hd, body = call_wsgi(strict, path=path, method=method, query='a=1')
            assert st.startswith('404'), (path, st)
            assert hget(hd, 'Location') is None

    # S_REWRITE: served in place
    for path, expected in [('/dir', b'branch:/dir'), ('//dir//', b'branch:/dir//'),
                           ('/items/x', b'item:x'), ('/deep/a//b', b'deep:a||b'),
                           ('/leaf/', b'leaf:/leaf/')]:
        st, hd, body = call_wsgi(rewrite, path=path, query='\xff')
        assert st == '200 OK', (path, st)
        assert body == expected, (path, body)

    # per-route slash modes inside one application, first match decides;
    # a strict miss falls through to later routes
    def first(request):
        return text('first')

    def second(request):
        return text('second')

    mixed = Application([Route('/m/', first, slash_mode=S_STRICT),
                         Route('/m/', second, slash_mode=S_REWRITE),
                         Route('/n/', first, slash_mode=S_REWRITE),
                         Route('/n/', second, slash_mode=S_REDIRECT),
                         Route('/o/', first, slash_mode=S_REDIRECT),
                         Route('/o/', second, slash_mode=S_REWRITE)])
    # routes bound with inherit_slashes take the app's mode unless told otherwise
    for path in ('/m', '/n', '/o'):
        st, hd, body = call_wsgi(mixed, path=path)
        assert st.startswith('302'), (path, st)   # all inherit S_REDIRECT
    mixed2 = Application([])
    for rt in [Route('/m/', first, slash_mode=S_STRICT),
               Route('/m/', second, slash_mode=S_REWRITE),
               Route('/n/', first, slash_mode=S_REWRITE),
               Route('/n/', second, slash_mode=S_REDIRECT),
               Route('/o/', first, slash_mode=S_REDIRECT),
               Route('/o/', second, slash_mode=S_REWRITE),
               Route('/p/', first, slash_mode=S_STRICT)]:
        mixed2.add(rt, inherit_slashes=False)
    st, hd, body = call_wsgi(mixed2, path='/m/')
    assert (st, body) == ('200 OK', b'first')
    st, hd, body = call_wsgi(mixed2, path='/m')
    assert (st, body) == ('200 OK', b'second'), (st, body)
    st, hd, body = call_wsgi(mixed2, path='/n')
    assert (st, body) == ('200 OK', b'first')
    st, hd, body = call_wsgi(mixed2, path='/o', query='k')
    assert st.startswith('302') and hget(hd, 'Location') == 'http://localhost/o/?k'
    st, hd, body = call_wsgi(mixed2, path='/p')
    assert st.startswith('404')
    st, hd, body = call_wsgi(mixed2, path='/p/')
    assert (st, body) == ('200 OK', b'first')


def check_methods_and_errors():
    seen = []

    def get_only(request):
        return text('got')

    def post_only(request):
        return text('posted:' + request.get_data(as_text=True))

    def soft_404(request):
        seen.append('soft')
        raise NotFound(is_breaking=False)

    def hard_400(request):
        seen.append('hard')
        raise BadRequest('no good')

    def fallback(request):
        seen.append('fallback')
        return text('fallback')

    def returns_error(request):
        return Forbidden('returned, not raised')

    def not_a_response(request):
        return 'just a string'

    def explode(request):
        raise KeyError('kaboom')

    def ctx(request):
        return {'k': 'v'}

    app = Application([GET('/thing', get_only),
                       POST('/thing', post_only),
                       GET('/getonly', get_only),
                       ('/soft', soft_404),
                       ('/soft', fallback),
                       ('/hard', hard_400),
                       ('/hard', fallback),
                       ('/softonly', soft_404),
                       ('/returned', returns_error),
                       ('/str', not_a_response),
                       ('/explode', explode),
                       ('/ctx', ctx, render_basic)])

    st, hd, body = call_wsgi(app, path='/thing')
    assert (st, body) == ('200 OK', b'got')
    st, hd, body = call_wsgi(app, path='/thing', method='HEAD')
    assert st == '200 OK'
    st, hd, body = call_wsgi(app, path='/thing', method='POST', body=b'data')
    assert (st, body) == ('200 OK', b'posted:data')
    st, hd, body = call_wsgi(app, path='/thing', method='DELETE')
    assert st.startswith('405'), st
    allow = hget(hd, 'Allow')
    assert allow is not None
    assert set(a.strip() for a in allow.split(',')) == {'GET', 'HEAD', 'POST'}, allow
    st, hd, body = call_wsgi(app, path='/getonly', method='POST')
    assert st.startswith('405')
    assert set(a.strip() for a in hget(hd, 'Allow').split(',')) == {'GET', 'HEAD'}
    st, hd, body = call_wsgi(app, path='/getonly', method='OPTIONS')
    assert st.startswith('405')

    del seen[:]
    st, hd, body = call_wsgi(app, path='/soft')
    assert (st, body) == ('200 OK', b'fallback') and seen == ['soft', 'fallback']
    del seen[:]
    st, hd, body = call_wsgi(app, path='/hard')
    assert st.startswith('400') and seen == ['hard'], (st, seen)
    del seen[:]
    for method in ('GET', 'HEAD', 'POST'):
        st, hd, body = call_wsgi(app, path='/softonly', method=method)
        assert st.startswith('404'), st
    assert seen == ['soft'] * 3
    st, hd, body = call_wsgi(app, path='/returned')
    assert st.startswith('403')
    for path in ('/str', '/explode'):
        for method in ('GET', 'HEAD', 'POST'):
            for accept in ('text/html', 'application/json', 'text/plain', '*/*'):
                st, hd, body = call_wsgi(app, path=path, method=method,
                                         headers={'HTTP_ACCEPT': accept})
                assert st.startswith('500'), (path, st)
    st, hd, body = call_wsgi(app, path='/str', headers={'HTTP_ACCEPT': 'text/plain'})
    assert b'expected Response' in body, body
    st, hd, body = call_wsgi(app, path='/ctx')
    assert st == '200 OK'

    # debug mode pages conform too
    dapp = Application([('/explode', explode), ('/str', not_a_response),
                        ('/dir/', fallback)], debug=True)
    for path in ('/explode', '/str', '/missing'):
        for method in ('GET', 'HEAD'):
            st, hd, body = call_wsgi(dapp, path=path, method=method,
                                     headers={'HTTP_ACCEPT': 'text/html'})
            assert st[:3] in ('500', '404'), st
    st, hd, body = call_wsgi(dapp, path='/explode', headers={'HTTP_ACCEPT': 'text/html'})
    assert b'KeyError' in body and b'kaboom' in body
    st, hd, body = call_wsgi(dapp, path='/dir', query='\xff=1')
    assert st.startswith('302') and hget(hd, 'Location') == 'http://localhost/dir/?%FF=1'

    # reraise_uncaught hands the original exception to the server
    rapp = Application([('/explode', explode)],
                       error_handler=ErrorHandler(reraise_uncaught=True))
    try:
        rapp(make_environ(path='/explode'), lambda *a: None)
    except KeyError as ke:
        assert ke.args == ('kaboom',)
    else:
        raise AssertionError('expected KeyError')


def check_reroute():
    record = {}

    def target(environ, start_response):
        record['environ'] = environ
        record['snapshot'] = dict(environ)
        write = start_response('299 Custom Status',
                               [('Content-Type', 'application/x-target'),
                                ('X-Multi', 'one'), ('X-Multi', 'two'),
                                ('Content-Length', '11')])
        return [b'hello', b' ', b'world']

    class RaisingMW(Middleware):
        def request(self, next, request):
            if request.args.get('mw'):
                raise RerouteWSGI(target)
            return next()

    def raises(request):
        raise RerouteWSGI(target)

    def fine(request):
        return text('fine')

    tags = []

    class OuterMW(Middleware):
        @staticmethod
        def wsgi_wrapper(inner):
            def outer(environ, start_response):
                tags.append('outer')
                return inner(environ, start_response)
            return outer

    app = Application([('/as_endpoint', RerouteWSGI(target)),
                       ('/raised', raises),
                       ('/branch/', RerouteWSGI(target)),
                       ('/fine', fine)],
                      middlewares=[OuterMW(), RaisingMW()])

    for path, query in [('/as_endpoint', ''), ('/raised', 'a=1'),
                        ('/fine', 'mw=1'), ('/branch/', 'x=\xff')]:
        for method in ('GET', 'POST', 'OPTIONS'):
            record.clear()
            del tags[:]
            environ = make_environ(path=path, query=query, method=method,
                                   body=b'payload' if method == 'POST' else b'')
            environ['demo.marker'] = marker = object()
            before = dict(environ)
            st, hd, body = call_wsgi(app, environ=environ)
            assert tags == ['outer']
            assert st == '299 Custom Status', st
            assert hd == [('Content-Type', 'application/x-target'),
                          ('X-Multi', 'one'), ('X-Multi', 'two'),
                          ('Content-Length', '11')], hd
            assert body == b'hello world'
            # the request's own environ (the validator wraps input/errors, so
            # compare against what the application itself was given)
            got = record['snapshot']
            assert got['demo.marker'] is marker
            for key, value in before.items():
                assert key in got, key
                if key in ('wsgi.input', 'wsgi.errors'):
                    continue
                assert got[key] == value, (key, got[key], value)
            assert got['PATH_INFO'] == path and got['QUERY_STRING'] == query

    # without the validator in between: the very same dict object is passed
    environ = make_environ(path='/raised')
    record.clear()
    seen = []
    out = app(environ, lambda s, h, e=None: seen.append((s, h)))
    assert record['environ'] is environ
    assert list(out) == [b'hello', b' ', b'world']
    assert seen[0][0] == '299 Custom Status'

    # the non-rerouted route of the same app is untouched
    st, hd, body = call_wsgi(app, path='/fine')
    assert (st, body) == ('200 OK', b'fine')
    # a redirecting branch in front of a reroute endpoint
    st, hd, body = call_wsgi(app, path='/branch', query='x=1')
    assert st.startswith('302') and hget(hd, 'Location') == 'http://localhost/branch/?x=1'


def main():
    check_slashes()
    check_methods_and_errors()
    check_reroute()
    print('PASS')


if __name__ == '__main__':
    main()
    sys.exit(0)
