# -*- coding: utf-8 -*-
"""C13 demo: an Application is a conforming WSGI application.

Focus of this demo: the validation / stacking helpers (check_valid_wsgi,
_safe_wrap_wsgi, _get_all_middlewares) plus an end-to-end WSGI conformance
sweep with wsgiref.validate.  Prints PASS and exits 0 when all is well.
"""
import io
import os
import sys
import tempfile
from wsgiref.validate import validator

sys.path.insert(0, os.path.dirname(os.path.abspath(__file__)))

import clastic
from clastic import Application, Response, redirect
from clastic import application as app_mod
from clastic.application import (check_valid_wsgi, _safe_wrap_wsgi,
                                 _get_all_middlewares, RerouteWSGI)
from clastic.middleware import Middleware, GzipMiddleware
from clastic.static import StaticApplication, StaticFileRoute
from clastic.errors import ContextualErrorHandler

assert clastic.__file__.startswith(os.path.dirname(os.path.abspath(__file__)))


def make_environ(path='/', method='GET', headers=None, body=b'', query=''):
    env = {'REQUEST_METHOD': method, 'SCRIPT_NAME': '', 'PATH_INFO': path,
           'QUERY_STRING': query, 'SERVER_NAME': 'localhost',
           'SERVER_PORT': '80', 'SERVER_PROTOCOL': 'HTTP/1.1',
           'wsgi.version': (1, 0), 'wsgi.url_scheme': 'http',
           'wsgi.input': io.BytesIO(body), 'wsgi.errors': io.StringIO(),
           'wsgi.multithread': False, 'wsgi.multiprocess': False,
           'wsgi.run_once': False, 'HTTP_HOST': 'localhost'}
    if body or method == 'POST':
        env['CONTENT_LENGTH'] = str(len(body))
        env['CONTENT_TYPE'] = 'application/octet-stream'
    env.update(headers or {})
    return env


def call_wsgi(app, environ, validate=True):
    """Returns (calls, body) where calls is the list of start_response calls."""
    calls = []

    def start_response(status, headers, exc_info=None):
        calls.append((status, list(headers)))
        return lambda data: None

    target = validator(app) if validate else app
    result = target(environ, start_response)
    chunks = []
    try:
        for chunk in result:
            assert calls, 'body before start_response'
            assert isinstance(chunk, bytes)
            chunks.append(chunk)
    finally:
        if hasattr(result, 'close'):
            result.close()
    assert len(calls) == 1, calls
    status, headers = calls[0]
    assert isinstance(status, str) and status[:3].isdigit() and status[3] == ' '
    for k, v in headers:
        assert type(k) is str and type(v) is str
    return calls[0], b''.join(chunks)


# --- 1. check_valid_wsgi: exact messages ------------------------------------

def expect_type_error(func, *a):
    try:
        func(*a)
    except TypeError as te:
        return te
    raise AssertionError('no TypeError from %r%r' % (func, a))


def good(environ, start_response): pass
def extra(environ, start_response, more=None, *a, **kw): pass
def one(environ): pass
def none_(): pass
def misnamed(env, start_response): pass
def misnamed2(environ, sr): pass
def swapped(start_response, environ): pass


class CallableObj(object):
    def __call__(self, environ, start_response): pass


assert check_valid_wsgi(good) is None
assert check_valid_wsgi(extra) is None
assert check_valid_wsgi(CallableObj()) is None
assert check_valid_wsgi(Application()) is None
for not_callable in (None, 0, '', 'abc', (1, 2), [], {}):
    te = expect_type_error(check_valid_wsgi, not_callable)
    assert te.args == ('expected WSGI application (%r) to be callable'
                       % (not_callable,),), te.args
for bad, names in ((one, ('environ',)), (none_, ()),
                   (misnamed, ('env', 'start_response')),
                   (misnamed2, ('environ', 'sr')),
                   (swapped, ('start_response', 'environ'))):
    te = expect_type_error(check_valid_wsgi, bad)
    assert te.args == ('expected WSGI callable (%r) to accept two arguments,'
                       ' `environ` and `start_response`, respectively, not %r'
                       % (bad, names),), te.args
    assert te.__context__ is None

# --- 2. _safe_wrap_wsgi ------------------------------------------------------


class Src(object):
    def __init__(self, **kw):
        self.__dict__.update(kw)

    def __repr__(self):
        return '<Src %s>' % sorted(self.__dict__)


assert _safe_wrap_wsgi('x', object(), good) is good
assert _safe_wrap_wsgi('x', Src(wsgi_wrapper=None), good) is good
for falsy_bad in (0, '', (), 'str', 5):
    te = expect_type_error(_safe_wrap_wsgi, 'thing', Src(wsgi_wrapper=falsy_bad), good)
    assert te.args == ('expected thing.wsgi_wrapper to be callable or None,'
                       ' not %r' % (falsy_bad,),), te.args
seen_inner = []


def ident_wrapper(inner):
    seen_inner.append(inner)
    return extra


assert _safe_wrap_wsgi('x', Src(wsgi_wrapper=ident_wrapper), good) is extra
assert seen_inner == [good]
for bad_result in (None, 3, one, swapped):
    src = Src(wsgi_wrapper=lambda inner, _b=bad_result: _b)
    te = expect_type_error(_safe_wrap_wsgi, 'middleware', src, good)
    inner_te = expect_type_error(check_valid_wsgi, bad_result)
    assert te.args == ('expected valid WSGI callable from middleware (%r) WSGI'
                       ' wrapper (%r), instead got issue: %r'
                       % (src, src.wsgi_wrapper, inner_te),), te.args
    assert isinstance(te.__context__, TypeError)
    assert te.__context__.args == inner_te.args


def raising_wrapper(inner):
    raise KeyError('boom')


try:
    _safe_wrap_wsgi('x', Src(wsgi_wrapper=raising_wrapper), good)
except KeyError as ke:
    assert ke.args == ('boom',)
else:
    raise AssertionError('wrapper exception swallowed')

# --- 3. _get_all_middlewares -------------------------------------------------


class EqOnly(object):
    """unhashable, compares by key"""
    __hash__ = None

    def __init__(self, key):
        self.key = key

    def __eq__(self, other):
        return isinstance(other, EqOnly) and self.key == other.key

    def __repr__(self):
        return 'EqOnly(%r)' % self.key


class FakeRoute(object):
    def __init__(self, *mws):
        self.middlewares = list(mws)


a1, a2, b, c, d = EqOnly('a'), EqOnly('a'), EqOnly('b'), EqOnly('c'), EqOnly('d')
assert _get_all_middlewares([]) == []
assert _get_all_middlewares([], ()) == []
res = _get_all_middlewares([FakeRoute(a1, b), FakeRoute(c, a2), FakeRoute(d, c)])
assert [id(x) for x in res] == [id(x) for x in (d, c, a2, b)], res
res = _get_all_middlewares([FakeRoute(a1, b), FakeRoute(c)], [b, a2, b])
assert [id(x) for x in res] == [id(x) for x in (b, a2, c)], res
res = _get_all_middlewares((FakeRoute(a1),), iter([d]))
assert [id(x) for x in res] == [id(d), id(a1)]
own = [a1]
res = _get_all_middlewares([], own)
assert res == own and res is not own
assert app_mod._get_all_middlewares is _get_all_middlewares

# --- 4. wrapper order in real applications -----------------------------------

LOG = []


def make_wsgi_mw(label):
    class _MW(Middleware):
        def wsgi_wrapper(self, inner):
            def wrapped(environ, start_response):
                LOG.append(label)
                return inner(environ, start_response)
            return wrapped
    _MW.__name__ = 'MW_' + label
    return _MW


MWA, MWB, MWC = make_wsgi_mw('A'), make_wsgi_mw('B'), make_wsgi_mw('C')


class PlainMW(Middleware):
    def request(self, next):
        return next()


def hello():
    return Response('hello', mimetype='text/plain')


def run_order(app, path='/'):
    del LOG[:]
    (status, headers), body = call_wsgi(app, make_environ(path))
    return list(LOG), status, body


app = Application([('/', hello)], middlewares=[MWA(), PlainMW(), MWB(), MWC()])
assert run_order(app) == (['A', 'B', 'C'], '200 OK', b'hello')
app = Application([('/', hello)], middlewares=[MWC(), MWA()])
assert run_order(app) == (['C', 'A'], '200 OK', b'hello')
# no routes at construction time, added later
app = Application(middlewares=[MWB(), MWA()])
app.add(('/', hello))
assert run_order(app) == (['B', 'A'], '200 OK', b'hello')
# embedding: outer app's wrappers before the embedded one's; unique type once
inner_app = Application([('/', hello)], middlewares=[MWB(), MWC()])
outer_app = Application([('/sub', inner_app)], middlewares=[MWA(), MWB()])
assert run_order(outer_app, '/sub/') == (['A', 'B', 'C'], '200 OK', b'hello')
assert run_order(inner_app) == (['B', 'C'], '200 OK', b'hello')
outer_app = Application([('/sub', inner_app), ('/', hello)])
assert run_order(outer_app, '/') == (['B', 'C'], '200 OK', b'hello')


class BadWrapMW(Middleware):
    wsgi_wrapper = 'nope'


class BadResultMW(Middleware):
    def wsgi_wrapper(self, inner):
        return one


te = expect_type_error(lambda: Application([('/', hello)], middlewares=[BadWrapMW()]))
assert te.args == ("expected middleware.wsgi_wrapper to be callable or None,"
                   " not 'nope'",), te.args
bad_mw = BadResultMW()
te = expect_type_error(lambda: Application([('/', hello)], middlewares=[bad_mw]))
assert te.args[0].startswith('expected valid WSGI callable from middleware (%r)'
                             ' WSGI wrapper (' % (bad_mw,)), te.args
assert te.args[0].endswith('instead got issue: %r'
                           % (expect_type_error(check_valid_wsgi, one),))


class WrappingEH(ContextualErrorHandler):
    def wsgi_wrapper(self, inner):
        def wrapped(environ, start_response):
            LOG.append('EH')
            return inner(environ, start_response)
        return wrapped


app = Application([('/', hello)], middlewares=[MWA()], error_handler=WrappingEH())
assert run_order(app) == (['A', 'EH'], '200 OK', b'hello')


class BadEH(ContextualErrorHandler):
    wsgi_wrapper = 7


te = expect_type_error(lambda: Application([('/', hello)], error_handler=BadEH()))
assert te.args == ('expected error_handler.wsgi_wrapper to be callable or None,'
                   ' not 7',), te.args

# --- 5. conformance sweep -----------------------------------------------------

tmpdir = tempfile.mkdtemp()
with open(os.path.join(tmpdir, 'a.txt'), 'wb') as f:
    f.write(b'static text\n')
with open(os.path.join(tmpdir, 'blob'), 'wb') as f:
    f.write(b'\x00\x01\x02binary')
with open(os.path.join(tmpdir, 'empty'), 'wb') as f:
    pass

OPENED = []


class TrackingWrapper(object):
    def __init__(self, file_obj, buffer_size=8192):
        self.file_obj = file_obj
        OPENED.append(file_obj)

    def __iter__(self):
        return self

    def __next__(self):
        data = self.file_obj.read(5)
        if not data:
            raise StopIteration()
        return data

    def close(self):
        self.file_obj.close()


def streamed():
    return Response((c for c in [b'a', b'b', b'c']), mimetype='text/plain')


def boom():
    raise ValueError('boom')


def target_wsgi(environ, start_response):
    start_response('202 Accepted', [('X-Target', 'yes'), ('Content-Type', 'text/plain'),
                                    ('Content-Length', '6')])
    environ['demo.seen'] = True
    return [b'target']


def raiser():
    raise RerouteWSGI(target_wsgi)


def post_only():
    return Response('posted', mimetype='text/plain')


def build_app(debug):
    return Application([('/', hello),
                        ('/stream', streamed),
                        ('/boom', boom),
                        ('/redir', lambda: redirect('/elsewhere')),
                        ('/branch/', hello),
                        ('/reroute', RerouteWSGI(target_wsgi)),
                        ('/reroute_raise', raiser),
                        clastic.POST('/post', post_only),
                        StaticFileRoute('/onefile', os.path.join(tmpdir, 'a.txt')),
                        ('/static', StaticApplication(tmpdir))],
                       middlewares=[GzipMiddleware(), MWA()], debug=debug)


EXPECTED = {'/': '200', '/stream': '200', '/boom': '500', '/redir': '302',
            '/branch': '302', '/branch/': '200', '/reroute': '202',
            '/reroute_raise': '202', '/post': '405', '/onefile': '200',
            '/static/a.txt': '200', '/static/blob': '200', '/static/empty': '200',
            '/static/missing': '404', '/static/../x': '403', '/nope': '404'}

for debug in (False, True):
    app = build_app(debug)
    for path, code in sorted(EXPECTED.items()):
        for method in ('GET', 'HEAD', 'POST', 'OPTIONS'):
            for hdrs in ({}, {'HTTP_ACCEPT_ENCODING': 'gzip', 'HTTP_ACCEPT': 'text/html'},
                         {'HTTP_ACCEPT': 'application/json',
                          'wsgi.file_wrapper': TrackingWrapper}):
                del OPENED[:]
                env = make_environ(path, method, hdrs, body=b'xy' if method == 'POST' else b'')
                snapshot = dict(env)
                (status, headers), body = call_wsgi(app, env)
                if path.startswith('/reroute'):
                    assert status == '202 Accepted'
                    assert ('X-Target', 'yes') in headers
                    assert body == b'target'
                    assert env.get('demo.seen') is True
                    for k, v in snapshot.items():
                        # wsgiref.validate replaces these two by checking proxies
                        if k not in ('wsgi.input', 'wsgi.errors'):
                            assert env[k] is v, k
                    raw_env = make_environ(path, method, hdrs)
                    raw_snapshot = dict(raw_env)
                    call_wsgi(app, raw_env, validate=False)
                    for k, v in raw_snapshot.items():
                        assert raw_env[k] is v, k
                elif path == '/post':
                    assert status[:3] == ('200' if method == 'POST' else '405'), (path, method, status)
                elif method in ('GET', 'HEAD'):
                    assert status[:3] == code, (path, method, status)
                if method == 'HEAD' and not path.startswith('/reroute'):
                    assert body == b'', (path, body)
                for fobj in OPENED:
                    assert fobj.closed, path
                if path == '/static/a.txt' and method == 'GET' and not hdrs:
                    assert body == b'static text\n'
                    assert dict(headers)['Content-Type'].startswith('text/plain')
                if path == '/static/blob' and method == 'GET' and not hdrs:
                    assert body == b'\x00\x01\x02binary'
                    assert dict(headers)['Content-Type'] == 'application/octet-stream'
                if path == '/static/empty' and method == 'GET' and not hdrs:
                    assert body == b''
                    assert dict(headers)['Content-Type'].startswith('text/plain')
        if 'wsgi.file_wrapper' in hdrs and path in ('/onefile', '/static/a.txt'):
            assert OPENED, path

print('PASS')
