# -*- coding: utf-8 -*-
"""Demo for property C03: middlewares nest in the documented M-shaped order.

Builds several middleware stacks (application-, sub-application- and
route-level; unique / non-unique / non-reorderable types; argument
providing middlewares), then for EVERY function in the chain and EVERY
misbehaviour (raise before/after next(), short-circuit with a Response or
a plain context, swallow an inner exception, replace the inner result)
executes the bound route and compares the recorded enter/leave trace and
the outcome with an independent, directly-nested Python model.

Prints PASS and exits 0 on success.
"""
from __future__ import print_function

import sys

from werkzeug.test import EnvironBuilder
from werkzeug.wrappers import Request, Response

from clastic import Application, Route
from clastic.middleware import Middleware, merge_middlewares
from clastic.middleware import core as mw_core
from clastic import sinter

TRACE = []
PLAN = {}
KEEP = []
NAMES = {}
CHECKS = [0]

STAGES = ('request', 'endpoint', 'render')
BEHAVIOURS = ('pass', 'raise_before', 'raise_after', 'short_resp',
              'short_ctx', 'swallow', 'replace')


class Boom(Exception):
    pass


def check(cond, msg):
    CHECKS[0] += 1
    if not cond:
        print('FAIL:', msg)
        sys.exit(1)


def name_of(obj):
    return NAMES.get(id(obj), 'UNKNOWN:%r' % (obj,))


def new_obj(name, is_resp):
    obj = Response(name) if is_resp else {'name': name}
    KEEP.append(obj)
    NAMES[id(obj)] = name
    return obj


def layer(label, stage, next, next_kwargs):
    TRACE.append(('enter', stage, label))
    b = PLAN.get((label, stage), 'pass')
    if b == 'raise_before':
        raise Boom(label, stage, 'before')
    if b == 'short_resp':
        return new_obj('short_resp:%s:%s' % (label, stage), True)
    if b == 'short_ctx':
        return new_obj('short_ctx:%s:%s' % (label, stage), False)
    try:
        ret = next(**next_kwargs)
    except Boom as e:
        TRACE.append(('exc', stage, label, e.args))
        if b == 'swallow':
            return new_obj('swallow:%s:%s' % (label, stage), True)
        raise
    TRACE.append(('ret', stage, label, name_of(ret)))
    if b == 'raise_after':
        raise Boom(label, stage, 'after')
    if b == 'replace':
        return new_obj('replace:%s:%s' % (label, stage), True)
    return ret


def make_mw_class(cls_name, stages, unique=True, reorderable=True):
    ns = {'unique': unique, 'reorderable': reorderable}

    def __init__(self, label):
        self.label = label
    ns['__init__'] = __init__
    if 'request' in stages:
        def request(self, next, request):
            return layer(self.label, 'request', next, {})
        ns['request'] = request
    if 'endpoint' in stages:
        def endpoint(self, next):
            return layer(self.label, 'endpoint', next, {})
        ns['endpoint'] = endpoint
    if 'render' in stages:
        def render(self, next, context):
            TRACE.append(('render_mw_ctx', self.label, name_of(context)))
            return layer(self.label, 'render', next, {})
        ns['render'] = render
    return type(cls_name, (Middleware,), ns)


# -- argument providing middlewares ------------------------------------------

class ProvMW(Middleware):
    provides = ('a_val',)
    endpoint_provides = ('e_val',)
    label = 'P'

    def request(self, next, request):
        return layer(self.label, 'request', next, {'a_val': 'A!'})

    def endpoint(self, next, a_val):
        TRACE.append(('P.endpoint got', a_val))
        return layer(self.label, 'endpoint', next, {'e_val': 'E!'})


class ConsMW(Middleware):
    render_provides = ('r_val',)
    label = 'Q'

    def request(self, next, a_val, request):
        TRACE.append(('Q.request got', a_val))
        return layer(self.label, 'request', next, {})

    def render(self, next, context, e_val=None, a_val='dflt'):
        # e_val is endpoint-provided: NOT available at render time -> default
        TRACE.append(('Q.render got', name_of(context), e_val, a_val))
        return layer(self.label, 'render', next, {'r_val': 'R!'})


# -- endpoints / renders -----------------------------------------------------

def ep_plain(request):
    TRACE.append(('enter', 'EP', 'EP'))
    b = PLAN.get(('EP', 'EP'), 'pass')
    if b == 'raise_before':
        raise Boom('EP', 'EP', 'before')
    if b == 'short_resp':
        return new_obj('ep_resp', True)
    return new_obj('ctx', False)


def rn_plain(context):
    TRACE.append(('enter', 'RN', 'RN', name_of(context)))
    b = PLAN.get(('RN', 'RN'), 'pass')
    if b == 'raise_before':
        raise Boom('RN', 'RN', 'before')
    if b == 'short_ctx':
        return context   # a render may return anything
    return new_obj('rendered', True)


def ep_args(request, a_val, e_val, opt=7):
    TRACE.append(('ep_args got', a_val, e_val, opt))
    return ep_plain(request)


def rn_args(context, a_val, r_val):
    TRACE.append(('rn_args got', a_val, r_val))
    return rn_plain(context)


# -- the independent model ---------------------------------------------------

class ModelBoom(Exception):
    pass


def model_merge(levels):
    """levels: outermost first.  First level verbatim, deeper ones deduped."""
    out = list(levels[0])
    for level in levels[1:]:
        for mw in level:
            if mw.unique and any(type(m) is type(mw) for m in out):
                assert mw.reorderable
                continue
            out.append(mw)
    return out


def model_run(order, plan, extra=None):
    """order: list of middleware instances, outermost first."""
    extra = extra or {}
    trace = []
    resp_names = set()

    def mk(name, is_resp):
        if is_resp:
            resp_names.add(name)
        return name

    def run(stage, layers, innermost):
        def call(i):
            if i == len(layers):
                return innermost()
            mw = layers[i]
            label = mw.label
            for rec in extra.get(('pre', label, stage), ()):
                trace.append(rec() if callable(rec) else rec)
            trace.append(('enter', stage, label))
            b = plan.get((label, stage), 'pass')
            if b == 'raise_before':
                raise ModelBoom(label, stage, 'before')
            if b == 'short_resp':
                return mk('short_resp:%s:%s' % (label, stage), True)
            if b == 'short_ctx':
                return mk('short_ctx:%s:%s' % (label, stage), False)
            try:
                ret = call(i + 1)
            except ModelBoom as e:
                trace.append(('exc', stage, label, e.args))
                if b == 'swallow':
                    return mk('swallow:%s:%s' % (label, stage), True)
                raise
            trace.append(('ret', stage, label, ret))
            if b == 'raise_after':
                raise ModelBoom(label, stage, 'after')
            if b == 'replace':
                return mk('replace:%s:%s' % (label, stage), True)
            return ret
        return call(0)

    def endpoint():
        for rec in extra.get(('pre', 'EP'), ()):
            trace.append(rec)
        trace.append(('enter', 'EP', 'EP'))
        b = plan.get(('EP', 'EP'), 'pass')
        if b == 'raise_before':
            raise ModelBoom('EP', 'EP', 'before')
        if b == 'short_resp':
            return mk('ep_resp', True)
        return mk('ctx', False)

    def render(ctx):
        for rec in extra.get(('pre', 'RN'), ()):
            trace.append(rec)
        trace.append(('enter', 'RN', 'RN', ctx))
        b = plan.get(('RN', 'RN'), 'pass')
        if b == 'raise_before':
            raise ModelBoom('RN', 'RN', 'before')
        if b == 'short_ctx':
            return ctx
        return mk('rendered', True)

    cur_ctx = [None]

    def process_request():
        ctx = run('endpoint', [m for m in order if m.endpoint], endpoint)
        if ctx in resp_names:
            return ctx
        cur_ctx[0] = ctx
        rn_layers = [m for m in order if m.render]
        # every render middleware sees the very same context object

        def rn_call():
            return render(ctx)
        saved = dict(extra)
        for m in rn_layers:
            key = ('pre', m.label, 'render')
            extra[key] = tuple(r(ctx) for r in saved.get(('prectx', m.label), ()))
        try:
            return run('render', rn_layers, rn_call)
        finally:
            extra.clear()
            extra.update(saved)

    try:
        ret = run('request', [m for m in order if m.request], process_request)
        outcome = ('return', ret)
    except ModelBoom as e:
        outcome = ('raise', e.args)
    return trace, outcome


def real_run(broute, plan):
    del TRACE[:]
    del KEEP[:]
    NAMES.clear()
    PLAN.clear()
    PLAN.update(plan)
    req = Request(EnvironBuilder(path='/x').get_environ())
    try:
        ret = broute.execute(req)
        outcome = ('return', name_of(ret))
    except Boom as e:
        outcome = ('raise', e.args)
    return list(TRACE), outcome


def get_route(app, pattern='/x'):
    found = [r for r in app.routes if r.pattern == pattern]
    check(len(found) == 1, 'route %r not found exactly once' % pattern)
    return found[0]


def sweep(stack_name, broute, expected_order, extra=None):
    labels = [m.label for m in broute.middlewares]
    check(labels == [m.label for m in expected_order],
          '%s: merged order %r != expected %r'
          % (stack_name, labels, [m.label for m in expected_order]))
    check(isinstance(broute.middlewares, tuple),
          '%s: BoundRoute.middlewares must be a tuple' % stack_name)
    plans = [{}]
    for mw in expected_order:
        for stage in STAGES:
            if getattr(mw, stage):
                for b in BEHAVIOURS[1:]:
                    plans.append({(mw.label, stage): b})
    for b in ('raise_before', 'short_resp'):
        plans.append({('EP', 'EP'): b})
    for b in ('raise_before', 'short_ctx'):
        plans.append({('RN', 'RN'): b})
    # a few double faults: inner raises, an outer layer swallows / re-raises
    firsts = [m for m in expected_order if m.request]
    if firsts:
        outer = firsts[0].label
        plans.append({('EP', 'EP'): 'raise_before', (outer, 'request'): 'swallow'})
        plans.append({('RN', 'RN'): 'raise_before', (outer, 'request'): 'swallow'})
        plans.append({('EP', 'EP'): 'short_resp', (outer, 'request'): 'raise_after'})
    for plan in plans:
        exp_trace, exp_outcome = model_run(expected_order, plan,
                                           dict(extra or {}))
        got_trace, got_outcome = real_run(broute, plan)
        check(got_trace == exp_trace,
              '%s plan=%r:\n  trace    %r\n  expected %r'
              % (stack_name, plan, got_trace, exp_trace))
        check(got_outcome == exp_outcome,
              '%s plan=%r: outcome %r != %r'
              % (stack_name, plan, got_outcome, exp_outcome))
    return len(plans)


def prectx_render_mw(label):
    return lambda ctx: ('render_mw_ctx', label, ctx)


def main():
    A = make_mw_class('AMw', STAGES)
    B = make_mw_class('BMw', ('request',))
    C = make_mw_class('CMw', ('endpoint', 'render'))
    D = make_mw_class('DMw', ('request', 'render'))
    E = make_mw_class('EMw', ('endpoint',))
    U = make_mw_class('UMw', STAGES)                      # unique, reorderable
    N = make_mw_class('NMw', ('request', 'endpoint'), unique=False)
    X = make_mw_class('XMw', ('request',), reorderable=False)
    total = 0

    def render_extras(order):
        return dict((('prectx', m.label), (prectx_render_mw(m.label),))
                    for m in order if m.render and not isinstance(m, ConsMW))

    # S1: route-level middlewares only
    a, b, c = A('a'), B('b'), C('c')
    app = Application([Route('/x', ep_plain, rn_plain, middlewares=[a, b, c])])
    order = model_merge([[], [a, b, c]])
    total += sweep('S1', get_route(app), order, render_extras(order))

    # S2: application-level middlewares only
    a, b, c, e = A('a'), B('b'), C('c'), E('e')
    app = Application([('/x', ep_plain, rn_plain)], middlewares=[c, a, e, b])
    order = model_merge([[c, a, e, b], []])
    check([m.label for m in order] == ['c', 'a', 'e', 'b'], 'S2 model order')
    total += sweep('S2', get_route(app), order, render_extras(order))

    # S3: three levels, unique duplicate, non-unique repeated
    a, b, c, d = A('a'), B('b'), C('c'), D('d')
    u_out, u_sub, u_rt = U('u@outer'), U('u@sub'), U('u@route')
    n1, n2, n3 = N('n1'), N('n2'), N('n3')
    route = Route('/x', ep_plain, rn_plain, middlewares=[d, u_rt, n3])
    sub = Application([route], middlewares=[u_sub, c, n2])
    outer = Application([('/', sub)], middlewares=[a, b, u_out, n1])
    order = model_merge([[a, b, u_out, n1], [u_sub, c, n2], [d, u_rt, n3]])
    check([m.label for m in order] ==
          ['a', 'b', 'u@outer', 'n1', 'c', 'n2', 'd', 'n3'], 'S3 model order')
    total += sweep('S3', get_route(outer), order, render_extras(order))
    # ... and the sub application on its own keeps ITS unique instance first
    order_sub = model_merge([[u_sub, c, n2], [d, u_rt, n3]])
    check([m.label for m in order_sub] == ['u@sub', 'c', 'n2', 'd', 'n3'],
          'S3 sub model order')
    total += sweep('S3sub', get_route(sub), order_sub, render_extras(order_sub))
    # WSGI-level sanity check of the full stack
    PLAN.clear()
    resp = outer.get_local_client().get('/x')
    check(resp.status_code == 200 and resp.data == b'rendered',
          'S3 wsgi response %r %r' % (resp.status_code, resp.data))
    PLAN.clear()
    PLAN[('c', 'endpoint')] = 'short_resp'
    resp = outer.get_local_client().get('/x')
    check(resp.data == b'short_resp:c:endpoint', 'S3 wsgi short %r' % resp.data)
    PLAN.clear()

    # S4: argument-providing middlewares on two levels
    p, q, a = ProvMW(), ConsMW(), A('a')
    route = Route('/x', ep_args, rn_args, middlewares=[q])
    app = Application([route], middlewares=[p, a])
    order = model_merge([[p, a], [q]])
    extra = render_extras(order)
    extra[('pre', 'P', 'endpoint')] = (('P.endpoint got', 'A!'),)
    extra[('pre', 'Q', 'request')] = (('Q.request got', 'A!'),)
    extra[('prectx', 'Q')] = (lambda ctx: ('Q.render got', ctx, None, 'A!'),)
    extra[('pre', 'EP')] = (('ep_args got', 'A!', 'E!', 7),)
    extra[('pre', 'RN')] = (('rn_args got', 'A!', 'R!'),)
    total += sweep('S4', get_route(app), order, extra)

    # S5: no middlewares at all
    app = Application([('/x', ep_plain, rn_plain)])
    total += sweep('S5', get_route(app), [], {})

    # S6: non-reorderable unique duplicates are rejected, at every level
    x1, x2 = X('x1'), X('x2')
    for build in (
        lambda: Application([Route('/x', ep_plain, rn_plain, middlewares=[x2])],
                            middlewares=[x1]),
        lambda: Application([('/', Application([('/x', ep_plain, rn_plain)],
                                               middlewares=[x2]))],
                            middlewares=[x1]),
    ):
        try:
            build()
        except ValueError as ve:
            check(str(ve) == "multiple inclusion of unique middleware 'XMw'",
                  'S6 message %r' % str(ve))
        else:
            check(False, 'S6: expected ValueError')
    # the same INSTANCE on two levels is a duplicate as well
    try:
        Application([Route('/x', ep_plain, rn_plain, middlewares=[x1])],
                    middlewares=[x1])
    except ValueError:
        pass
    else:
        check(False, 'S6b: expected ValueError')

    # -- direct checks of the mechanism's building blocks ---------------------
    a, b, u1, u2, n1, n2 = A('a'), B('b'), U('u1'), U('u2'), N('n1'), N('n2')
    old, new = (u2, a, n2), [b, u1, n1]
    merged = merge_middlewares(old, new)
    check(type(merged) is list and [m.label for m in merged] ==
          ['b', 'u1', 'n1', 'a', 'n2'], 'merge order')
    check(merged[1] is u1 and new == [b, u1, n1] and merged is not new
          and old == (u2, a, n2), 'merge must copy, not alias / mutate')
    check(merge_middlewares(iter([a, a]), iter([])) == [a], 'merge generators')
    check(merge_middlewares([], [u1, u2]) == [u1, u2], 'new list kept verbatim')
    check(merge_middlewares([], []) == [], 'merge empty')

    def f0(next, x):
        return next(y=x + 1)

    def f1(next, y, z=3):
        return next()

    def f2(x, y, q=None):
        return (x, y, q)
    src = sinter.build_chain_str([f0, f1, f2], [['x', 'z'], ['y'], []], 'next')
    check(src == ('def next(x, z):\n'
                  '    def next(y):\n'
                  '        def next():\n'
                  '            __traceback_hide__ = True\n'
                  '            return funcs[2](x=x, y=y)\n'
                  '        __traceback_hide__ = True\n'
                  '        return funcs[1](next=next, y=y, z=z)\n'
                  '    __traceback_hide__ = True\n'
                  '    return funcs[0](next=next, x=x)\n'),
          'build_chain_str text:\n' + src)
    chain, args, unres = sinter.make_chain([f0, f1], [('y',), ()], f2,
                                           ['x', 'q', 'unused'], 'next')
    check(args == set(['x', 'q']) and unres == set(), 'make_chain args %r %r'
          % (args, unres))
    check(chain(x=1, q='Q') == (1, 2, 'Q'), 'make_chain call')
    chain, args, unres = sinter.make_chain([f0, f1], [('y',), ()], f2, [], 'next')
    check(unres == set(['x']), 'make_chain unresolved %r' % (unres,))

    calls = []
    sentinel = Response('direct')

    def ep(**kw):
        calls.append(('ep', kw))
        return kw.get('ret')

    def rn(**kw):
        calls.append(('rn', kw))
        return 'rendered!'
    inner = mw_core._create_request_inner(ep, rn, ['ret', 'k'], ['ret'],
                                          ['context', 'k'])
    check(inner.__name__ == 'process_request', 'inner name')
    check(inner(ret=sentinel, k=1) is sentinel and calls == [('ep', {'ret': sentinel})],
          'Response from the endpoint side skips render')
    del calls[:]
    for falsy in (None, 0, '', {}, []):
        check(inner(ret=falsy, k=2) == 'rendered!', 'falsy context is rendered')
        check(calls[-1] == ('rn', {'context': falsy, 'k': 2}), 'render kwargs')
    check(mw_core._named_arg_str(['a', 'b']) == 'a=a, b=b' and
          mw_core._named_arg_str([]) == '', '_named_arg_str')
    check('isinstance(context, BaseResponse)' in mw_core._REQ_INNER_TMPL,
          'template reachable via clastic.middleware.core')
    for bad_ep, bad_rn in ((lambda next: None, rn_plain),
                           (ep_plain, lambda next, context: None)):
        try:
            mw_core.make_middleware_chain([], bad_ep, bad_rn, ['request'])
        except NameError as ne:
            check("argument 'next' reserved for middleware use only" in str(ne),
                  'next reserved message')
        else:
            check(False, 'expected NameError for next in endpoint/render')
    try:
        mw_core.make_middleware_chain([A('a')], lambda nope: None, rn_plain,
                                      ['request'])
    except NameError as ne:
        check(str(ne) == "unresolved endpoint middleware arguments: ['nope']",
              'unresolved message %r' % str(ne))
    else:
        check(False, 'expected NameError for unresolved endpoint args')

    print('%d scenarios, %d checks' % (total, CHECKS[0]))
    print('PASS')


if __name__ == '__main__':
    main()
