# -*- coding: utf-8 -*-
"""demo3: which middlewares' ``wsgi_wrapper`` an Application puts around its
own entry point (``_get_all_middlewares``), and that this is a per-application
affair: embedding an application or re-binding a route never wraps or unwraps
anybody else, and a constructor that fails because of a bad wrapper leaves
the other applications alone.
"""
import os
import sys

sys.path.insert(0, os.path.dirname(os.path.abspath(__file__)))

from clastic import Application, Route, Response, Middleware, SubApplication
from clastic.application import _get_all_middlewares   # historical import path
import clastic.application as application_module

LOG = []


class WrapBase(Middleware):
    """wsgi_wrapper which records the order in which wrappers are entered"""
    def __init__(self, tag=None):
        self.tag = tag or self.__class__.__name__

    def wsgi_wrapper(self, inner):
        tag = self.tag

        def wrapped(environ, start_response):
            LOG.append(tag)
            return inner(environ, start_response)
        return wrapped


class WrapA(WrapBase):
    pass


class WrapB(WrapBase):
    pass


class WrapC(WrapBase):
    pass


class Plain(Middleware):
    provides = ('plain',)

    def request(self, next):
        return next(plain='p')


class Unhashable(WrapBase):
    __hash__ = None


class BadWrapper(Middleware):
    wsgi_wrapper = 'not callable'


class BadResult(Middleware):
    def wsgi_wrapper(self, inner):
        return lambda only_one_arg: None


def ep(name):
    def endpoint():
        return Response(name)
    return endpoint


def hit(app, path):
    del LOG[:]
    resp = app.get_local_client().get(path)
    return resp.status_code, resp.get_data(True), list(LOG)


def patterns(app):
    return [r.pattern for r in app.routes]


class FakeBound(object):
    def __init__(self, *mws):
        self.middlewares = tuple(mws)


def check_function():
    a, a2, b, c, u = WrapA('a'), WrapA('a2'), WrapB('b'), WrapC('c'), Unhashable('u')
    assert a == a2 and a is not a2          # Middleware equality is by type
    try:
        hash(u)
    except TypeError:
        pass
    else:
        raise AssertionError('expected unhashable')

    assert _get_all_middlewares([]) == []
    assert _get_all_middlewares((), ()) == []
    assert _get_all_middlewares([], [a]) == [a]
    assert _get_all_middlewares([], app_middlewares=(a, a2, b, a)) == [a, b]
    res = _get_all_middlewares([], [a, a2])
    assert len(res) == 1 and res[0] is a    # first occurrence is kept
    # routes are visited last-to-first, each route's own order is kept
    r1, r2, r3 = FakeBound(a, b), FakeBound(c, a2), FakeBound()
    res = _get_all_middlewares([r1, r2, r3])
    assert res == [c, a2, b] and res[1] is a2
    res = _get_all_middlewares([r1, r2, r3], [b])
    assert [m.tag for m in res] == ['b', 'c', 'a2']
    res = _get_all_middlewares([r2, r1], [u])
    assert [m.tag for m in res] == ['u', 'a', 'b', 'c']
    res = _get_all_middlewares([FakeBound(u, u), FakeBound(u)])
    assert len(res) == 1 and res[0] is u
    # inputs are not modified, result is a fresh list each time
    mws = [a, b]
    routes = [r1, r2]
    out1 = _get_all_middlewares(routes, mws)
    out2 = _get_all_middlewares(routes, mws)
    assert out1 == out2 and out1 is not out2 and out1 is not mws
    assert mws == [a, b] and routes == [r1, r2] and r1.middlewares == (a, b)
    # tuples / iterators where only iteration (and reversed()) is needed
    assert _get_all_middlewares((r1, r2), iter([c])) == [c, a2, b]
    for bad_routes in (iter([r1]), None, 5):
        try:
            _get_all_middlewares(bad_routes, [a])
        except TypeError:
            pass
        else:
            raise AssertionError('expected TypeError for %r' % (bad_routes,))
    try:
        _get_all_middlewares([object()])
    except AttributeError:
        pass
    else:
        raise AssertionError('expected AttributeError')
    # the name the Application constructor looks up is the one we imported
    assert application_module._get_all_middlewares is _get_all_middlewares
    assert _get_all_middlewares.__name__ == '_get_all_middlewares'


def check_applications():
    wa, wb, wc = WrapA('A'), WrapB('B'), WrapC('C')

    # own middlewares wrap even without any route; outermost first
    empty = Application(middlewares=[wa, wb])
    assert hit(empty, '/nothing') == (404, hit(empty, '/nothing')[1], ['A', 'B'])

    # route middlewares: last route first, app middlewares before all
    r_b = Route('/b', ep('b'), middlewares=[wb])
    r_c = Route('/c', ep('c'), middlewares=[wc, Plain()])
    r_state = (dict(vars(r_b)), dict(vars(r_c)))
    app1 = Application([r_b, r_c], middlewares=[wa])
    assert hit(app1, '/b') == (200, 'b', ['A', 'C', 'B'])
    assert hit(app1, '/c') == (200, 'c', ['A', 'C', 'B'])
    assert hit(app1, '/zzz')[2] == ['A', 'C', 'B']

    # the same Route objects in another application, different order
    app2 = Application([r_c, r_b])
    assert hit(app2, '/b') == (200, 'b', ['B', 'C'])
    assert hit(app1, '/b') == (200, 'b', ['A', 'C', 'B'])
    assert (dict(vars(r_b)), dict(vars(r_c))) == r_state
    assert r_b.middlewares == [wb] and r_c.middlewares[0] is wc

    # duplicates (equal by type) collapse to the first one met
    wb2 = WrapB('B2')
    app3 = Application([Route('/x', ep('x'), middlewares=[wb2]), r_b], middlewares=[])
    assert hit(app3, '/x') == (200, 'x', ['B'])
    app4 = Application([r_b, Route('/x', ep('x'), middlewares=[wb2])])
    assert hit(app4, '/x') == (200, 'x', ['B2'])

    # embedding: parent wraps with the embedded routes' middlewares, the
    # embedded application keeps exactly its own wrapping
    before1 = (patterns(app1), list(app1.routes), app1._dispatch_wsgi)
    parent = Application([('/p', ep('p')), ('/one', app1), SubApplication('/two', app2)],
                         middlewares=[WrapC('PC')])
    assert patterns(parent) == ['/p', '/one/b', '/one/c', '/two/c', '/two/b']
    assert hit(parent, '/one/b') == (200, 'b', ['PC', 'B', 'A'])
    assert hit(parent, '/p') == (200, 'p', ['PC', 'B', 'A'])
    assert (patterns(app1), list(app1.routes), app1._dispatch_wsgi) == before1
    assert hit(app1, '/b') == (200, 'b', ['A', 'C', 'B'])
    assert hit(app2, '/c') == (200, 'c', ['B', 'C'])

    # routes added after construction are served, but wrapping was fixed
    # by the constructor (and other applications do not notice anything)
    late = Application([('/early', ep('early'))], middlewares=[wa])
    late.add(Route('/late', ep('late'), middlewares=[wc]))
    late.add(r_b, 0)
    assert patterns(late) == ['/b', '/early', '/late']
    assert hit(late, '/late') == (200, 'late', ['A'])
    assert hit(late, '/b') == (200, 'b', ['A'])
    assert hit(app2, '/b') == (200, 'b', ['B', 'C'])
    # ... while embedding `late` picks all of them up for the new parent
    parent2 = Application([('/l', late)])
    assert hit(parent2, '/l/late') == (200, 'late', ['A', 'C', 'B'])
    assert hit(late, '/late') == (200, 'late', ['A'])

    # unhashable middleware objects are fine
    un = Application([Route('/u', ep('u'), middlewares=[Unhashable('U')])],
                     middlewares=[Unhashable('U0')])
    assert hit(un, '/u') == (200, 'u', ['U0'])

    # failing constructors: bad wrapper on the app or on the k-th route of
    # an embedded application -> TypeError, nobody else is affected
    snaps = [(a, patterns(a), list(a.routes), a._dispatch_wsgi)
             for a in (app1, app2, parent, late, parent2)]
    embedded_bad = Application([('/ok', ep('ok'))])
    embedded_bad.add(Route('/bad', ep('bad'), middlewares=[BadWrapper()]))
    assert hit(embedded_bad, '/bad')[:2] == (200, 'bad')   # never wrapped there
    failing = [
        lambda: Application([('/a', app1)], middlewares=[BadWrapper()]),
        lambda: Application([r_b, ('/e', embedded_bad)]),
        lambda: Application([r_b, Route('/r', ep('r'), middlewares=[BadResult()])]),
        lambda: Application([('/a', app1), ('/a2', app2)], middlewares=[wa, BadResult()]),
    ]
    for make in failing:
        try:
            make()
        except TypeError as te:
            assert 'wsgi' in str(te).lower(), str(te)
        else:
            raise AssertionError('expected TypeError')
    for a, pats, routes, dispatch in snaps:
        assert (patterns(a), list(a.routes), a._dispatch_wsgi) == (pats, routes, dispatch)
    assert patterns(embedded_bad) == ['/ok', '/bad']
    assert hit(app1, '/b') == (200, 'b', ['A', 'C', 'B'])
    assert hit(parent, '/two/c') == (200, 'c', ['PC', 'B', 'A'])
    assert hit(embedded_bad, '/ok')[:2] == (200, 'ok')


def main():
    check_function()
    check_applications()
    print('PASS')


if __name__ == '__main__':
    main()
