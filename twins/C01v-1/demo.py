# -*- coding: utf-8 -*-
"""demo1: Application.add / Application(...) bind every route eagerly.

Exercises adding plain routes, tuples and sub-applications at various
indexes (None, 0, negative, past the end), the NameError raised at
bind time for unsatisfiable parameters, and the requests that reach
the accepted routes.
"""
import sys

from werkzeug.wrappers import Response

from clastic import Application, Route, GET, SubApplication
from clastic.middleware import Middleware
from clastic.errors import ErrorHandler


class ReraisingHandler(ErrorHandler):
    reraise_uncaught = True


def ok(body):
    return lambda: Response(body)


def patterns(app):
    return [r.pattern for r in app.routes]


class ProvA(Middleware):
    provides = ('a',)

    def request(self, next):
        return next(a='A')


class NeedsA(Middleware):
    provides = ('b',)

    def request(self, next, a):
        return next(b=a + 'B')


def ep_ab(a, b):
    return Response(a + '|' + b)


def ep_needs_zzz(zzz):
    return Response('never')


def ep_opt(a='default-a', q=3):
    return Response('%s/%s' % (a, q))


def ep_kwonly(*, a, q=7):
    return Response('%s/%s' % (a, q))


def ep_url(name, a):
    return Response(name + ':' + a)


def get(app, path):
    return app.get_local_client().get(path)


def expect_raises(exc_type, func, *a, **kw):
    try:
        func(*a, **kw)
    except exc_type as e:
        assert type(e) is exc_type, type(e)
        return e
    raise AssertionError('expected %s' % exc_type.__name__)


def main():
    # --- insertion positions -------------------------------------------------
    app = Application([('/x', ok('x')), ('/y', ok('y'))],
                      error_handler=ReraisingHandler())
    assert patterns(app) == ['/x', '/y']
    app.add(('/end', ok('end')))
    assert patterns(app) == ['/x', '/y', '/end']
    app.add(Route('/first', ok('first')), index=0)
    assert patterns(app) == ['/first', '/x', '/y', '/end']
    app.add(GET('/mid', ok('mid')), index=2)
    assert patterns(app) == ['/first', '/x', '/mid', '/y', '/end']
    app.add(('/far', ok('far')), index=100)
    assert patterns(app)[-1] == '/far'

    sub = Application([('/s1', ok('s1')), ('/s2', ok('s2')), ('/s3', ok('s3'))])
    app.add(('/sub', sub), index=1)
    assert patterns(app) == ['/first', '/sub/s1', '/sub/s2', '/sub/s3',
                             '/x', '/mid', '/y', '/end', '/far']
    for path, body in [('/first', b'first'), ('/sub/s2', b's2'),
                       ('/mid', b'mid'), ('/far', b'far')]:
        resp = get(app, path)
        assert resp.status_code == 200 and resp.data == body, (path, resp.data)
    assert get(app, '/nope').status_code == 404
    assert app.get_local_client().post('/mid').status_code == 405

    # negative and oversized indexes with a multi-route sub-application:
    # the routes go where successive list.insert calls put them
    for index in (-1, -2, -3, -10, 0, 1, 2, 3, 50):
        a = Application([('/p', ok('p')), ('/q', ok('q'))])
        expected = ['/p', '/q']
        i = index
        for pat in ['/z/s1', '/z/s2', '/z/s3']:
            expected.insert(i, pat)
            i += 1
        a.add(SubApplication('/z', sub), index=index)
        assert patterns(a) == expected, (index, patterns(a), expected)

    # an empty sub-application adds nothing
    a = Application([('/p', ok('p'))])
    a.add(('/e', Application()))
    a.add(('/e', Application()), index=0)
    assert patterns(a) == ['/p']

    # --- objects with a non-callable bind_all attribute use .bind ---------------
    class OddRoute(Route):
        bind_all = None
    a = Application()
    a.add(OddRoute('/odd', ok('odd')))
    assert patterns(a) == ['/odd']
    assert get(a, '/odd').data == b'odd'

    # --- soundness/completeness through add ------------------------------------
    app = Application(middlewares=[ProvA(), NeedsA()], resources={'r': 1},
                      error_handler=ReraisingHandler())
    app.add(('/ab', ep_ab))
    app.add(('/opt', ep_opt))
    app.add(('/kw', ep_kwonly))
    app.add(('/u/<name>', ep_url))
    assert get(app, '/ab').data == b'A|AB'
    assert get(app, '/opt').data == b'A/3'
    assert get(app, '/kw').data == b'A/7'
    assert get(app, '/u/bob').data == b'bob:A'
    assert get(app, '/missing').status_code == 404  # null route + app middlewares

    before = patterns(app)
    err = expect_raises(NameError, app.add, ('/bad', ep_needs_zzz))
    assert 'zzz' in str(err)
    assert patterns(app) == before  # nothing was inserted
    err = expect_raises(NameError, app.add, ('/bad', ep_needs_zzz), index=0)
    assert patterns(app) == before

    # a failing route in the middle of a sub-application: nothing is inserted
    bad_sub = Application([('/g1', ok('g1')), ('/b', ep_opt), ('/g2', ok('g2'))])
    inner = Application([('/g1', ok('g1'))])
    inner.routes.append(Route('/b', ep_needs_zzz))  # unbound, binds lazily below
    expect_raises(NameError, app.add, ('/pre', inner))
    assert patterns(app) == before
    app.add(('/pre', bad_sub), index=1)
    assert patterns(app)[1:4] == ['/pre/g1', '/pre/b', '/pre/g2']
    assert get(app, '/pre/b').data == b'A/3'

    # wrong order of middlewares is rejected at construction
    expect_raises(NameError, Application, [('/ab', ep_ab)],
                  middlewares=[NeedsA(), ProvA()])
    # app-level middleware that cannot be satisfied is rejected even without routes
    # (the null route runs the application-level middlewares)
    expect_raises(NameError, Application, [], middlewares=[NeedsA()])
    # ... unless a resource supplies the name
    a = Application([('/b', lambda b: Response(b))], middlewares=[NeedsA()],
                    resources={'a': 'res'}, error_handler=ReraisingHandler())
    assert get(a, '/b').data == b'resB'
    assert get(a, '/nothing').status_code == 404

    # add() rejects junk with TypeError, reserved resources with NameError
    expect_raises(TypeError, app.add, 42)
    expect_raises(TypeError, app.add, ('/x', 'not callable'))
    expect_raises(NameError, Application, [], resources={'request': 1})
    expect_raises(TypeError, app.add, ('/x', ok('x')), bogus=True)

    print('PASS')
    return 0


if __name__ == '__main__':
    sys.exit(main())
