# -*- coding: utf-8 -*-
"""demo2 -- bind-time dependency check is sound and complete (C01).

Focus of this demo: ``check_middleware`` / ``check_middlewares`` (the
duplicate-provider bookkeeping that runs right before the chain is built:
url bindings, builtins, resources and the three provides tuples of every
middleware) plus a randomised sweep over route configurations that is compared against an
independent scope-simulation model.

Prints PASS and exits 0 when everything holds.
"""
import random
import sys
import warnings

warnings.simplefilter('ignore')

from werkzeug.wrappers import Response

from clastic import Application, Route, GET, POST
from clastic.errors import ErrorHandler
from clastic.middleware import Middleware
from clastic.decorators import clastic_decorator
from clastic.route import RESERVED_ARGS
from clastic import sinter
from clastic.sinter import inject, get_arg_names


LOG = []
BUILTIN_NAMES = ('request', '_application', '_route', '_dispatch_state', 'context')


def norm(name, value):
    if isinstance(value, str) and (value[:2] in ('P:', 'D:', 'R:') or value == 'uval'):
        return value
    return 'B:' + name


# --------------------------------------------------------------------------
# function factory
# --------------------------------------------------------------------------

def param_str(sig, leading=()):
    pos_req = [n for n, k in sig if k == 'req']
    pos_opt = [n for n, k in sig if k == 'opt']
    kw = [(n, k) for n, k in sig if k in ('kwreq', 'kwopt')]
    parts = list(leading) + pos_req
    return parts, pos_opt, kw


def make_fn(fn_id, sig, leading=(), provides=(), result='response'):
    parts, pos_opt, kw = param_str(sig, leading)
    parts = list(parts)
    parts += ['%s=%r' % (n, 'D:%s:%s' % (fn_id, n)) for n in pos_opt]
    if kw:
        parts.append('*')
        for n, k in kw:
            if k == 'kwreq':
                parts.append(n)
            else:
                parts.append('%s=%r' % (n, 'D:%s:%s' % (fn_id, n)))
    names = [n for n, _ in sig]
    seen = 'dict(%s)' % ', '.join(['%s=norm(%r, %s)' % (n, n, n) for n in names])
    if 'next' in leading:
        prov = ', '.join(['%s=%r' % (p, 'P:%s:%s' % (fn_id, p)) for p in provides])
        ret = 'next(%s)' % prov
    elif result == 'response':
        ret = 'Response(%r)' % fn_id
    else:
        ret = '{"from": %r}' % fn_id
    src = ('def fn(%s):\n    LOG.append((%r, %s))\n    return %s\n'
           % (', '.join(parts), fn_id, seen, ret))
    env = {'LOG': LOG, 'norm': norm, 'Response': Response}
    exec(src, env)
    fn = env['fn']
    fn.__name__ = fn_id.replace('.', '_')
    return fn


_MW_COUNTER = [0]


def make_mw(spec):
    """spec: dict phase -> (sig, provides); phases: request/endpoint/render."""
    _MW_COUNTER[0] += 1
    mw_id = 'mw%d' % _MW_COUNTER[0]
    attrs = {}
    prov_attr = {'request': 'provides', 'endpoint': 'endpoint_provides',
                 'render': 'render_provides'}
    for phase, (sig, provides) in spec.items():
        attrs[prov_attr[phase]] = tuple(provides)
        if sig is not None:
            attrs[phase] = make_fn('%s.%s' % (mw_id, phase), sig,
                                   leading=('self', 'next'), provides=provides)
    cls = type('MW_' + mw_id, (Middleware,), attrs)
    inst = cls()
    inst.demo_id = mw_id
    inst.demo_spec = spec
    return inst


# --------------------------------------------------------------------------
# independent model
# --------------------------------------------------------------------------

def model_conflicts(mws, url, resources):
    count = {}
    for n in list(url) + list(RESERVED_ARGS) + list(resources):
        count[n] = count.get(n, 0) + 1
    for mw in mws:
        for phase, (sig, provides) in mw.demo_spec.items():
            for p in provides:
                count[p] = count.get(p, 0) + 1
    return any(c > 1 for c in count.values())


def model_phase(calls, scope):
    """calls: list of (fn_id, sig, provides).  Returns (ok, expected_log)."""
    scope = dict(scope)
    out = []
    for fn_id, sig, provides in calls:
        seen = {}
        for n, k in sig:
            if k in ('req', 'kwreq'):
                if n not in scope:
                    return False, None
                seen[n] = scope[n]
            else:
                seen[n] = scope.get(n, 'D:%s:%s' % (fn_id, n))
        out.append((fn_id, seen))
        for p in provides:
            scope[p] = 'P:%s:%s' % (fn_id, p)
    return True, out


def model_route(mws, ep_id, ep_sig, rn_id, rn_sig, url, resources):
    """Returns (outcome, expected_log) with outcome in 'ok' / 'NameError'."""
    if model_conflicts(mws, url, resources):
        return 'NameError', None
    if 'next' in [n for n, _ in ep_sig] or 'next' in [n for n, _ in rn_sig]:
        return 'NameError', None
    base = {}
    for n in url:
        base[n] = 'uval'
    for n in resources:
        base[n] = 'R:' + n
    for n in ('request', '_application', '_route', '_dispatch_state'):
        base[n] = 'B:' + n

    def calls_of(phase):
        ret = []
        for mw in mws:
            sig, provides = mw.demo_spec.get(phase, (None, ()))
            if sig is not None:
                ret.append(('%s.%s' % (mw.demo_id, phase), sig, provides))
        return ret

    req_calls = calls_of('request')
    ep_scope = dict(base)
    for fn_id, sig, provides in req_calls:
        for p in provides:
            ep_scope[p] = 'P:%s:%s' % (fn_id, p)
    ok, ep_log = model_phase(calls_of('endpoint') + [(ep_id, ep_sig, ())], ep_scope)
    if not ok:
        return 'NameError', None
    rn_scope = dict(ep_scope, context='B:context')
    ok, rn_log = model_phase(calls_of('render') + [(rn_id, rn_sig, ())], rn_scope)
    if not ok:
        return 'NameError', None
    ok, req_log = model_phase(req_calls, base)
    if not ok:
        return 'NameError', None
    return 'ok', req_log + ep_log + rn_log


NULL_EP_SIG = [(n, 'req') for n in ('request', '_application', '_route', '_dispatch_state')]
NOOP_RN_SIG = [('context', 'req')]


# --------------------------------------------------------------------------
# randomised sweep
# --------------------------------------------------------------------------

ALPHA = ['a', 'b', 'c', 'd']


def rand_sig(rng, phase, extra=()):
    pool = ALPHA + ['u', 'r', 'request', '_route'] + list(extra)
    if phase == 'render' or rng.random() < 0.05:
        pool = pool + ['context']
    k = rng.choice([0, 0, 1, 1, 2, 3])
    names = rng.sample(pool, k)
    sig = []
    for n in names:
        kind = rng.choice(['req', 'req', 'req', 'opt', 'opt', 'kwreq', 'kwopt'])
        sig.append((n, kind))
    return sig


def rand_mw(rng, free_names):
    spec = {}
    for phase in ('request', 'endpoint', 'render'):
        r = rng.random()
        if r < 0.5:
            continue
        provides = []
        for _ in range(rng.choice([0, 0, 1, 1, 2])):
            if free_names and rng.random() < 0.93:
                provides.append(free_names.pop())
            else:
                provides.append(rng.choice(ALPHA))  # may conflict
        provides = list(dict.fromkeys(provides))
        if r < 0.55:
            spec[phase] = (None, provides)  # provides declared, no function
        else:
            spec[phase] = (rand_sig(rng, phase), provides)
    return make_mw(spec)


def run_config(rng, stats):
    free = list(ALPHA)
    rng.shuffle(free)
    app_mws = [rand_mw(rng, free) for _ in range(rng.choice([0, 1, 1, 2]))]
    route_mws = [rand_mw(rng, free) for _ in range(rng.choice([0, 0, 1, 2]))]
    resources = {'r': 'R:r'} if rng.random() < 0.7 else {}
    with_url = rng.random() < 0.7
    pattern = '/x/<u>' if with_url else '/x/uval'
    url = ['u'] if with_url else []

    ep_sig = rand_sig(rng, 'endpoint', extra=['_application', '_dispatch_state'])
    if rng.random() < 0.03:
        ep_sig.append(('next', 'req'))
    has_render = rng.random() < 0.6
    if has_render:
        rn_sig = rand_sig(rng, 'render')
        rn = make_fn('rn', rn_sig)
        ep = make_fn('ep', ep_sig, result='context')
    else:
        rn_sig = NOOP_RN_SIG
        rn = None
        ep = make_fn('ep', ep_sig)

    all_mws = app_mws + route_mws
    exp, exp_log = model_route(all_mws, 'ep', ep_sig, 'rn', rn_sig, url, resources)
    null_exp, _ = model_route(app_mws, 'null', NULL_EP_SIG, 'noop', NOOP_RN_SIG,
                              ['_ignored'], resources)
    if null_exp != 'ok':
        exp = 'NameError'
    if not has_render and exp_log is not None:
        # the endpoint answers with a Response: the whole render phase is skipped
        exp_log = [e for e in exp_log if e[0] != 'rn' and not e[0].endswith('.render')]

    def construct(via_add):
        route = Route(pattern, ep, rn, middlewares=route_mws)
        eh = ErrorHandler(reraise_uncaught=True)
        if via_add:
            app = Application([], resources, app_mws, error_handler=eh)
            app.add(route)
        else:
            app = Application([route], resources, app_mws, error_handler=eh)
        return app

    outcomes = []
    app = None
    for via_add in (False, True):
        try:
            app = construct(via_add)
            outcomes.append('ok')
        except NameError:
            outcomes.append('NameError')
        except RuntimeError as e:
            assert 'cycle detected' in str(e), e
            outcomes.append('cycle')
    if 'cycle' in outcomes:
        stats['cycle'] += 1
        return
    if null_exp == 'ok':
        assert outcomes[0] == outcomes[1], outcomes
    else:
        # Application([]) itself fails when the catch-all route cannot be bound
        assert outcomes == ['NameError', 'NameError'], outcomes
    assert outcomes[0] == exp, (outcomes, exp, [m.demo_spec for m in all_mws], ep_sig, rn_sig)
    stats[exp] += 1
    if exp != 'ok':
        return

    cl = app.get_local_client()
    del LOG[:]
    resp = cl.get('/x/uval')
    assert resp.status_code == 200, resp.status_code
    assert LOG == exp_log, (LOG, exp_log)
    # the catch-all: 404 and 405 run the application level middlewares
    del LOG[:]
    resp = cl.get('/nowhere/at/all')
    assert resp.status_code == 404, resp.status_code
    called = [e[0] for e in LOG]
    # (the catch-all endpoint returns an HTTPException, itself a response: no render phase)
    want = ['%s.%s' % (m.demo_id, ph) for ph in ('request', 'endpoint')
            for m in app_mws if m.demo_spec.get(ph, (None,))[0] is not None]
    assert called == want, (called, want)


# --------------------------------------------------------------------------
# direct checks of check_middleware / check_middlewares
# --------------------------------------------------------------------------

def expect(exc_type, func, *a, **kw):
    try:
        func(*a, **kw)
    except exc_type as e:
        assert type(e) is exc_type, (type(e), exc_type)
        return e
    raise AssertionError('expected %s' % exc_type.__name__)


def check_conflicts():
    from clastic.middleware.core import check_middlewares, check_middleware

    class P1(Middleware):
        provides = ('a', 'b')
        endpoint_provides = ('c',)
        render_provides = ('d',)

        def request(self, next):
            return next(a=1, b=2)

        def endpoint(self, next):
            return next(c=3)

        def render(self, next):
            return next(d=4)

    class P2(Middleware):
        provides = ('e',)

        def request(self, next):
            return next(e=5)

    class DupReq(Middleware):      # same name in the request phase
        provides = ('a',)

    class DupCross(Middleware):    # request name re-provided in endpoint phase
        endpoint_provides = ('b',)

    class DupRender(Middleware):   # endpoint name re-provided in the render phase
        render_provides = ('c', 'zz')

    class SelfDup(Middleware):     # one middleware, same name in two phases
        provides = ('s',)
        render_provides = ('s',)

    class TwiceInTuple(Middleware):
        provides = ('t', 't')

    p1, p2 = P1(), P2()
    assert check_middlewares([]) is True
    assert check_middlewares([], None) is True
    assert check_middlewares([], {}) is True
    assert check_middlewares([p1, p2]) is True
    assert check_middlewares((p1, p2), {'url': ['u'], 'res': set(['r'])}) is True
    assert check_middlewares(iter([p1, p2]), {'url': ('u',)}) is True

    def conflicts_of(mws, args_dict=None):
        e = expect(NameError, check_middlewares, mws, args_dict)
        msg = str(e)
        assert msg.startswith('found conflicting provides: ['), msg
        return msg

    d = DupReq()
    msg = conflicts_of([p1, d])
    assert msg == 'found conflicting provides: %r' % ([('a', (p1, d))],), msg
    msg = conflicts_of([d, p1])
    assert msg == 'found conflicting provides: %r' % ([('a', (d, p1))],), msg
    dc, dr = DupCross(), DupRender()
    msg = conflicts_of([p1, dc, dr, p2])
    assert msg == 'found conflicting provides: %r' % ([('b', (p1, dc)), ('c', (p1, dr))],), msg
    sd = SelfDup()
    msg = conflicts_of([sd])
    assert msg == 'found conflicting provides: %r' % ([('s', (sd, sd))],), msg
    tt = TwiceInTuple()
    msg = conflicts_of([tt])
    assert msg == 'found conflicting provides: %r' % ([('t', (tt, tt))],), msg
    # sources from args_dict come first, in the order of the mapping
    from collections import OrderedDict
    srcs = OrderedDict([('url', ['a']), ('builtins', ('next', 'a')), ('resources', set(['e']))])
    msg = conflicts_of([p1, p2], srcs)
    assert msg == 'found conflicting provides: %r' % (
        [('a', ('url', 'builtins', p1)), ('e', ('resources', p2))],), msg
    # conflicts purely inside args_dict, no middlewares at all
    msg = conflicts_of([], OrderedDict([('x', ['q']), ('y', ['q'])]))
    assert msg == "found conflicting provides: [('q', ('x', 'y'))]", msg
    # falsy args_dict variants behave like "no sources"
    for falsy in (None, {}, (), 0, ''):
        assert check_middlewares([p1], falsy) is True

    # per-middleware checks happen before that middleware's provides are counted,
    # and in the order request, endpoint, render
    class NotCallable(Middleware):
        request = 5
        provides = ('a',)

    class NoNext(Middleware):
        def endpoint(self, a):
            pass

    class NextSecond(Middleware):
        def render(self, context, next):
            pass

    class NoArgs(Middleware):
        def request(self):
            pass

    class TwoBad(Middleware):
        request = 'nope'

        def endpoint(self, a):
            pass

    e = expect(TypeError, check_middlewares, [p1, NotCallable()])
    assert str(e) == 'expected NotCallable.request to be a function', str(e)
    e = expect(TypeError, check_middleware, NoNext())
    assert str(e) == ("middleware functions must take argument 'next' as the"
                      " first parameter (NoNext.endpoint)"), str(e)
    e = expect(TypeError, check_middleware, NextSecond())
    assert str(e).endswith('(NextSecond.render)'), str(e)
    expect(IndexError, check_middleware, NoArgs())
    e = expect(TypeError, check_middleware, TwoBad())
    assert str(e) == 'expected TwoBad.request to be a function', str(e)
    assert check_middleware(p1) is None
    assert check_middleware(Middleware()) is None

    class Falsy(Middleware):   # falsy attribute values count as "not set"
        request = 0
        endpoint = ''
        render = None
    assert check_middleware(Falsy()) is None

    # an object that is not a Middleware at all: attribute errors surface as such
    class Half(object):
        name = 'Half'
        provides = ('h',)
    expect(AttributeError, check_middlewares, [Half()])

    # a lazily evaluated provides (generator) is consumed exactly once, in order
    class Lazy(Middleware):
        @property
        def provides(self):
            order.append('provides')
            return iter(['l1', 'l2'])

        @property
        def endpoint_provides(self):
            order.append('endpoint_provides')
            return ()

        @property
        def render_provides(self):
            order.append('render_provides')
            return ['l3']
    order = []
    assert check_middlewares([Lazy()]) is True
    assert order == ['provides', 'endpoint_provides', 'render_provides'], order

    # through the Application: duplicate against url / builtins / resources
    class ProvU(Middleware):
        provides = ('u',)

        def request(self, next):
            return next(u=1)

    class ProvR(Middleware):
        render_provides = ('r',)

    class ProvReq(Middleware):
        endpoint_provides = ('request',)

    ok_ep = lambda: Response('x')
    expect(NameError, Application, [('/<u>', ok_ep)], middlewares=[ProvU()])
    app = Application([('/', lambda u: Response(str(u)))], middlewares=[ProvU()])
    assert app.get_local_client().get('/').data == b'1'
    expect(NameError, Application, [('/', ok_ep)], {'r': 1}, [ProvR()])
    expect(NameError, Application, [Route('/', ok_ep, resources={'r': 1})], {}, [ProvR()])
    expect(NameError, Application, [], {}, [ProvReq()])
    expect(NameError, Application, [], {}, [P1(), DupReq()])
    expect(NameError, Application, [Route('/', ok_ep, middlewares=[DupCross()])], {}, [P1()])
    app = Application([], {}, [P1()])
    expect(NameError, app.add, Route('/', ok_ep, middlewares=[DupRender()]))
    assert len(app.routes) == 0


def check_handwritten():
    eh = lambda: ErrorHandler(reraise_uncaught=True)

    class ProvA(Middleware):
        provides = ('a',)

        def request(self, next):
            return next(a='A')

    # endpoint kinds
    class K(object):
        def m(self, a, u):
            return Response('m:%s:%s' % (a, u))

        def __call__(self, a, r='dflt'):
            return Response('call:%s:%s' % (a, r))

        @staticmethod
        def s(a, *, request):
            return Response('s:%s:%s' % (a, request.path))

        @classmethod
        def c(cls, a, b='B'):
            return Response('c:%s:%s' % (a, b))

    k = K()
    app = Application([('/m/<u>', k.m), ('/call', k), ('/s', K.s), ('/c', K.c),
                       ('/l', lambda a, _route: Response('l:%s' % a))],
                      resources={'r': 'RES'}, middlewares=[ProvA()], error_handler=eh())
    cl = app.get_local_client()
    assert cl.get('/m/7').data == b'm:A:7'
    assert cl.get('/call').data == b'call:A:RES'
    assert cl.get('/s').data == b's:A:/s'
    assert cl.get('/c').data == b'c:A:B'
    assert cl.get('/l').data == b'l:A'
    assert cl.get('/zzz').status_code == 404
    assert cl.post('/zzz').status_code == 404

    # rejection: unknown names, keyword-only required, next in endpoint, context in endpoint
    bad_eps = [lambda zzz: None, lambda a, *, zzz: None, lambda next: None,
               lambda context: None, lambda u: None]
    for ep in bad_eps:
        for build in (lambda: Application([('/', ep)], middlewares=[ProvA()]),
                      lambda: Application([], middlewares=[ProvA()]).add(('/', ep))):
            try:
                build()
            except NameError:
                pass
            else:
                raise AssertionError('expected NameError')
    # ... and accepted when defaulted
    for ep in (lambda zzz=1: Response('k'), lambda a, *, zzz=2: Response('k'),
               lambda u=None: Response('k')):
        app = Application([('/', ep)], middlewares=[ProvA()], error_handler=eh())
        assert app.get_local_client().get('/').data == b'k'

    # app-level middleware that needs a URL binding: the catch-all cannot be bound
    class NeedsU(Middleware):
        def request(self, next, u):
            return next()
    try:
        Application([('/<u>', lambda: Response('x'))], middlewares=[NeedsU()])
    except NameError:
        pass
    else:
        raise AssertionError('expected NameError (catch-all route)')
    app = Application([Route('/<u>', lambda u: Response(u), middlewares=[NeedsU()])],
                      error_handler=eh())
    assert app.get_local_client().get('/q').data == b'q'

    # 405 via the catch-all
    app = Application([POST('/p', lambda: Response('p'))], middlewares=[ProvA()],
                      error_handler=eh())
    assert app.get_local_client().get('/p').status_code == 405
    assert app.get_local_client().post('/p').data == b'p'

    # resource names must not clash with builtins
    for n in RESERVED_ARGS:
        try:
            Application([], resources={n: 1})
        except NameError:
            pass
        else:
            raise AssertionError('expected NameError')


def main():
    check_conflicts()
    check_handwritten()
    rng = random.Random(20261003)
    stats = {'ok': 0, 'NameError': 0, 'cycle': 0}
    for i in range(700):
        run_config(rng, stats)
    assert stats['ok'] >= 100, stats
    assert stats['NameError'] >= 100, stats
    print('configs: %r' % (stats,))
    print('PASS')


if __name__ == '__main__':
    main()
    sys.exit(0)
