# -*- coding: utf-8 -*-
"""demo2: the bind-time dependency check against an independent oracle.

Generates (with a fixed seed) a few thousand small configurations:
0-4 middlewares (application- and route-level), each with any subset
of request / endpoint / render functions whose signatures mix
required, defaulted and keyword-only parameters, provides tuples in
the three phases, resources and URL bindings.  For each of them the
outcome of Application(...) must agree with the oracle below (which
restates the property, not the implementation), and every accepted
application must answer its route and the catch-all route without the
framework ever calling a function with a missing / unexpected
argument.
"""
import random
import sys

from werkzeug.wrappers import Response

from clastic import Application, Route
from clastic.middleware import Middleware
from clastic.errors import ErrorHandler

REQUEST_BUILTINS = ('request', '_application', '_route', '_dispatch_state')
POOL = ('a', 'b', 'c', 'd', 'e')
PHASES = (('request', 'provides'),
          ('endpoint', 'endpoint_provides'),
          ('render', 'render_provides'))


class ReraisingHandler(ErrorHandler):
    reraise_uncaught = True


class Sig(object):
    """A generated function together with what the oracle needs to know."""
    def __init__(self, kind, required, optional, kw_required, kw_optional,
                 provides=()):
        self.kind = kind
        self.required = set(required) | set(kw_required)
        self.provides = tuple(provides)
        first = ['next'] if kind.startswith('mw') else []
        params = first + list(required) + ['%s="dflt"' % n for n in optional]
        if kw_required or kw_optional:
            params.append('*')
            params += list(kw_required) + ['%s="dflt"' % n for n in kw_optional]
        names = list(required) + list(optional) + list(kw_required) + list(kw_optional)
        seen = ', '.join('%r: %s' % (n, n) for n in names)
        if kind == 'mw':
            body = 'CALLS.append((%r, {%s})); return next(%s)' % (
                kind, seen, ', '.join('%s=%r' % (p, 'P' + p) for p in provides))
        elif kind == 'endpoint':
            body = 'CALLS.append((%r, {%s})); return {"ctx": 1}' % (kind, seen)
        elif kind == 'endpoint_resp':
            body = 'CALLS.append((%r, {%s})); return Response("direct")' % (kind, seen)
        else:
            body = 'CALLS.append((%r, {%s})); return Response("rendered")' % (kind, seen)
        self.src = 'def f(%s):\n    %s\n' % (', '.join(params), body)
        ns = {'CALLS': CALLS, 'Response': Response}
        exec(self.src, ns)
        self.func = ns['f']


CALLS = []


def rand_sig(rng, kind, names, provides=()):
    picked = rng.sample(names, rng.randint(0, min(3, len(names))))
    cuts = sorted(rng.randint(0, len(picked)) for _ in range(3))
    return Sig(kind, picked[:cuts[0]], picked[cuts[0]:cuts[1]],
               picked[cuts[1]:cuts[2]], picked[cuts[2]:], provides)


def make_mw(rng, index, pool):
    sigs = {}
    attrs = {}
    for func_name, provides_name in PHASES:
        if rng.random() < 0.45:
            provides = ()
            if pool and rng.random() < 0.6:
                provides = (pool.pop(),)
            extra = ('context',) if func_name == 'render' else ()
            sig = rand_sig(rng, 'mw', list(POOL + REQUEST_BUILTINS[:2] + extra), provides)
            sigs[func_name] = sig
            attrs[func_name] = staticmethod(sig.func)
            attrs[provides_name] = provides
        elif pool and rng.random() < 0.1:
            # provides declared but no function for the phase: never supplied
            attrs[provides_name] = (pool.pop(),)
    cls = type('MW%d' % index, (Middleware,), attrs)
    mw = cls()
    mw.sigs = sigs
    return mw


def phase_ok(avail, sigs, final_required):
    """required parameters must come from *avail* or an earlier provider"""
    avail = set(avail)
    for sig in sigs:
        if not sig.required <= avail:
            return False
        avail |= set(sig.provides)
    return final_required <= avail


def oracle(mws, url_names, resources, ep_required, render_required):
    base = set(REQUEST_BUILTINS) | set(url_names) | set(resources)
    req_sigs = [mw.sigs['request'] for mw in mws if 'request' in mw.sigs]
    ep_sigs = [mw.sigs['endpoint'] for mw in mws if 'endpoint' in mw.sigs]
    rn_sigs = [mw.sigs['render'] for mw in mws if 'render' in mw.sigs]
    ep_avail = set(base)
    for sig in req_sigs:
        ep_avail |= set(sig.provides)
    return (phase_ok(base, req_sigs, set())
            and phase_ok(ep_avail, ep_sigs, ep_required)
            and phase_ok(ep_avail | set(['context']), rn_sigs, render_required))


NULL_EP_REQUIRED = set(REQUEST_BUILTINS)


def run_trial(rng, stats):
    pool = list(POOL)
    rng.shuffle(pool)
    url_names = [pool.pop()] if rng.random() < 0.4 else []
    resources = dict((pool.pop(), 'R') for _ in range(rng.randint(0, 1)) if pool)
    n_mws = rng.randint(0, 4)
    all_mws = [make_mw(rng, i, pool) for i in range(n_mws)]
    split = rng.randint(0, n_mws)
    app_mws, route_mws = all_mws[:split], all_mws[split:]

    direct = rng.random() < 0.3
    ep = rand_sig(rng, 'endpoint_resp' if direct else 'endpoint',
                  list(POOL + REQUEST_BUILTINS[:3]))
    render = rand_sig(rng, 'render', list(POOL + ('context', 'request')))
    pattern = '/r' + ''.join('/<%s>' % n for n in url_names)
    path = '/r' + ''.join('/v' for n in url_names)

    route_ok = oracle(app_mws + route_mws, url_names, resources,
                      ep.required, render.required)
    # the catch-all route runs the application-level middlewares with
    # only its own '_ignored' binding and the default (no-op) render
    null_ok = oracle(app_mws, ['_ignored'], resources, NULL_EP_REQUIRED, set(['context']))
    expected_ok = route_ok and null_ok

    route = Route(pattern, ep.func, render.func, middlewares=route_mws)
    try:
        app = Application([route], resources=resources, middlewares=app_mws,
                          error_handler=ReraisingHandler())
    except NameError as e:
        assert type(e) is NameError
        assert not expected_ok, ('rejected a satisfiable configuration', str(e))
        stats['rejected'] += 1
        # the very same route is also refused by add() on a permissive app
        if null_ok:
            bare = Application(resources=resources, middlewares=app_mws)
            try:
                bare.add(route)
            except NameError:
                pass
            else:
                raise AssertionError('add() accepted what Application() refused')
            assert bare.routes == []
        return
    except RuntimeError as e:
        # cyclic provides: either outcome is acceptable
        assert 'cycle detected' in str(e)
        stats['cyclic'] += 1
        return
    assert expected_ok, ('accepted an unsatisfiable configuration',
                         [(mw.sigs, ) for mw in all_mws])
    stats['accepted'] += 1

    client = app.get_local_client()
    del CALLS[:]
    resp = client.get(path)  # any TypeError would propagate (reraise_uncaught)
    assert resp.status_code == 200, resp.status_code
    assert resp.data == (b'direct' if direct else b'rendered'), resp.data
    kinds = [k for k, _ in CALLS]
    assert kinds.count('endpoint_resp' if direct else 'endpoint') == 1
    assert kinds.count('render') == (0 if direct else 1)
    # every function saw each of its parameters; provided values win over defaults
    provided_before = {}
    for kind, seen in CALLS:
        for name, value in seen.items():
            if name in resources:
                assert value == 'R', (name, value)
            elif name in url_names:
                assert value == 'v', (name, value)
            elif name in POOL:
                assert value in ('P' + name, 'dflt'), (name, value)
    resp = client.get('/definitely/not/there')
    assert resp.status_code == 404, resp.status_code
    if url_names:
        resp = client.get('/r')  # binding missing -> falls through to catch-all
        assert resp.status_code == 404, resp.status_code


def main():
    rng = random.Random(20240601)
    stats = {'accepted': 0, 'rejected': 0, 'cyclic': 0}
    for _ in range(2500):
        run_trial(rng, stats)
    assert stats['accepted'] > 300 and stats['rejected'] > 300, stats

    # a few hand-written corner cases of the per-phase availability sets
    class ReqProv(Middleware):
        provides = ('rp',)

        def request(self, next):
            return next(rp='rp')

    class EpProv(Middleware):
        endpoint_provides = ('epp',)

        def endpoint(self, next, rp):
            return next(epp='epp+' + rp)

    class RnProv(Middleware):
        render_provides = ('rnp',)

        def render(self, next, context, epp='no-epp'):
            return next(rnp='rnp/' + epp)

    mws = [RnProv(), EpProv(), ReqProv()]  # phases are independent of stack order
    app = Application([Route('/x', lambda epp, rp: {'v': epp},
                             lambda context, rnp, rp: Response(context['v'] + ',' + rnp + ',' + rp))],
                      middlewares=mws, error_handler=ReraisingHandler())
    # endpoint_provides are not in scope in the render phase: the default is used
    assert app.get_local_client().get('/x').data == b'epp+rp,rnp/no-epp,rp'
    for bad_ep, bad_render in [(lambda rnp: None, None),          # render_provides in endpoint
                               (lambda context: None, None),      # context in endpoint
                               (lambda: {}, lambda epp: None),     # endpoint_provides in render
                               (lambda next: None, None),          # reserved
                               (lambda: {}, lambda next: None)]:
        try:
            Application([Route('/x', bad_ep, bad_render)], middlewares=mws)
        except NameError as e:
            assert type(e) is NameError
        else:
            raise AssertionError('expected NameError')
    # duplicate provides across middlewares / with a resource
    class ReqProv2(Middleware):
        provides = ('rp',)
    for kwargs in [dict(middlewares=[ReqProv(), ReqProv2()]),
                   dict(middlewares=[ReqProv()], resources={'rp': 1})]:
        try:
            Application([('/x', lambda: Response('x'))], **kwargs)
        except NameError as e:
            assert 'conflicting provides' in str(e)
        else:
            raise AssertionError('expected NameError')

    print('PASS')
    return 0


if __name__ == '__main__':
    sys.exit(main())
