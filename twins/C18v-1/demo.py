# -*- coding: utf-8 -*-
"""demo1: resource listing of the meta application (get_resource_info).

Secret-named resources are redacted (HTML + JSON), the others stay visible,
the page always answers 200.  Prints PASS and exits 0.
"""
import json
import sys
import types

from clastic import Application, MetaApplication, SubApplication, render_basic
from clastic.meta import get_resource_info, _trunc
from clastic.middleware.cookie import SignedCookieMiddleware

SECRET = 'Zq9hunter2Xy'
COOKIE_KEY = 'K3yK3yK3y-cookie-signing'


class Leaky(object):
    def __init__(self, tag):
        self.tag = tag

    def __repr__(self):
        return '<Leaky %s>' % self.tag


class BadRepr(object):
    def __repr__(self):
        raise RuntimeError('cannot repr ' + SECRET)


def hello(request):
    return 'hello'


def expected_rows(resources):
    rows = []
    for k, v in resources.items():
        if 'secret' in k:
            rows.append({'key': k, 'value': '[REDACTED]'})
        else:
            r = repr(v)
            if len(r) > 70:
                r = r[:67] + '...'
            rows.append({'key': k, 'value': r})
    return rows


def fake_app(resources):
    return types.SimpleNamespace(resources=resources)


# ---------------------------------------------------------------- unit level
resources = {
    'secret_prefix': SECRET,
    'my_secret_infix_x': SECRET.encode('ascii'),
    'suffix_secret': [1, {'deep': SECRET}],
    'secret': Leaky(SECRET),
    'top_secrets': (SECRET, 42),
    'Secret_capital': 'capital-visible',      # case sensitive: not redacted
    'sec_ret': 'split-visible',
    'plain': 'bokay',
    'zero': 0,
    'empty': '',
    'none': None,
    'blob': b'\x00\xffbytes',
    'long': 'L' * 200,
    'exactly70': 'x' * 68,                    # repr is 70 chars: untouched
    'seventy1': 'y' * 69,                     # repr is 71 chars: truncated
    'nested': {'a': [1, 2, (3, 4)], 'b': {5, }},
    'obj': Leaky('harmless'),
    u'unicod\xe9': u'caf\xe9',
}
rows = get_resource_info(fake_app(resources))
assert isinstance(rows, list)
assert rows == expected_rows(resources), rows
assert [r['key'] for r in rows] == list(resources)          # insertion order
assert all(list(r) == ['key', 'value'] for r in rows)       # key order
assert SECRET not in repr(rows)
assert sum(1 for r in rows if r['value'] == '[REDACTED]') == 5
assert len(_trunc(repr('y' * 69))) == 70
# fresh objects each call, nothing cached / shared
again = get_resource_info(fake_app(resources))
assert again == rows and again is not rows and again[0] is not rows[0]
assert get_resource_info(fake_app({})) == []

# a secret resource is never even repr()-ed; a non-secret one with a broken
# repr propagates its own exception
assert get_resource_info(fake_app({'secret_bad': BadRepr()})) == \
    [{'key': 'secret_bad', 'value': '[REDACTED]'}]
try:
    get_resource_info(fake_app({'ok': 1, 'bad': BadRepr()}))
except RuntimeError as e:
    assert 'cannot repr' in str(e)
else:
    raise AssertionError('expected RuntimeError')

# non-text keys: `'secret' in key` raises TypeError, unchanged
for bad_key in (5, b'secret_bytes', None):
    try:
        get_resource_info(fake_app({bad_key: 'v'}))
    except TypeError:
        pass
    else:
        raise AssertionError('expected TypeError for %r' % (bad_key,))
# tuple keys support `in`
assert get_resource_info(fake_app({('secret', 1): SECRET, ('a',): 1})) == \
    [{'key': ('secret', 1), 'value': '[REDACTED]'}, {'key': ('a',), 'value': '1'}]

# objects lacking .resources / .items -> AttributeError
for broken in (types.SimpleNamespace(), fake_app(None), fake_app([('a', 1)])):
    try:
        get_resource_info(broken)
    except AttributeError:
        pass
    else:
        raise AssertionError('expected AttributeError')


# --------------------------------------------------------------- whole pages
def check_pages(app, prefix, resources):
    cl = app.get_local_client()
    html_resp = cl.get(prefix + '/')
    assert html_resp.status_code == 200, (prefix, html_resp.status_code)
    html = html_resp.get_data(as_text=True)
    json_resp = cl.get(prefix + '/json/')
    assert json_resp.status_code == 200, (prefix, json_resp.status_code)
    raw_json = json_resp.get_data(as_text=True)
    data = json.loads(raw_json)

    for body in (html, raw_json):
        assert SECRET not in body
        assert COOKIE_KEY not in body
    if any('secret' in k for k in resources):
        assert '[REDACTED]' in html and '[REDACTED]' in raw_json
    str_resources = dict((k, v) for k, v in resources.items())
    assert data['app']['resources'] == json.loads(json.dumps(expected_rows(str_resources)))
    assert 'exc_content' not in data['app']
    for k in resources:
        assert '<td>%s</td>' % k in html, k
    for visible in ('bokay', 'capital-visible', 'split-visible', 'harmless'):
        if any(visible in repr(v) for v in resources.values()):
            assert visible in html and visible in raw_json, visible
    return data


page_resources = dict((k, v) for k, v in resources.items()
                      if isinstance(k, str) and k != u'unicod\xe9')
mws = [SignedCookieMiddleware(secret_key=COOKIE_KEY)]

for prefix in ('/meta', '/_meta/deep/er', '/m'):
    app = Application([(prefix, MetaApplication()),
                       ('/hello', hello, render_basic)],
                      resources=page_resources, middlewares=mws)
    data = check_pages(app, prefix, page_resources)
    assert data['app']['middlewares'][0]['type_name'] == 'SignedCookieMiddleware'

# no resources at all
app = Application([('/meta', MetaApplication())])
cl = app.get_local_client()
resp = cl.get('/meta/')
assert resp.status_code == 200 and 'No resources.' in resp.get_data(as_text=True)
assert json.loads(cl.get('/meta/json/').data)['app']['resources'] == []

# meta embedded two levels deep: it reports the outermost (serving) application
inner = Application([('/meta', MetaApplication()), ('/hello', hello, render_basic)],
                    resources={'innermost_secret': SECRET, 'innermost_ok': 'innermost'})
middle = Application([('/inner', inner)], resources={'middle_secret_x': SECRET})
outer = Application([('/outer', middle)],
                    resources={'inner_secret': SECRET, 'inner_ok': 'bokay'})
cl = outer.get_local_client()
resp = cl.get('/outer/inner/meta/')
assert resp.status_code == 200
html = resp.get_data(as_text=True)
raw = cl.get('/outer/inner/meta/json/').get_data(as_text=True)
assert cl.get('/outer/inner/meta/json/').status_code == 200
for body in (html, raw):
    assert SECRET not in body and 'bokay' in body and '[REDACTED]' in body
listed = json.loads(raw)['app']['resources']
assert {'key': 'inner_secret', 'value': '[REDACTED]'} in listed
assert {'key': 'inner_ok', 'value': "'bokay'"} in listed

print('PASS')
sys.exit(0)
