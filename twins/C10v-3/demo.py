# -*- coding: utf-8 -*-
"""C10 demo 3: an embedded application answers like the flat declaration.

Emphasis: what re-binding a route computes (BoundRoute.__init__): prefixed
pattern, slash mode, resources, middlewares, render / render_error selection,
the bind options and the order of the binding steps, at depth 1..3.

Prints PASS and exits 0 when every assertion holds.
"""
from __future__ import print_function

import random
import sys

from clastic import Application, SubApplication, Route, Middleware, Response
from clastic import S_REDIRECT, S_REWRITE, S_STRICT
from clastic.errors import ErrorHandler, NotFound

TRACE = []


# ---------------------------------------------------------------- middlewares
class TraceMW(Middleware):
    def __init__(self, label):
        self.label = label

    def request(self, next):
        TRACE.append('%s@%s' % (type(self).__name__, self.label))
        return next()


class MwA(TraceMW):
    pass


class MwB(TraceMW):
    pass


class MwC(TraceMW):
    pass


class MwStamp(TraceMW):
    provides = ('stamp',)

    def request(self, next):
        TRACE.append('%s@%s' % (type(self).__name__, self.label))
        return next(stamp='stamp-from-' + self.label)


MW_TYPES = [MwA, MwB, MwC]


# ------------------------------------------------------------------ endpoints
def ep_plain(request):
    return {'ep': 'plain', 'path': request.path}


def ep_shared(request, shared):
    return {'ep': 'shared', 'shared': shared}


def ep_two(shared, other):
    return {'ep': 'two', 'shared': shared, 'other': other}


def ep_id(id):
    return {'ep': 'id', 'id': id}


def ep_parts(parts):
    return {'ep': 'parts', 'parts': parts}


def ep_opt(x):
    return {'ep': 'opt', 'x': x}


def ep_stamp(stamp):
    return {'ep': 'stamp', 'stamp': stamp}


def ep_notfound(request):
    raise NotFound()


def ep_soft_notfound(request):
    raise NotFound(is_breaking=False)


def ep_boom(request):
    raise ValueError('boom')


def ep_resp(request):
    return Response('direct:' + request.path)


def render_text(context):
    return Response('text|%r' % sorted(context.items()))


class Factory(object):
    def __init__(self, tag):
        self.tag = tag

    def __call__(self, arg):
        tag = self.tag

        def render(context):
            return Response('%s|%s|%r' % (tag, arg, sorted(context.items())))
        return render


class TagEH(ErrorHandler):
    def __init__(self, tag, **kw):
        super(TagEH, self).__init__(**kw)
        self.tag = tag

    def render_error(self, request, _error):
        return Response('EH-%s|%s|%s' % (self.tag, _error.code, request.path),
                        status=_error.code)


class FlatRoute(Route):
    # a flat route that keeps its own slash mode (the opted-out case)
    inherit_slashes = False


# ------------------------------------------------------------ spec generation
LEAVES = [('/', ep_plain), ('/leaf', ep_plain), ('/branch/', ep_plain),
          ('/item/<id:int>', ep_id), ('/multi/<parts*>', ep_parts),
          ('/opt/<x?int>', ep_opt), ('/plus/<parts+int>/', ep_parts),
          ('/nf', ep_notfound), ('/soft', ep_soft_notfound),
          ('/soft', ep_plain), ('/boom', ep_boom), ('/resp/', ep_resp),
          ('/shared', ep_shared), ('/two/', ep_two), ('/stamp', ep_stamp)]
PREFIXES = ['/p', '/p/', '/', '/a/b', '/q/', '/deep/er/']
MODES = [S_REDIRECT, S_REWRITE, S_STRICT]
RENDERS = ['callable', 'arg', 'arg', 'none']
METHODS = [None, None, ('GET',), ('POST',), ('GET', 'PUT')]


def gen_app(rng, depth, name, outer_res):
    """-> spec dict; *outer_res* are the names the outermost app defines."""
    spec = {'name': name, 'routes': [], 'mode': rng.choice(MODES),
            'eh': rng.choice([None, name]), 'factory': rng.choice([None, name]),
            'mws': [], 'res': {}}
    for mw_type in rng.sample(MW_TYPES, rng.randint(0, 3)):
        spec['mws'].append((mw_type, name))
    if name == 'L0':
        for res_name in outer_res:
            spec['res'][res_name] = '%s-of-%s' % (res_name, name)
    else:
        # an inner level only repeats a name the outermost level defines:
        # names shared by two inner levels alone have no documented order
        for res_name in outer_res:
            if rng.random() < 0.5:
                spec['res'][res_name] = '%s-of-%s' % (res_name, name)
    n_entries = rng.randint(2, 5)
    n_subs = 0
    for i in range(n_entries):
        if depth > 1 and (rng.random() < 0.4 or (i == n_entries - 1 and not n_subs)):
            n_subs += 1
            sub = gen_app(rng, depth - 1, '%s%d' % (name, i), outer_res)
            spec['routes'].append({'kind': 'sub', 'prefix': rng.choice(PREFIXES),
                                   'app': sub, 'tuple': rng.random() < 0.4,
                                   'rebind': rng.random() < 0.5,
                                   'inherit': rng.random() < 0.6})
            continue
        pattern, ep = rng.choice(LEAVES)
        if ep in (ep_shared, ep_two):
            # the endpoint's own level must be able to satisfy it; a name the
            # outermost level lacks gets one value on all inner levels (the
            # precedence between two inner levels is not documented)
            for res_name in ('shared', 'other'):
                if res_name in outer_res or name == 'L0':
                    value = '%s-of-%s' % (res_name, name)
                else:
                    value = '%s-inner' % res_name
                spec['res'].setdefault(res_name, value)
        if ep is ep_stamp and not any(t is MwStamp for t, _ in spec['mws']):
            spec['mws'].append((MwStamp, name))
        spec['routes'].append({'kind': 'route', 'pattern': pattern, 'ep': ep,
                               'render': rng.choice(RENDERS),
                               'methods': rng.choice(METHODS)})
    return spec


def make_mws(spec):
    return [mw_type(label) for mw_type, label in spec['mws']]


def make_eh(spec):
    return TagEH(spec['eh']) if spec['eh'] else None


def make_factory(tag):
    return Factory(tag) if tag else None


# ------------------------------------------------------------- nested builder
def build_nested(spec):
    entries = []
    for ent in spec['routes']:
        if ent['kind'] == 'route':
            render = {'callable': render_text, 'arg': 'tmpl', 'none': None}[ent['render']]
            kw = {}
            if ent['methods']:
                kw['methods'] = ent['methods']
            entries.append(Route(ent['pattern'], ent['ep'], render, **kw))
        else:
            sub_app = build_nested(ent['app'])
            if ent['tuple']:
                entries.append((ent['prefix'], sub_app))
            else:
                entries.append(SubApplication(ent['prefix'], sub_app,
                                              rebind_render=ent['rebind'],
                                              inherit_slashes=ent['inherit']))
    return Application(entries, resources=dict(spec['res']),
                       middlewares=make_mws(spec),
                       render_factory=make_factory(spec['factory']),
                       error_handler=make_eh(spec), slash_mode=spec['mode'])


# --------------------------------------------------------------- flat builder
def iter_leaves(spec, chain=()):
    """Yield (leaf entry, chain) in declaration order; chain is a tuple of
    (app spec, embedding entry or None) from the outermost level inwards."""
    for ent in spec['routes']:
        if ent['kind'] == 'route':
            yield ent, chain + ((spec, None),)
        else:
            for item in iter_leaves(ent['app'], chain + ((spec, ent),)):
                yield item


def expected_render(kind, chain):
    if kind == 'callable':
        return render_text
    if kind == 'none':
        return None
    cur, seen = None, []
    inwards = list(chain)            # outermost ... innermost
    levels = inwards[::-1]           # innermost ... outermost
    for k, (app_spec, _) in enumerate(levels):
        seen.append(app_spec['factory'])
        if k == 0:
            rebind = True            # Application.add of a plain Route
        else:
            emb = levels[k][1]       # entry of level k embedding level k-1
            rebind = False if emb['tuple'] else emb['rebind']
        if rebind or cur is None:
            latest = [t for t in seen if t]
            if latest:
                cur = latest[-1]
    return Factory(cur)('tmpl') if cur else None


def build_flat(spec):
    routes = []
    for leaf, chain in iter_leaves(spec):
        specs = [s for s, _ in chain]
        prefix = ''.join(emb['prefix'].rstrip('/') for _, emb in chain if emb)
        # middlewares: outer then inner, a type kept once (outermost instance)
        merged = []
        for app_spec in specs:
            for mw_type, label in app_spec['mws']:
                if not any(t is mw_type for t, _ in merged):
                    merged.append((mw_type, label))
        own = len([1 for t, _ in merged if any(t is o for o, _ in spec['mws'])])
        route_mws = [t(label) for t, label in merged
                     if not any(t is o for o, _ in spec['mws'])]
        assert own == len(spec['mws'])
        # resources of the inner levels (inner wins; the outermost level's
        # values win at request time and live on the flat application)
        res = {}
        for app_spec in specs[1:]:
            res.update(app_spec['res'])
        # slash mode: the innermost application's, replaced at each embedding
        # that inherits
        mode = specs[-1]['mode']
        for app_spec, emb in reversed(chain[:-1]):
            inherit = True if emb['tuple'] else emb['inherit']
            if inherit:
                mode = app_spec['mode']
        kw = {'middlewares': route_mws, 'resources': res, 'slash_mode': mode}
        if leaf['methods']:
            kw['methods'] = leaf['methods']
        routes.append(FlatRoute(prefix + leaf['pattern'], leaf['ep'],
                                expected_render(leaf['render'], chain), **kw))
    return Application(routes, resources=dict(spec['res']),
                       middlewares=make_mws(spec),
                       render_factory=make_factory(spec['factory']),
                       error_handler=make_eh(spec), slash_mode=spec['mode'])


# ----------------------------------------------------------- request catalogue
FILLS = {'<id:int>': ['42', 'abc', '+%205', '-7'], '<parts*>': ['a/b', '', 'x'],
         '<x?int>': ['7', '', 'zz'], '<parts+int>': ['1/2/3', '', '1/x']}


def catalogue(flat_app):
    paths = ['/', '/nowhere', '/nowhere/', '/p', '/p/', '/px', '/a', '/a/b/',
             '/q', '/deep/er', '//p//']
    for rt in flat_app.routes:
        variants = [rt.pattern]
        for hole, fills in FILLS.items():
            if hole in rt.pattern:
                variants = [rt.pattern.replace(hole, f) for f in fills]
        for path in variants:
            toggled = path[:-1] if path.endswith('/') and path != '/' else path + '/'
            doubled = path.replace('/', '//', 2)
            paths.extend([path, toggled, doubled, path + '?q=1&r=%FF&s=a+b',
                          toggled + '?x=%3F', path + 'zzz'])
    seen, ret = set(), []
    for path in paths:
        if path not in seen:
            seen.add(path)
            ret.append(path)
    return ret


def ask(app, path, method):
    del TRACE[:]
    resp = app.get_local_client().open(path, method=method)
    return (resp.status_code, resp.get_data(), resp.headers.get('Location'),
            resp.headers.get('Allow'), tuple(TRACE))


def compare(seed, depth, methods=('GET', 'POST', 'HEAD', 'PUT')):
    rng = random.Random(seed)
    outer_res = rng.choice([(), ('shared',), ('shared', 'other')])
    spec = gen_app(rng, depth, 'L0', outer_res)
    nested, flat = build_nested(spec), build_flat(spec)
    assert [r.pattern for r in nested.routes] == [r.pattern for r in flat.routes]
    n = 0
    for path in catalogue(flat):
        for method in methods:
            got, want = ask(nested, path, method), ask(flat, path, method)
            assert got == want, (seed, depth, method, path, got, want)
            n += 1
    return nested, flat, n


# ------------------------------------------------------- demo-specific checks
from clastic.route import InvalidPattern, BoundRoute, _noop_render


def same_binding(nested, flat):
    outer_render_error = nested.error_handler.render_error
    for n_rt, f_rt in zip(nested.routes, flat.routes):
        assert type(n_rt) is BoundRoute
        for attr in ('pattern', 'slash_mode', 'methods', 'resources',
                     'endpoint_args', 'is_branch', 'endpoint'):
            assert getattr(n_rt, attr) == getattr(f_rt, attr), (attr, n_rt.pattern)
        assert n_rt.regex.pattern == f_rt.regex.pattern
        assert sorted(n_rt.path_args) == sorted(f_rt.path_args) == sorted(n_rt.converters)
        assert sorted(n_rt.get_required_args()) == sorted(f_rt.get_required_args())
        assert ([(type(m), m.label) for m in n_rt.middlewares]
                == [(type(m), m.label) for m in f_rt.middlewares])
        assert type(n_rt.middlewares) is tuple and type(n_rt.resources) is dict
        assert n_rt.render_error == outer_render_error
        assert n_rt.bound_apps[-1] is nested and f_rt.bound_apps == [flat]
        assert type(n_rt.unbound_route) is Route
        assert callable(n_rt.render) and callable(n_rt._execute)
        assert (n_rt.render is _noop_render) == (f_rt.render is None
                                                 or f_rt.render is _noop_render)
        # every level keeps its own, shorter, binding of the same route
        for depth, app in enumerate(n_rt.bound_apps, 1):
            own = [r for r in app.routes if r.unbound_route is n_rt.unbound_route]
            assert own and all(len(r.bound_apps) == depth for r in own)
            assert all(r.resources is not app.resources for r in own)
            assert all(n_rt.pattern.endswith(r.pattern) for r in own)


class CountingFactory(Factory):
    def __init__(self, tag):
        super(CountingFactory, self).__init__(tag)
        self.calls = []

    def __call__(self, arg):
        self.calls.append(arg)
        return super(CountingFactory, self).__call__(arg)


class Pinned(Middleware):
    reorderable = False


def body(app, path, method='GET'):
    return ask(app, path, method)[:2]


def fixed_cases():
    f_in, f_mid, f_out = CountingFactory('in'), CountingFactory('mid'), CountingFactory('out')
    route = Route('/r/', ep_plain, 'tmpl')
    plain = Route('/c', ep_plain, render_text)
    nothing = Route('/n', ep_resp)
    inner = Application([route, plain, nothing], render_factory=f_in,
                        resources={'who': 'in', 'only_in': 1}, slash_mode=S_STRICT,
                        error_handler=TagEH('in'))
    assert f_in.calls == ['tmpl']
    mid = Application([SubApplication('/m', inner, rebind_render=True)],
                      render_factory=f_mid, resources={'who': 'mid'}, slash_mode=S_REWRITE)
    assert (f_in.calls, f_mid.calls) == (['tmpl'], ['tmpl'])
    outer = Application([('/o/', mid)], render_factory=f_out, error_handler=TagEH('out'),
                        resources={'who': 'out', 'only_out': 2})
    assert (f_in.calls, f_mid.calls, f_out.calls) == (['tmpl'], ['tmpl'], [])
    r, c, n = outer.routes
    assert (r.pattern, c.pattern, n.pattern) == ('/o/m/r/', '/o/m/c', '/o/m/n')
    assert r.slash_mode == S_REDIRECT and mid.routes[0].slash_mode == S_REWRITE
    assert inner.routes[0].slash_mode == S_STRICT
    assert r.resources == {'who': 'in', 'only_in': 1, 'only_out': 2}
    assert mid.routes[0].resources == {'who': 'in', 'only_in': 1}
    assert r.render_factory is f_mid and c.render_factory is None
    assert c.render is render_text and n.render is _noop_render
    assert r.unbound_route is route and r.bound_apps == [inner, mid, outer]
    assert inner.routes[0].bound_apps == [inner] and mid.routes[0].bound_apps == [inner, mid]
    assert r.render_error == outer.error_handler.render_error
    assert mid.routes[0].render_error == mid.error_handler.render_error
    assert r.render_arg == 'tmpl' and r.is_branch and not c.is_branch
    assert body(outer, '/o/m/r/') == (200, b"mid|tmpl|[('ep', 'plain'), ('path', '/o/m/r/')]")
    assert ask(outer, '/o/m/r', 'GET')[0] == 302
    assert ask(outer, '/o/m/r?k=v', 'GET')[2] == 'http://localhost/o/m/r/?k=v'
    assert body(outer, '/o/m/n') == (200, b'direct:/o/m/n')
    assert body(outer, '/o/m/zzz') == (404, b'EH-out|404|/o/m/zzz')
    assert body(inner, '/r') == (404, b'EH-in|404|/r')   # strict at its own level

    # the bind options: defaults, explicit values, leftovers
    app = Application([], render_factory=f_out, slash_mode=S_REWRITE)
    br = Route('/x/', ep_plain, 'tmpl', slash_mode=S_STRICT).bind(app)
    assert (br.pattern, br.slash_mode, br.render_factory) == ('/x/', S_REWRITE, f_out)
    br2 = br.bind(outer, prefix='/pre', inherit_slashes=False, rebind_render=False,
                  rebind_render_error=False)
    assert (br2.pattern, br2.slash_mode) == ('/pre/x/', S_REWRITE)
    assert br2.render is br.render and br2.render_factory is f_out
    assert br2.render_error == app.error_handler.render_error
    assert br2.bound_apps == [app, outer] and br.bound_apps == [app]
    br3 = br.bind(outer, prefix='', rebind_render=0, inherit_slashes=0)
    assert (br3.pattern, br3.slash_mode, br3.render) == ('/x/', S_REWRITE, br.render)
    unbound = Route('/u', ep_plain, render_text).bind(outer, rebind_render_error=False)
    assert unbound.render_error is None
    for kw in ({'bogus': 1}, {'prefix': '/p', 'rebind': True},
               {'bogus': 1, 'prefix': 'no-slash'}):
        try:
            br.bind(outer, **kw)
        except TypeError as te:
            assert 'unexpected keyword args' in str(te)
            assert sorted(set(kw) - set(['prefix'])) [0] in str(te)
            assert 'prefix' not in str(te)
        else:
            raise AssertionError('accepted %r' % (kw,))
    for make in (lambda: br.bind(outer, prefix='no-slash'),
                 lambda: br.bind(outer, prefix='/a/'),
                 lambda: outer.add(('/dup/<x>', Application([('/<x>', ep_opt, render_text)])))):
        try:
            make()
        except InvalidPattern:
            pass
        else:
            raise AssertionError('accepted a bad prefix')
    assert len(outer.routes) == 3

    # the steps run in order: middlewares are merged (and may be refused)
    # before the embedding level's render factory is asked for anything
    pinned_inner = Application([Route('/k', ep_plain, 'tmpl')], middlewares=[Pinned()])
    f_late = CountingFactory('late')
    try:
        Application([SubApplication('/z', pinned_inner, rebind_render=True)],
                    middlewares=[Pinned()], render_factory=f_late)
    except ValueError as ve:
        assert 'multiple inclusion of unique middleware' in str(ve)
    else:
        raise AssertionError('accepted a pinned middleware twice')
    assert f_late.calls == []
    # ... and the render is settled before the error rendering is checked
    class Needy(ErrorHandler):
        def render_error(self, request, _error, missing_thing):
            return _error
    try:
        Application([SubApplication('/z', Application([Route('/k', ep_plain, 'tmpl')]),
                                    rebind_render=True)],
                    render_factory=f_late, error_handler=Needy(),
                    resources={})
    except NameError as ne:
        assert 'missing_thing' in str(ne)
    else:
        raise AssertionError('accepted an unsatisfiable render_error')
    assert f_late.calls == []  # refused by Application.set_error_handler already
    needy_ok = Application([], render_factory=f_late, error_handler=Needy(),
                           resources={'missing_thing': 1})
    try:
        needy_ok.add(SubApplication('/z', Application([Route('/k', ep_plain, 'tmpl')]),
                                    rebind_render=True))
    finally:
        assert f_late.calls == ['tmpl']
    del needy_ok.resources['missing_thing']
    try:
        needy_ok.add(SubApplication('/y', Application([Route('/k', ep_plain, 'tmpl')]),
                                    rebind_render=True))
    except NameError as ne:
        assert 'missing_thing' in str(ne)
    else:
        raise AssertionError('accepted an unsatisfiable render_error')
    assert f_late.calls == ['tmpl', 'tmpl'] and len(needy_ok.routes) == 1


def main():
    fixed_cases()
    total = 0
    for depth in (1, 2, 3):
        for seed in range(14):
            nested, flat, n = compare(3000 * depth + seed, depth,
                                      methods=('GET', 'POST', 'HEAD'))
            same_binding(nested, flat)
            total += n
    assert total > 3000, total
    print('compared %d requests' % total)
    print('PASS')
    return 0


if __name__ == '__main__':
    sys.exit(main())
