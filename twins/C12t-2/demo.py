# -*- coding: utf-8 -*-
"""demo2: concurrent requests on one Application do not interfere.

Focus: clastic.sinter chain generation (chain_argspec / build_chain_str /
compile_code / make_chain): the generated source is checked literally, the
compiled closures are run from several threads at once, and a full
Application with provides-middlewares is exercised concurrently.
Prints PASS and exits 0 on success.
"""
import sys
import json
import time
import random
import hashlib
import linecache
import threading

sys.setswitchinterval(1e-6)

from clastic import Application, POST, Middleware, Response
from clastic.errors import NotFound
from clastic import sinter


def _yield():
    for _ in range(3):
        time.sleep(0)


# ---------------------------------------------------------------- sinter

def mw1(next, x):
    _yield()
    return ('mw1', x, next(a=x + 1))


def mw2(next, a, y=5):
    _yield()
    return ('mw2', a, y, next(b=a * 10))


def final(b, x):
    _yield()
    return ('final', b, x)


EXPECTED_SRC = (
    'def next(x):\n'
    '    def next(a):\n'
    '        def next(b):\n'
    '            __traceback_hide__ = True\n'
    '            return funcs[2](b=b, x=x)\n'
    '        __traceback_hide__ = True\n'
    '        return funcs[1](a=a, next=next)\n'
    '    __traceback_hide__ = True\n'
    '    return funcs[0](next=next, x=x)\n')

EXPECTED_SRC_LEVEL1 = (
    '    def next(a):\n'
    '        def next(b):\n'
    '            __traceback_hide__ = True\n'
    '            return funcs[2](b=b, x=x)\n'
    '        __traceback_hide__ = True\n'
    '        return funcs[1](a=a, next=next, y=y)\n')


def check_build_chain_str():
    funcs = [mw1, mw2, final]
    params = [['x'], ['a'], ['b']]
    assert sinter.build_chain_str(funcs, params, 'next') == EXPECTED_SRC
    # inputs are not modified
    assert funcs == [mw1, mw2, final] and params == [['x'], ['a'], ['b']]
    # tuples work as well as lists
    assert sinter.build_chain_str(tuple(funcs), (('x',), ('a',), ('b',)), 'next') == EXPECTED_SRC
    # stopping case
    assert sinter.build_chain_str([], [], 'next') == ''
    assert sinter.build_chain_str((), [['ignored']], 'next') == ''
    # explicit starting level and params_sofar (which is updated in place)
    sofar = set(['next', 'x', 'y'])
    src = sinter.build_chain_str([mw2, final], [['a'], ['b']], 'next', sofar, 1)
    assert src == EXPECTED_SRC_LEVEL1, src
    assert sofar == set(['next', 'x', 'y', 'a', 'b']), sofar
    # surplus params are ignored, missing params are an IndexError
    assert sinter.build_chain_str([final], [['b', 'x'], ['zzz']], 'go') == (
        'def go(b, x):\n'
        '    __traceback_hide__ = True\n'
        '    return funcs[0](b=b, x=x)\n')
    try:
        sinter.build_chain_str([mw1, final], [['x']], 'next')
    except IndexError:
        pass
    else:
        raise AssertionError('expected IndexError')
    # only available params are passed on; others rely on defaults
    assert sinter.build_chain_str([mw2], [[]], 'next') == (
        'def next():\n'
        '    __traceback_hide__ = True\n'
        '    return funcs[0](next=next)\n')


def check_chain_argspec():
    req, opt = sinter.chain_argspec([mw1, mw2, final], [('a',), ('b',), ()], 'next')
    assert (req, opt) == (set(['x']), set(['y'])), (req, opt)
    # provided later does not satisfy an earlier requirement
    req, opt = sinter.chain_argspec([final, mw1], [('x',), ()], 'next')
    assert (req, opt) == (set(['b', 'x']), set()), (req, opt)
    # zip semantics: extra funcs without provides are not looked at
    req, opt = sinter.chain_argspec([mw1, mw2, final], [('a',)], 'next')
    assert (req, opt) == (set(['x']), set()), (req, opt)
    assert sinter.chain_argspec([], [], 'next') == (set(), set())


def check_compile_code():
    src = 'def answer(n):\n    return n * 2\n'
    env = {}
    fn = sinter.compile_code(src, 'answer', env)
    assert fn is env['answer'] and fn(21) == 42
    filename = fn.__code__.co_filename
    digest = hashlib.sha1(src.encode('utf8')).hexdigest()[:16]
    assert filename == '<sinter generated answer %s>' % digest, filename
    assert linecache.cache[filename] == (len(src), None, src.splitlines(True), filename)
    assert linecache.getline(filename, 2) == '    return n * 2\n'
    try:
        sinter.compile_code(src, 'not_defined_by_src', {})
    except KeyError:
        pass
    else:
        raise AssertionError('expected KeyError')


def check_make_chain():
    chain, args, unresolved = sinter.make_chain([mw1, mw2], [('a',), ('b',)], final,
                                                ['x', 'y', 'q'], 'next')
    assert args == set(['x', 'y']) and unresolved == set(), (args, unresolved)
    assert type(args) is set and type(unresolved) is set
    # y is preprovided and optional for mw2, so it is threaded through
    assert chain(x=1, y=99) == ('mw1', 1, ('mw2', 2, 99, ('final', 20, 1)))
    assert chain.__name__ == 'next'
    assert sorted(sinter.get_arg_names(chain)) == ['x', 'y']
    # generators / tuples are accepted for funcs and provides
    chain2, args2, unres2 = sinter.make_chain((f for f in (mw1, mw2)),
                                              (p for p in (('a',), ('b',))),
                                              final, (), 'next')
    assert args2 == set(['x']) and unres2 == set(['x']), (args2, unres2)
    assert chain2(x=3) == ('mw1', 3, ('mw2', 4, 5, ('final', 40, 3)))
    # no middlewares at all
    chain3, args3, unres3 = sinter.make_chain([], [], final, ['b'], 'next')
    assert args3 == set(['b', 'x']) and unres3 == set(['x'])
    assert chain3(b=1, x=2) == ('final', 1, 2)

    # the compiled chain keeps per-call values in frames: hammer one chain
    errors = []

    def worker(tid):
        try:
            for i in range(300):
                x = tid * 1000 + i
                assert chain(x=x, y=-x) == ('mw1', x, ('mw2', x + 1, -x, ('final', (x + 1) * 10, x)))
        except Exception as exc:
            errors.append(repr(exc))

    threads = [threading.Thread(target=worker, args=(t,)) for t in range(6)]
    for t in threads:
        t.start()
    for t in threads:
        t.join()
    assert not errors, errors[:3]


# ----------------------------------------------------------- application

SEEN_IDS = []


class UserMW(Middleware):
    provides = ('user',)

    def request(self, next, request):
        # a request may run several routes (fallthrough, null route): the id
        # must be stable across them, and is recorded once per request
        if getattr(request, '_demo_seen_id', None) is None:
            request._demo_seen_id = request.request_id
            SEEN_IDS.append(request.request_id)
        assert request._demo_seen_id == request.request_id
        user = 'u:' + request.args.get('u', 'anon')
        _yield()
        return next(user=user)


class TokenMW(Middleware):
    endpoint_provides = ('token',)

    def endpoint(self, next, user, request, salt='s'):
        _yield()
        return next(token='%s@%s%s' % (user, request.path, salt))


class SuffixMW(Middleware):
    render_provides = ('suffix',)

    def render(self, next, context, user):
        _yield()
        return next(suffix='|' + user)


def render_ctx(context, suffix, request):
    body = json.dumps(context, sort_keys=True) + suffix + '|' + request.path
    return Response(body, mimetype='text/plain')


def ep_hello(name, user, token, request, _route):
    _yield()
    return {'ep': 'hello', 'name': name, 'user': user, 'token': token,
            'pp': request.path_params, 'pattern': _route.pattern}


def ep_num(n, user, times=2):
    _yield()
    return {'ep': 'num', 'n': n * times, 'user': user}


def ep_post(request, user):
    return {'ep': 'post', 'method': request.method, 'user': user}


def ep_boom(name, user):
    _yield()
    raise ValueError('boom-%s-%s' % (name, user))


def ep_fall_first(x, user):
    raise NotFound(detail='first declined %s for %s' % (x, user), is_breaking=False)


def ep_fall_second(x, user, _dispatch_state):
    _yield()
    return {'ep': 'fall2', 'x': x, 'user': user,
            'prev': [e.detail for e in _dispatch_state.exceptions]}


def ep_branch(user):
    return {'ep': 'branch', 'user': user}


def ep_direct(user, token):
    return Response('direct %s %s' % (user, token), mimetype='text/plain')


def make_app():
    routes = [('/hello/<name>', ep_hello, render_ctx),
              ('/num/<n:int>', ep_num, render_ctx),
              POST('/post_only', ep_post, render_ctx),
              ('/boom/<name>', ep_boom, render_ctx),
              ('/fall/<x>', ep_fall_first, render_ctx),
              ('/fall/<x>', ep_fall_second, render_ctx),
              ('/branch/', ep_branch, render_ctx),
              ('/direct', ep_direct, render_ctx)]
    return Application(routes, middlewares=[UserMW(), TokenMW(), SuffixMW()])


def fetch(app, method, url):
    resp = app.get_local_client().open(url, method=method)
    return (resp.status_code, resp.get_data(as_text=True),
            resp.headers.get('Location'), resp.headers.get('Allow'))


REQUESTS = [('GET', '/hello/alice?u=1'), ('GET', '/hello/bob?u=2'),
            ('GET', '/num/21?u=3'), ('GET', '/num/0?u=4'),
            ('POST', '/post_only?u=6'), ('GET', '/post_only?u=7'),
            ('GET', '/boom/x?u=8'), ('GET', '/boom/y?u=9'),
            ('GET', '/fall/a?u=11'), ('GET', '/fall/b?u=12'),
            ('GET', '/branch?u=14'), ('GET', '/direct?u=17'),
            ('GET', '/missing?u=18'), ('GET', '/hello/nobody')]


def run_group(app, group, expected):
    barrier = threading.Barrier(len(group))
    results = [None] * len(group)
    errors = []

    def worker(i, req):
        try:
            barrier.wait()
            results[i] = fetch(app, *req)
        except Exception as exc:
            errors.append((req, repr(exc)))

    threads = [threading.Thread(target=worker, args=(i, req))
               for i, req in enumerate(group)]
    for t in threads:
        t.start()
    for t in threads:
        t.join()
    assert not errors, errors
    for req, res in zip(group, results):
        assert res == expected[req], (req, res, expected[req])


def check_application():
    app = make_app()
    expected = dict((req, fetch(app, *req)) for req in REQUESTS)
    st, body = expected[('GET', '/hello/alice?u=1')][:2]
    assert st == 200 and body.endswith('|u:1|/hello/alice'), (st, body)
    assert json.loads(body.split('|')[0]) == {
        'ep': 'hello', 'name': 'alice', 'user': 'u:1', 'token': 'u:1@/hello/alices',
        'pp': {'name': 'alice'}, 'pattern': '/hello/<name>'}
    assert json.loads(expected[('GET', '/num/0?u=4')][1].split('|')[0])['n'] == 0
    assert expected[('GET', '/post_only?u=7')][0] == 405
    assert expected[('GET', '/boom/y?u=9')][0] == 500
    assert json.loads(expected[('GET', '/fall/b?u=12')][1].split('|')[0])['prev'] == \
        ['first declined b for u:12']
    assert expected[('GET', '/direct?u=17')][:2] == (200, 'direct u:17 u:17@/directs')
    assert expected[('GET', '/missing?u=18')][0] == 404

    # the generated chain of a bound route only closes over funcs
    hello = app.routes[0]
    src = ''.join(linecache.cache[hello._execute.__code__.co_filename][2])
    assert src.startswith('def next('), src
    assert 'return funcs[0](' in src and '__traceback_hide__ = True' in src

    rng = random.Random(5)
    for _ in range(120):
        run_group(app, rng.sample(REQUESTS, rng.randint(2, 4)), expected)
    for _ in range(30):
        run_group(app, [('GET', '/hello/alice?u=1'), ('GET', '/hello/bob?u=2'),
                        ('GET', '/num/21?u=3'), ('GET', '/num/0?u=4')], expected)
    assert len(SEEN_IDS) > 100 and len(set(SEEN_IDS)) == len(SEEN_IDS)


def main():
    check_build_chain_str()
    check_chain_argspec()
    check_compile_code()
    check_make_chain()
    check_application()
    print('PASS')


if __name__ == '__main__':
    main()
