# -*- coding: utf-8 -*-
"""Shared checks for the C07 demos (trailing-slash redirects, one hop)."""
import re
import sys

from werkzeug.test import create_environ
from werkzeug.urls import url_quote, url_unquote, url_parse
from werkzeug.wrappers import Response

from clastic import Application, SubApplication, Route, GET, POST
from clastic import S_REDIRECT, S_REWRITE, S_STRICT
from clastic.route import normalize_path, NullRoute, BoundRoute

MODES = (S_REDIRECT, S_REWRITE, S_STRICT)
METHODS = ('GET', 'HEAD', 'POST', 'PUT', 'DELETE', 'OPTIONS', 'TRACE',
           'CONNECT', 'PATCH')

# decoded path segments with URL-significant characters
SEGMENTS = [u'a', u'a?b', u'a#b', u'100%', u'%41', u'a b', u'a;b', u'a&b=c',
            u'caf\xe9', u'中', u'+', u'a:b@c', u'.', u'..', u'0']
QUERIES = ['', 'x=1', 'x=1&y=%2F', 'a=b?c', 'q=caf%C3%A9', 'e=', '=',
           'x=%zz', 'a=1&a=2', 'sp=a+b%20c']


def ep(request):
    return Response(u'|'.join([request.method, request.path]))


def ep_single(request, name):
    return Response(u'|'.join([request.method, request.path, name]))


def ep_multi(request, parts):
    return Response(u'|'.join([request.method, request.path] + list(parts)))


def spec_normalize(path, is_branch):
    """Independent statement of the canonical form."""
    segs = [s for s in re.split('/+', path) if s != '']
    if not segs:
        return '/'
    out = ''
    for s in segs:
        out += '/' + s
    if is_branch:
        out += '/'
    return out


def call(app, path, query='', method='GET'):
    """Run one request with a *decoded* path; returns (status, headers, body)."""
    environ = create_environ(path=url_quote(path, safe='/'), base_url='http://h.test/',
                             query_string=query, method=method)
    # make sure the decoded path is exactly what we asked for
    environ['PATH_INFO'] = path.encode('utf8').decode('latin1')
    environ['QUERY_STRING'] = query
    captured = {}

    def start_response(status, headers, exc_info=None):
        captured['status'] = int(status.split()[0])
        captured['headers'] = dict(headers)
    body = b''.join(app(environ, start_response))
    return captured['status'], captured['headers'], body.decode('utf8')


def split_location(location):
    """-> (decoded path, raw query) of an absolute Location."""
    assert location.startswith('http://h.test/'), location
    rest = location[len('http://h.test'):]
    assert '#' not in rest, location
    raw_path, sep, query = rest.partition('?')
    return url_unquote(raw_path), query


def check_redirect_one_hop(app, path, query, method, is_branch=True):
    """path must be non-canonical for a branch route admitted for method."""
    status, headers, body = call(app, path, query, method)
    assert 300 <= status < 400, (path, query, method, status)
    loc_path, loc_query = split_location(headers['Location'])
    canonical = spec_normalize(path, True)
    assert loc_path == canonical, (path, loc_path, canonical)
    assert loc_query == query, (query, loc_query)
    # fixed point
    assert normalize_path(loc_path, True) == loc_path
    # second hop: no more redirects, same resource
    status2, headers2, body2 = call(app, loc_path, loc_query, method)
    assert status2 == 200, (path, loc_path, status2)
    if method != 'HEAD':
        assert body2.split(u'|')[:2] == [method, canonical], body2
    return canonical


def noncanonical_variants(segs):
    """Non-canonical spellings of the branch path made of segs.

    (werkzeug's request.path collapses *leading* slashes itself, so the
    doubled slashes are put elsewhere.)"""
    body = u'/'.join(segs)
    ret = [u'/' + body,                 # missing trailing slash
           u'/' + body + u'//',         # doubled trailing slash
           u'/' + body + u'////']
    if len(segs) > 1:
        ret.append(u'/' + u'//'.join(segs) + u'/')
        ret.append(u'/' + u'///'.join(segs))
    return ret


def finish():
    print('PASS')
    sys.exit(0)


# ---------------------------------------------------------------- demo 3
# dispatch: what happens to a non-canonical path of a branch route in each
# slash mode -- application-level, route-level, inherited or not through
# embedding -- for every method, with awkward segments and query strings.

def main():
    from clastic.errors import ErrorHandler, NotFound

    def routes(**kw):
        return [Route('/s/t/', ep, **kw),
                Route('/one/<name>/', ep_single, **kw),
                Route('/m/<parts+>/', ep_multi, **kw),
                Route('/leaf/<name>', ep_single, **kw)]

    def expect(app, mode, segs, query, method):
        """Non-canonical spellings of the branch made of segs behave as mode says."""
        for path in noncanonical_variants(segs):
            if mode == S_REDIRECT:
                check_redirect_one_hop(app, path, query, method)
                continue
            status, headers, body = call(app, path, query, method)
            assert 'Location' not in headers, (mode, path, headers)
            if mode == S_STRICT:
                assert status == 404, (mode, path, status)
            else:
                assert status == 200, (mode, path, status)
                if method != 'HEAD':
                    assert body.split(u'|')[:2] == [method, path], body
        # the canonical spelling is served directly whatever the mode
        canonical = u'/' + u'/'.join(segs) + u'/'
        status, headers, body = call(app, canonical, query, method)
        assert status == 200 and 'Location' not in headers, (mode, canonical, status)

    def sweep(app, mode, prefix=(), segments=SEGMENTS):
        prefix = list(prefix)
        for method in METHODS:
            expect(app, mode, prefix + [u's', u't'], 'x=1', method)
        for seg in segments:
            for query in QUERIES:
                expect(app, mode, prefix + [u'one', seg], query, 'GET')
            expect(app, mode, prefix + [u'm', seg, u'z', seg], 'a=b?c', 'PUT')
            # leaf routes: never redirected; strict wants the exact spelling
            leaf = u'/' + u'/'.join(prefix + [u'leaf', seg])
            for path, sloppy in ((leaf, False), (leaf + u'//', True)):
                status, headers, body = call(app, path, 'x=1')
                assert 'Location' not in headers
                want = 404 if (sloppy and mode == S_STRICT) else 200
                assert status == want, (mode, path, status)

    FEW = [u'a?b', u'a#b', u'%41', u'caf\xe9', u'0']

    # 1. application-level mode (routes inherit it)
    for mode in MODES:
        sweep(Application(routes(), slash_mode=mode), mode)
    # the default is redirect
    sweep(Application(routes()), S_REDIRECT)

    # 2. route-level mode, not inherited: the route's own mode wins
    for app_mode in MODES:
        for route_mode in MODES:
            app = Application([], slash_mode=app_mode)
            for rt in routes(slash_mode=route_mode):
                app.add(rt, inherit_slashes=False)
            sweep(app, route_mode, segments=FEW)
            # ... and inherited: the application's mode wins
            app = Application(routes(slash_mode=route_mode), slash_mode=app_mode)
            sweep(app, app_mode, segments=FEW)

    # 3. embedding, inherited or not
    for outer_mode in MODES:
        for inner_mode in MODES:
            inner = Application(routes(), slash_mode=inner_mode)
            outer = Application([('/sub', inner)], slash_mode=outer_mode)
            sweep(outer, outer_mode, prefix=[u'sub'], segments=FEW)
            # not inherited: the mode of the routes themselves (default redirect)
            inner = Application(routes(slash_mode=inner_mode), slash_mode=inner_mode)
            outer = Application([SubApplication('/sub', inner, inherit_slashes=False)],
                                slash_mode=outer_mode)
            sweep(outer, inner_mode, prefix=[u'sub'], segments=FEW)

    # 4. modes dispatch does not know are executed like rewrite; a str
    #    subclass equal to a known mode counts as that mode
    class Mode(str):
        pass
    sweep(Application(routes(), slash_mode='bogus'), S_REWRITE)
    sweep(Application(routes(), slash_mode=None), S_REWRITE)
    sweep(Application(routes(), slash_mode=Mode('redirect')), S_REDIRECT)
    sweep(Application(routes(), slash_mode=Mode('strict')), S_STRICT)

    # 5. the strict branch of dispatch itself (reached when the regex is lax
    #    but the bound route says strict): NotFound noted, next routes tried
    seen = []

    class MyNotFound(NotFound):
        def __init__(self, **kw):
            seen.append(kw)
            super(MyNotFound, self).__init__(**kw)

    class MyHandler(ErrorHandler):
        not_found_type = MyNotFound

    app = Application(routes() + [Route('/one/<name>', ep_single, methods=['POST'])],
                      slash_mode=S_REWRITE, error_handler=MyHandler())
    for rt in app.routes[:4]:
        rt.slash_mode = S_STRICT
    status, headers, body = call(app, u'/one/a?b//', 'x=1')
    assert status == 404 and 'Location' not in headers, status
    assert len(seen) == 1, seen
    assert sorted(seen[0]) == ['application', 'request', 'source_route']
    assert seen[0]['application'] is app and seen[0]['source_route'] is app.routes[1]
    assert seen[0]['request'].path == u'/one/a?b//'
    # dispatch went on: the POST-only leaf route after it still answers
    status, headers, body = call(app, u'/one/a?b//', 'x=1', 'POST')
    assert (status, body) == (200, u'POST|/one/a?b//|a?b'), (status, body)
    assert len(seen) == 2
    status, headers, body = call(app, u'/one/a?b/', 'x=1')
    assert status == 200 and len(seen) == 2

    # 6. query strings that are not UTF-8 are kept, percent-encoded
    app = Application(routes())
    status, headers, body = call(app, u'/one/a?b', 'x=\xff&y=%2F&z=a b')
    assert status == 302, status
    assert headers['Location'] == 'http://h.test/one/a%3Fb/?x=%FF&y=%2F&z=a%20b', headers
    # an empty query string (werkzeug drops the bare '?')
    status, headers, body = call(app, u'/s//t', '')
    assert (status, headers['Location']) == (302, 'http://h.test/s/t/')
    # script root is kept in front of the canonical path
    environ = create_environ(path='/s//t', base_url='http://h.test/mount/',
                             query_string='q=1')
    resp = Response.from_app(app, environ)
    assert resp.status_code == 302
    assert resp.headers['Location'] == 'http://h.test/mount/s/t/?q=1', resp.headers
    finish()


if __name__ == '__main__':
    main()
