# -*- coding: utf-8 -*-
"""demo1: secrets are redacted, other resources stay visible (truncated repr),
meta pages answer 200.  Focus: the truncation helper used for visible values."""
import json
import sys

from clastic import Application, MetaApplication, render_basic
from clastic.middleware.cookie import SignedCookieMiddleware
from clastic import meta
from clastic.meta import _trunc, get_resource_info

SECRET = 'S3CR3T-VALUE-0xDEADBEEF'
KEY = 'SIGNING-KEY-0xFEEDFACE'


def ref_trunc(s, length=70, trailer='...'):
    # independent statement of the documented behaviour
    if len(s) > length:
        return (s[:length - len(trailer)] + trailer) if trailer else s[:length]
    return s


# ---- 1. truncation helper, directly, on a wide spread of inputs
strings = ['', 'a', 'ab', 'abc', 'abcd', 'x' * 69, 'x' * 70, 'x' * 71, 'x' * 500,
           u'é' * 71, b'y' * 69, b'y' * 70]
for s in strings:
    got = _trunc(s)
    assert got == ref_trunc(s), (s, got)
    assert len(got) <= 70
    if len(s) <= 70:
        assert got is s          # untouched values are passed through as-is
    else:
        assert got.endswith('...') and len(got) == 70
assert _trunc(b'y' * 71, trailer=b'...') == b'y' * 67 + b'...'
assert _trunc(b'y' * 71, trailer=b'') == b'y' * 70
try:
    _trunc(b'y' * 71)           # bytes + str trailer: TypeError, only when cutting
except TypeError:
    pass
else:
    raise AssertionError('expected TypeError')

for s in ['', 'a', 'abc', 'abcdefghij', 'x' * 100]:
    for length in [-3, -1, 0, 1, 2, 3, 4, 5, 10, 70, 99, 100, 101]:
        for trailer in ['...', '', None, '.', '[cut]', 0, 'a-very-long-trailer']:
            if trailer == 0:
                # falsy non-string trailer: treated like "no trailer"
                assert _trunc(s, length, trailer) == ref_trunc(s, length, '')
                continue
            if trailer is None:
                assert _trunc(s, length, trailer) == ref_trunc(s, length, '')
                continue
            assert _trunc(s, length, trailer) == ref_trunc(s, length, trailer), (s, length, trailer)
            assert _trunc(s, length=length, trailer=trailer) == ref_trunc(s, length, trailer)

# a truthy trailer of the wrong type fails the same way, but only when truncation happens
try:
    _trunc('x' * 80, 70, 5)
except TypeError:
    pass
else:
    raise AssertionError('expected TypeError')
assert _trunc('x' * 8, 70, 5) == 'x' * 8
# list input works too (only len / slicing / + are used)
assert _trunc([1, 2, 3, 4, 5], 4, [0]) == [1, 2, 3, 0]
assert _trunc([1, 2, 3, 4, 5], 4, []) == [1, 2, 3, 4]
lst = [1, 2]
assert _trunc(lst, 4, [0]) is lst
# objects without len fail with TypeError
try:
    _trunc(5)
except TypeError:
    pass
else:
    raise AssertionError('expected TypeError')


# ---- 2. get_resource_info: redaction vs. truncated repr
class Leaky(object):
    def __repr__(self):
        return '<Leaky %s>' % SECRET


class Exploding(object):
    def __repr__(self):
        raise RuntimeError('repr must not be called for ' + SECRET)


class FakeApp(object):
    def __init__(self, resources):
        self.resources = resources


resources = {
    'secret': SECRET,
    'secret_prefix': SECRET.encode('ascii'),
    'in_secret_fix': [1, {'k': SECRET}],
    'suffix_secret': Leaky(),
    'exploding_secret': Exploding(),
    'num_secret': 12345678901234567890,
    'visible_str': 'plain-visible-value',
    'visible_long': 'L' * 200,
    'visible_69': 'a' * 67,     # repr has 69 chars
    'visible_70': 'b' * 68,     # repr has 70 chars
    'visible_71': 'c' * 69,     # repr has 71 chars
    'visible_num': 0,
    'visible_none': None,
    'visible_empty': '',
    'visible_bytes': b'bytes-visible',
    'visible_nested': {'a': [1, 2, (3, 4)], 'b': 'nested-visible'},
    'Secret_capitalised': 'capital-S-is-not-redacted',
    'SECRET_UPPER': 'upper-is-not-redacted',
}
infos = get_resource_info(FakeApp(resources))
assert [i['key'] for i in infos] == list(resources)     # order kept, one entry each
for info in infos:
    assert set(info) == {'key', 'value'}
    key, value = info['key'], info['value']
    if 'secret' in key:
        assert value == '[REDACTED]', info
    else:
        assert value == ref_trunc(repr(resources[key])), info
        assert len(value) <= 70
by_key = dict((i['key'], i['value']) for i in infos)
assert by_key['visible_69'] == repr('a' * 67)
assert by_key['visible_70'] == repr('b' * 68)
assert by_key['visible_71'] == repr('c' * 69)[:67] + '...'
assert by_key['visible_long'] == "'" + 'L' * 66 + '...'
assert by_key['visible_num'] == '0' and by_key['visible_none'] == 'None'
assert by_key['visible_empty'] == "''"
assert get_resource_info(FakeApp({})) == []


# ---- 3. whole meta application: HTML + JSON, several mount points
def hello(request):
    return 'hi'


def build(prefix, depth):
    meta_app = MetaApplication()
    inner = Application([(prefix, meta_app)])
    for _ in range(depth):
        inner = Application([('/sub', inner)])
    routes = [('/hello', hello, render_basic), ('/', inner)]
    return Application(routes, resources=dict(resources),
                       middlewares=[SignedCookieMiddleware(secret_key=KEY)])


for prefix, depth in [('/meta', 0), ('/_m/deep', 0), ('/meta', 1), ('/meta', 2)]:
    app = build(prefix, depth)
    cl = app.get_local_client()
    base = '/sub' * depth + prefix
    for path in (base + '/', base + '/json/'):
        resp = cl.get(path)
        assert resp.status_code == 200, (path, resp.status_code)
        body = resp.get_data(as_text=True)
        assert SECRET not in body, path
        assert KEY not in body, path
        assert '[REDACTED]' in body, path
        assert 'plain-visible-value' in body, path
        assert 'nested-visible' in body, path
        assert 'capital-S-is-not-redacted' in body, path
        assert 'SignedCookieMiddleware' in body, path
        assert 'L' * 67 not in body, path            # the long value is cut
        assert 'L' * 66 + '...' in body, path
    data = json.loads(cl.get(base + '/json/').get_data(as_text=True))
    res = dict((r['key'], r['value']) for r in data['app']['resources'])
    assert set(res) == set(resources)
    for key, value in res.items():
        if 'secret' in key:
            assert value == '[REDACTED]'
        else:
            assert value == ref_trunc(repr(resources[key]))
    for group, info in data.items():
        if isinstance(info, dict):
            assert 'exc_content' not in info, (group, info.get('exc_content'))

print('PASS')
sys.exit(0)
