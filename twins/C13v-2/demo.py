# -*- coding: utf-8 -*-
"""C13 demo 2: WSGI wrappers contributed by middlewares wrap the application in
list order (first middleware outermost, an embedding application's before the
embedded one's, a unique middleware type once), and the wrapped stack still is
a conforming WSGI application."""
import io
import sys
import warnings
from wsgiref.util import setup_testing_defaults
from wsgiref.validate import validator

warnings.simplefilter('ignore')

from clastic import Application, Middleware, Response, RerouteWSGI
from clastic.application import _get_all_middlewares
from clastic.errors import ErrorHandler

TRACE = []
BUILD = []


def make_wrapper(tag):
    def wsgi_wrapper(inner):
        BUILD.append(tag)

        def wrapped(environ, start_response):
            TRACE.append('>' + tag)

            def tagging_start_response(status, headers, exc_info=None):
                headers = list(headers) + [('X-Wrapped-By', tag)]
                if exc_info is not None:
                    return start_response(status, headers, exc_info)
                return start_response(status, headers)
            ret = inner(environ, tagging_start_response)
            TRACE.append('<' + tag)
            return ret
        return wrapped
    return wsgi_wrapper


class AMW(Middleware):
    wsgi_wrapper = staticmethod(make_wrapper('A'))


class BMW(Middleware):
    wsgi_wrapper = staticmethod(make_wrapper('B'))


class CMW(Middleware):
    wsgi_wrapper = staticmethod(make_wrapper('C'))


class DMW(Middleware):
    wsgi_wrapper = staticmethod(make_wrapper('D'))


class PlainMW(Middleware):
    """no wsgi_wrapper at all"""
    def request(self, next):
        return next()


class NoneMW(Middleware):
    wsgi_wrapper = None


class UnhashableMW(Middleware):
    __hash__ = None
    wsgi_wrapper = staticmethod(make_wrapper('U'))


class TaggedErrorHandler(ErrorHandler):
    wsgi_wrapper = staticmethod(make_wrapper('EH'))


def call_wsgi(app, path='/', method='GET'):
    environ = {}
    setup_testing_defaults(environ)
    environ['REQUEST_METHOD'] = method
    environ['PATH_INFO'] = path
    environ['QUERY_STRING'] = ''
    if method == 'POST':
        environ['CONTENT_LENGTH'] = '0'
        environ['wsgi.input'] = io.BytesIO(b'')
    calls = []

    def start_response(status, response_headers, exc_info=None):
        calls.append((status, list(response_headers)))
        return lambda data: None

    del TRACE[:]
    app_iter = validator(app)(environ, start_response)
    chunks = []
    try:
        for chunk in app_iter:
            assert len(calls) == 1, 'body before start_response'
            assert isinstance(chunk, bytes)
            chunks.append(chunk)
    finally:
        app_iter.close()
    assert len(calls) == 1, calls
    status, headers = calls[0]
    for name, value in headers:
        assert type(name) is str and type(value) is str
    wrapped_by = [v for (k, v) in headers if k == 'X-Wrapped-By']
    return status, wrapped_by, b''.join(chunks), list(TRACE)


def check_stack(app, expected_outer_to_inner, paths=('/',)):
    """The wrapper listed first is entered first and leaves last; header
    tagging happens innermost first."""
    order = list(expected_outer_to_inner)
    for path in paths:
        for method in ('GET', 'HEAD', 'POST', 'OPTIONS'):
            status, wrapped_by, body, trace = call_wsgi(app, path, method)
            entered = [t[1:] for t in trace if t.startswith('>')]
            left = [t[1:] for t in trace if t.startswith('<')]
            assert entered == order, (path, method, entered, order)
            assert left == order[::-1], (path, method, left)
            assert wrapped_by == order[::-1], (path, method, wrapped_by)
            if method == 'HEAD':
                assert body == b''


def hello():
    return Response('hello')


def boom():
    raise ValueError('boom')


def other_wsgi(environ, start_response):
    start_response('200 OK', [('Content-Type', 'text/plain'),
                              ('X-Other', 'yes')])
    if environ['REQUEST_METHOD'] == 'HEAD':
        return []
    return [b'other:', environ['PATH_INFO'].encode('ascii')]


class FakeRoute(object):
    def __init__(self, *mws):
        self.middlewares = tuple(mws)


def main():
    # --- the collecting helper itself ----------------------------------
    a, a2, b, c, plain, unhashable = AMW(), AMW(), BMW(), CMW(), PlainMW(), UnhashableMW()
    assert _get_all_middlewares([]) == []
    assert _get_all_middlewares([], ()) == []
    assert _get_all_middlewares((), []) == []
    got = _get_all_middlewares([], [a, b, a2])
    assert got == [a, b] and got[0] is a and got[1] is b
    # routes are visited last to first, each route's list front to back
    got = _get_all_middlewares([FakeRoute(a, b), FakeRoute(c, a2)])
    assert [type(m) for m in got] == [CMW, AMW, BMW]
    assert got[1] is a2  # the first one seen is the one kept
    # the application's own come first and win over the routes' equal ones
    got = _get_all_middlewares([FakeRoute(a2, c), FakeRoute(unhashable)],
                               [b, a])
    assert [type(m) for m in got] == [BMW, AMW, UnhashableMW, CMW]
    assert got[1] is a
    # a fresh list each time, arguments untouched
    app_mws = [a, b]
    routes = [FakeRoute(plain)]
    got = _get_all_middlewares(routes, app_mws)
    assert got is not app_mws and got == [a, b, plain]
    assert app_mws == [a, b] and len(routes) == 1
    # iterables other than lists work for the middleware groups
    got = _get_all_middlewares([FakeRoute(c)], iter([b]))
    assert [type(m) for m in got] == [BMW, CMW]
    # a middleware whose __eq__ is identity based is kept per instance

    class IdentityMW(Middleware):
        __eq__ = object.__eq__
        __ne__ = object.__ne__
        __hash__ = object.__hash__
    i1, i2 = IdentityMW(), IdentityMW()
    assert _get_all_middlewares([FakeRoute(i2, i1)], [i1]) == [i1, i2]
    # broken inputs: the first thing that goes wrong is reported
    try:
        _get_all_middlewares(None, [a])
    except TypeError:
        pass
    else:
        raise AssertionError('expected TypeError')
    try:
        _get_all_middlewares([object()], [a])
    except AttributeError:
        pass
    else:
        raise AssertionError('expected AttributeError')

    # --- stacks on real applications -----------------------------------
    routes = [('/', hello), ('/boom', boom),
              ('/reroute', RerouteWSGI(other_wsgi))]
    paths = ('/', '/boom', '/missing', '/reroute')

    del BUILD[:]
    app = Application(routes, middlewares=[AMW(), PlainMW(), BMW(), NoneMW(),
                                           CMW()])
    assert BUILD == ['C', 'B', 'A'], BUILD  # innermost is built first
    check_stack(app, 'ABC', paths)
    status, wrapped_by, body, _ = call_wsgi(app, '/reroute')
    assert status == '200 OK' and body == b'other:/reroute'
    assert call_wsgi(app, '/boom')[0].startswith('500')
    assert call_wsgi(app, '/missing')[0].startswith('404')

    check_stack(Application(routes, middlewares=[CMW(), AMW()]), 'CA', paths)
    check_stack(Application(routes, middlewares=[UnhashableMW(), BMW()]),
                'UB', paths)
    check_stack(Application(routes), '', paths)
    # no routes at all: the application's own middlewares still wrap it
    check_stack(Application([], middlewares=[BMW(), AMW()]), 'BA',
                ('/', '/missing'))
    check_stack(Application(middlewares=[DMW()]), 'D', ('/',))

    # duplicates of a middleware type are applied once, at the first position
    del BUILD[:]
    dup_app = Application(routes, middlewares=[AMW(), BMW(), AMW(), BMW(),
                                               CMW(), AMW()])
    assert BUILD == ['C', 'B', 'A'], BUILD
    check_stack(dup_app, 'ABC', paths)
    check_stack(Application(routes, middlewares=[CMW(), CMW()]), 'C', paths)
    # the error handler's wrapper is innermost
    del BUILD[:]
    app = Application(routes, middlewares=[AMW(), BMW()],
                      error_handler=TaggedErrorHandler())
    assert BUILD == ['EH', 'B', 'A'], BUILD
    check_stack(app, ['A', 'B', 'EH'], paths)

    # --- embedding ------------------------------------------------------
    inner = Application([('/', hello), ('/boom', boom)],
                        middlewares=[CMW(), AMW()])
    check_stack(inner, 'CA', ('/', '/boom'))
    del BUILD[:]
    outer = Application([('/sub', inner), ('/top', hello)],
                        middlewares=[BMW(), AMW()])
    # embedding app's first (B, A), A applied once, then the embedded C
    assert BUILD == ['C', 'A', 'B'], BUILD
    check_stack(outer, 'BAC', ('/sub/', '/sub/boom', '/top', '/missing'))

    inner2 = Application([('/x', hello)], middlewares=[DMW()])
    outer2 = Application([('/one', inner), ('/two', inner2)],
                         middlewares=[BMW()])
    # routes are scanned last to first: inner2's D before inner's C, A
    check_stack(outer2, 'BDCA', ('/one/', '/two/x', '/nope'))

    # route-level middlewares contribute wrappers too
    from clastic import Route
    rt = Route('/r', hello, middlewares=[DMW(), CMW()])
    app = Application([rt, ('/', hello)], middlewares=[AMW()])
    check_stack(app, 'ADC', ('/r', '/'))

    # the embedded application itself is unaffected by being embedded
    check_stack(inner, 'CA', ('/', '/boom'))

    # invalid wrappers are reported at construction time
    class BadSigMW(Middleware):
        wsgi_wrapper = staticmethod(lambda app: (lambda environ, nope: 'lol'))

    class UncallableMW(Middleware):
        wsgi_wrapper = 'not callable'

    for bad_mw, fragment in ((BadSigMW(), 'expected valid WSGI callable from middleware'),
                             (UncallableMW(), 'expected middleware.wsgi_wrapper to be callable')):
        try:
            Application(routes, middlewares=[AMW(), bad_mw])
        except TypeError as te:
            assert fragment in str(te), str(te)
        else:
            raise AssertionError('expected TypeError')
    print('PASS')


if __name__ == '__main__':
    main()
    sys.exit(0)
