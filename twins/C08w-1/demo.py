# -*- coding: utf-8 -*-
"""demo1: every request gets a response, and the error body is serialised
according to the Accept header (HTTPException.adapt), falling back to
text/plain for anything unknown.  Prints PASS and exits 0."""
import os
import sys
import warnings

warnings.simplefilter('ignore')
sys.path.insert(0, os.path.dirname(os.path.abspath(__file__)))

from werkzeug.utils import get_content_type
from werkzeug.wrappers import Response

import clastic
from clastic import Application, Route, GET, POST, render_basic
from clastic import errors
from clastic.errors import (HTTPException, InternalServerError, NotFound,
                            MethodNotAllowed, ErrorHandler,
                            ContextualErrorHandler, MIME_SUPPORT_MAP)

assert os.path.dirname(os.path.abspath(clastic.__file__)).startswith(
    os.path.dirname(os.path.abspath(__file__)))

EXPECTED_FMT = {'text/html': 'html', 'application/json': 'json',
                'text/plain': 'text', 'application/xml': 'xml'}
assert MIME_SUPPORT_MAP == EXPECTED_FMT
assert list(MIME_SUPPORT_MAP) == list(EXPECTED_FMT)  # order matters to best_match


def expected_rendering(err, mimetype):
    fmt = EXPECTED_FMT.get(mimetype) if isinstance(mimetype, str) else None
    if fmt is None:
        fmt, mimetype = 'text', 'text/plain'
    text = getattr(err, 'to_' + fmt)()
    if not isinstance(text, bytes):
        text = text.encode('utf-8', 'backslashreplace')
    return text, get_content_type(mimetype, 'utf-8')


# ---------------------------------------------------------------- 1. adapt()
class Hashable0(object):
    def __hash__(self):
        return 0


MIMETYPES = [None, '', 'text/html', 'application/json', 'text/plain',
             'application/xml', 'image/png', 'TEXT/HTML', ' text/html', '*/*',
             'text/*', 0, 1.5, False, ('text/html',), frozenset(), b'text/html',
             Hashable0(), u'text/h\xe9', 'x' * 10000]

EXC_TYPES = [getattr(errors, n) for n in errors.__all__]
assert len(EXC_TYPES) > 30 and all(issubclass(t, HTTPException) for t in EXC_TYPES)

checked = 0
for exc_type in EXC_TYPES:
    for detail in (None, '', u'd\xe9tail \udcff <b>&', 'x' * 3000):
        for mt in MIMETYPES:
            err = exc_type(detail)
            before = (err.status_code, err.detail, err.message, err.error_type)
            ret = err.adapt(mt)
            assert ret is None
            data, ctype = expected_rendering(err, mt)
            assert err.data == data, (exc_type, mt)
            assert err.headers['Content-Type'] == ctype, (exc_type, mt, err.headers)
            assert (err.status_code, err.detail, err.message, err.error_type) == before
            # adapting twice / back again is idempotent
            err.adapt(mt)
            assert err.data == data and err.headers['Content-Type'] == ctype
            err.adapt()
            assert err.headers['Content-Type'] == 'text/plain; charset=utf-8'
            checked += 1
assert checked > 2000

# unhashable mimetypes are a TypeError (not swallowed, not a fallback)
for bad in ([], {}, set(), ['text/html']):
    err = NotFound()
    old = (err.data, err.headers['Content-Type'])
    try:
        err.adapt(bad)
    except TypeError:
        pass
    else:
        raise AssertionError('expected TypeError for %r' % (bad,))
    assert (err.data, err.headers['Content-Type']) == old

# the mimetype= constructor argument goes through adapt() too
for mt in MIMETYPES:
    err = InternalServerError('boom', mimetype=mt)
    data, ctype = expected_rendering(err, mt)
    assert err.data == data and err.headers['Content-Type'] == ctype, mt

# a subclass overriding one serializer is honoured; a failing one propagates
class Teapot(HTTPException):
    code = 418
    message = 'teapot'

    def to_json(self, *a, **kw):
        return b'{"tea": true}'



class BrokenXmlTeapot(Teapot):
    def to_xml(self):
        raise KeyError('xml is broken')   # KeyError from the serializer must escape adapt()

t = BrokenXmlTeapot()
t.adapt('application/json')
assert t.data == b'{"tea": true}' and t.headers['Content-Type'] == 'application/json'
try:
    t.adapt('application/xml')
except KeyError as ke:
    assert ke.args == ('xml is broken',)
else:
    raise AssertionError('KeyError of the serializer was swallowed')
assert t.data == b'{"tea": true}'


# ------------------------------------------- 2. through the WSGI application
def call(app, path='/', method='GET', headers=None):
    cl = app.get_local_client()
    resp = cl.open(path, method=method, headers=headers or {})
    body = resp.get_data()
    assert isinstance(body, bytes)
    assert resp.status_code == int(resp.status.split()[0])
    return resp.status_code, resp.headers.get('Content-Type'), body


def ep_ok():
    return Response('fine')

def ep_raise_value():
    raise ValueError(u'bad v\xe4lue \udcfe')

def ep_return_none():
    return None

def ep_return_dict():
    return {'a': 1}

def ep_raise_teapot():
    raise Teapot('short and stout')

def ep_return_teapot():
    return Teapot('short and stout')

def ep_raise_nonbreaking():
    raise NotFound('try the next one', is_breaking=False)


class BrokenRenderHandler(ErrorHandler):
    def render_error(self, request, _error):
        raise RuntimeError('render_error is broken')


class OtherErrorRenderHandler(ErrorHandler):
    def render_error(self, request, _error):
        return errors.ServiceUnavailable('swapped')


ACCEPTS = [None, '', 'text/html', 'application/json', 'text/plain',
           'application/xml', 'image/png', '*/*', 'text/*',
           'application/xml;q=0.2, application/json;q=0.9',
           'text/html;q=0, text/plain', 'garbage;;;q=', 'application/*']

HANDLERS = [lambda: None, ErrorHandler, ContextualErrorHandler,
            BrokenRenderHandler, OtherErrorRenderHandler]

routes = [('/ok', ep_ok), ('/value', ep_raise_value), ('/none', ep_return_none),
          ('/dict', ep_return_dict), ('/dictr', ep_return_dict, render_basic),
          ('/teapot_raise', ep_raise_teapot), ('/teapot_return', ep_return_teapot),
          ('/nb', ep_raise_nonbreaking), POST('/postonly', ep_ok)]

EXPECTED_STATUS = {'/ok': 200, '/value': 500, '/none': 500, '/dict': 500,
                   '/dictr': 200, '/teapot_raise': 418, '/teapot_return': 418,
                   '/nb': 404, '/postonly': 405, '/missing': 404}

CTYPES = set(get_content_type(m, 'utf-8') for m in EXPECTED_FMT)

for make_handler in HANDLERS:
    handler = make_handler()
    app = Application(routes, error_handler=handler)
    for accept in ACCEPTS:
        hdrs = {} if accept is None else {'Accept': accept}
        for path, status in sorted(EXPECTED_STATUS.items()):
            got_status, ctype, body = call(app, path, headers=hdrs)
            if isinstance(handler, OtherErrorRenderHandler) and status >= 400:
                assert got_status == 503, (path, got_status)
                assert b'swapped' in body
                continue
            assert got_status == status, (path, accept, got_status)
            if status < 400:
                continue
            assert ctype in CTYPES, (path, accept, ctype)
            assert body, (path, accept)
            # the chosen format is exactly werkzeug's best match, else text
            from werkzeug.datastructures import MIMEAccept
            from werkzeug.http import parse_accept_header
            best = parse_accept_header(accept, MIMEAccept).best_match(EXPECTED_FMT)
            exp_ctype = get_content_type(best if best in EXPECTED_FMT else 'text/plain', 'utf-8')
            assert ctype == exp_ctype, (path, accept, ctype, exp_ctype)
            if path == '/value':
                assert b'ValueError' in body
            if path.startswith('/teapot') and exp_ctype.startswith('application/json'):
                assert body == b'{"tea": true}'
            if path == '/postonly':
                assert b'POST' in body
        # the app still works after all those failures
        assert call(app, '/ok') == (200, 'text/plain; charset=utf-8', b'fine')

# broken render_error == default rendering of the same error
plain = Application(routes)
broken = Application(routes, error_handler=BrokenRenderHandler())
for accept in ACCEPTS:
    hdrs = {} if accept is None else {'Accept': accept}
    for path in ('/teapot_raise', '/teapot_return', '/nb', '/missing', '/postonly', '/none'):
        assert call(plain, path, headers=hdrs) == call(broken, path, headers=hdrs), (path, accept)

# re-raising handler: the original exception escapes
reraiser = Application(routes, error_handler=ErrorHandler(reraise_uncaught=True))
try:
    call(reraiser, '/value')
except ValueError as ve:
    assert ve.args == (u'bad v\xe4lue \udcfe',)
else:
    raise AssertionError('expected ValueError to escape')
assert call(reraiser, '/teapot_raise', headers={'Accept': 'text/html'})[0] == 418
assert call(reraiser, '/ok')[0] == 200

print('PASS')
