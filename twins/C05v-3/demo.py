# -*- coding: utf-8 -*-
"""demo3: compiling the pattern mini-language (clastic.route._compile_path_pattern
as used by Route / BoundRoute): which patterns are rejected with
InvalidPattern (and which complaint wins), what expression each slash mode
produces, and -- for systematically generated patterns of up to four
elements -- that the compiled route matches exactly the paths an
independent matcher accepts, with the same converted values.
"""
import itertools
import random
import re
import sys

from clastic import Application, Response
from clastic.route import (Route, BoundRoute, InvalidPattern,
                           _compile_path_pattern,
                           S_STRICT, S_REWRITE, S_REDIRECT)

MODES = (S_STRICT, S_REWRITE, S_REDIRECT)
NO_OP = lambda: Response()
DIGITS = '0123456789'


# ---------------------------------------------------------------- reference
def _take_digits(s, i):
    j = i
    while j < len(s) and s[j] in DIGITS:
        j += 1
    return j


def lex_int(s):
    i = 0
    if i < len(s) and s[i] in '+-':
        i += 1
    while i < len(s) and s[i] == ' ':
        i += 1
    j = _take_digits(s, i)
    return j > i and j == len(s)


def lex_float(s):
    i = 0
    if i < len(s) and s[i] in '+-':
        i += 1
    while i < len(s) and s[i] == ' ':
        i += 1
    j = _take_digits(s, i)
    if j > i:
        i = j
        if i < len(s) and s[i] == '.':
            i = _take_digits(s, i + 1)
    elif i < len(s) and s[i] == '.':
        j = _take_digits(s, i + 1)
        if j == i + 1:
            return False
        i = j
    else:
        return False
    if i < len(s) and s[i] in 'eE':
        k = i + 1
        if k < len(s) and s[k] in '+-':
            k += 1
        j = _take_digits(s, k)
        if j == k:
            return False
        i = j
    return i == len(s)


LEX = {'str': lambda s: True, 'unicode': lambda s: True, None: lambda s: True,
       'int': lex_int, 'float': lex_float}
CONV = {'str': str, 'unicode': str, None: str, 'int': int, 'float': float}


def parse_pattern(pattern):
    """-> (elements, trailing_slash); element = ('lit', text) or
    ('bind', name, op, type)"""
    assert pattern.startswith('/')
    parts = pattern.split('/')[1:]
    trailing = parts[-1] == ''
    if trailing:
        parts = parts[:-1]
    elems = []
    for part in parts:
        if part.startswith('<'):
            body = part[1:-1]
            n = 0
            while n < len(body) and (body[n].isalnum() or body[n] == '_'):
                n += 1
            name, rest = body[:n], body[n:]
            op = ''
            if rest and rest[0] in ':?*+':
                op, rest = rest[0], rest[1:]
            if op == ':':
                op = ''
            elems.append(('bind', name, op, rest or None))
        else:
            elems.append(('lit', part))
    return elems, trailing


def tokenize(path, strict, trailing):
    """Split the path into (slash_run, segment) pieces, or None if the
    path's slashes are not acceptable in this mode."""
    if strict and trailing:
        if not path.endswith('/'):
            return None
        path = path[:-1]
    pieces = []
    i = 0
    while i < len(path):
        j = i
        while j < len(path) and path[j] == '/':
            j += 1
        if j == i:
            return None  # a segment without a leading slash
        k = j
        while k < len(path) and path[k] != '/':
            k += 1
        if k == j:
            # trailing run of slashes
            if strict:
                return None
            break
        if strict and j - i != 1:
            return None
        pieces.append((path[i:j], path[j:k]))
        i = k
    return pieces


def assignments(elems, pieces):
    """Yield assignments (dict name -> list of pieces) in the order a
    greedy backtracking matcher tries them."""
    if not elems:
        if not pieces:
            yield {}
        return
    el, rest = elems[0], elems[1:]
    if el[0] == 'lit':
        if pieces and pieces[0][1] == el[1]:
            for a in assignments(rest, pieces[1:]):
                yield a
        return
    _, name, op, type_name = el
    lex = LEX[type_name]
    avail = 0
    while avail < len(pieces) and lex(pieces[avail][1]):
        avail += 1
    lo, hi = {'': (1, 1), '?': (0, 1), '*': (0, None), '+': (1, None)}[op]
    hi = avail if hi is None else min(hi, avail)
    for n in range(hi, lo - 1, -1):
        for a in assignments(rest, pieces[n:]):
            a = dict(a)
            a[name] = pieces[:n]
            yield a


def ref_match(pattern, mode, path):
    elems, trailing = parse_pattern(pattern)
    pieces = tokenize(path, mode == S_STRICT, trailing)
    if pieces is None:
        return None
    first = next(assignments(elems, pieces), None)
    if first is None:
        return None
    ret = {}
    for el in elems:
        if el[0] != 'bind':
            continue
        _, name, op, type_name = el
        conv = CONV[type_name]
        taken = first[name]
        try:
            if op in ('*', '+'):
                # every extra slash of a repeated separator contributes an
                # empty item (that is what the implementation does)
                raw = []
                for slashes, seg in taken:
                    raw.extend([''] * (len(slashes) - 1))
                    raw.append(seg)
                ret[name] = [conv(r) for r in raw]
            elif not taken:
                ret[name] = None
            else:
                ret[name] = conv(taken[0][1])
        except ValueError:
            return None
    return ret


# ------------------------------------------------------------------ harness
def bind(pattern, mode):
    route = Route(pattern, NO_OP, slash_mode=mode)
    br = route.bind(Application(slash_mode=mode))
    assert isinstance(br, BoundRoute) and br.slash_mode == mode
    return br


def same(a, b):
    """== plus identical types (1 vs 1.0 vs '1')."""
    if a is None or b is None:
        return a is b
    if set(a) != set(b):
        return False
    for k in a:
        x, y = a[k], b[k]
        if type(x) is not type(y) or x != y:
            return False
        if isinstance(x, list) and [type(i) for i in x] != [type(i) for i in y]:
            return False
    return True


ALPHABET = ['/', 'a', '1', '.', '-', '+', ' ', 'e', u'\xe9']


def all_paths(max_len):
    for n in range(max_len + 1):
        for tup in itertools.product(ALPHABET, repeat=n):
            yield ''.join(tup)



INT = r'[+-]?\ *[0-9]+'
FLOAT = r'[+-]?\ *(\d+(\.\d*)?|\.\d+)([eE][+-]?\d+)?'

REGEX_SOURCES = [
    ('/', S_STRICT, '^/$'),
    ('/', S_REWRITE, '^/*$'),
    ('/', S_REDIRECT, '^/*$'),
    ('/a/b', S_STRICT, '^/a/b$'),
    ('/a/b', S_REDIRECT, '^/+a/+b/*$'),
    ('/a/b/', S_STRICT, '^/a/b/$'),
    ('/a/b/', S_REWRITE, '^/+a/+b/*$'),
    ('/<x>', S_STRICT, '^(?P<x>(/[^/]+))$'),
    ('/<x:>', S_STRICT, '^(?P<x>(/[^/]+))$'),
    ('/<x:str>', S_REWRITE, '^(?P<x>(/+[^/]+))/*$'),
    ('/<x>/', S_STRICT, '^(?P<x>(/[^/]+))/$'),
    ('/<x>/', S_REDIRECT, '^(?P<x>(/+[^/]+))/*$'),
    ('/a/<x*int>/', S_STRICT, '^/a(?P<x>(/' + INT + ')*)/$'),
    ('/a/<x*int>/', S_REDIRECT, '^/+a(?P<x>(/+' + INT + ')*)/*$'),
    ('/<x?float>/b', S_REWRITE, '^(?P<x>(/+' + FLOAT + ')?)/+b/*$'),
    ('/<x+>/<y:int>', S_STRICT, '^(?P<x>(/[^/]+)+)(?P<y>(/' + INT + '))$'),
    ('/<x>tail/z', S_STRICT, '^(?P<x>(/[^/]+))/z$'),   # text after '>' is dropped
]

START = 'URL path patterns must start with a forward slash (got %r)'
MULTI = 'URL path patterns must not contain multiplecontiguous slashes (got %r)'
ARITY = "unknown arity operator %r, expected one of dict_keys(['', '?', ':', '+', '*'])"

BROKEN = [
    # (pattern, message, type of __context__)
    ('', START % '', None),
    ('a', START % 'a', None),
    ('a//<x!>', START % 'a//<x!>', None),              # leading slash is checked first
    ('<x>', START % '<x>', None),
    ('//', MULTI % '//', None),
    ('/a//b', MULTI % '/a//b', None),
    ('/<x!>//', MULTI % '/<x!>//', None),              # before looking at bindings
    ('/<x>/<x>', 'duplicate path binding x', None),
    ('/<x>/a/<y>/<x*int>', 'duplicate path binding x', None),
    ('/<x>/<x:bogus>', 'duplicate path binding x', None),   # before the type
    ('/<x>/<x!>', 'duplicate path binding x', None),        # before the operator
    ('/<x:bogus>', 'unknown type specifier bogus', KeyError),
    ('/<x:Int>', 'unknown type specifier Int', KeyError),
    ('/<x!bogus>', 'unknown type specifier bogus', KeyError),  # type before operator
    ('/<x:bogus>/<y!>', 'unknown type specifier bogus', KeyError),  # first element wins
    ('/<y!>/<x:bogus>', ARITY % '!', KeyError),
    ('/<x!>', ARITY % '!', KeyError),
    ('/<x::int>', ARITY % '::', KeyError),
    ('/<x?:int>', ARITY % '?:', KeyError),
    ('/<x**>', ARITY % '**', KeyError),
    ('/<x int>', ARITY % ' ', KeyError),
    ('/a/<x>/b/<y#float>/', ARITY % '#', KeyError),
]


def compile_checks():
    for pattern, mode, source in REGEX_SOURCES:
        regex, convs = _compile_path_pattern(pattern, mode)
        assert regex.pattern == source, (pattern, mode, regex.pattern, source)
        assert regex.flags == re.compile(source).flags
        assert bind(pattern, mode).regex.pattern == source
    # default mode is rewrite
    assert _compile_path_pattern('/a/')[0].pattern == '^/+a/*$'
    # the converter map: a fresh plain dict per call, keys in pattern order
    r1, c1 = _compile_path_pattern('/<b>/k/<a*int>/<c?float>', S_STRICT)
    r2, c2 = _compile_path_pattern('/<b>/k/<a*int>/<c?float>', S_STRICT)
    assert type(c1) is dict and list(c1) == ['b', 'a', 'c'] and c1 is not c2
    assert c1['b']('/q') == 'q' and c1['a']('/1/2') == [1, 2] and c1['a']('') == []
    assert c1['c']('') is None and c1['c']('/1.5') == 1.5
    assert r1.pattern == r2.pattern and list(r1.groupindex) == ['b', 'a', 'c']
    assert _compile_path_pattern('/a/b', S_REDIRECT)[1] == {}
    br = bind('/<b>/k/<a*int>/<c?float>', S_REWRITE)
    assert list(br.path_args) == ['b', 'a', 'c'] == list(br.converters)

    for pattern, message, ctx in BROKEN:
        for mode in MODES:
            for build in (lambda: _compile_path_pattern(pattern, mode),
                          lambda: Route(pattern, NO_OP, slash_mode=mode)):
                try:
                    build()
                except InvalidPattern as e:
                    assert isinstance(e, ValueError)
                    assert str(e) == message, (pattern, mode, str(e), message)
                    if ctx is None:
                        assert e.__context__ is None, (pattern, e.__context__)
                    else:
                        assert type(e.__context__) is ctx, (pattern, e.__context__)
                else:
                    raise AssertionError('%r accepted in %s mode' % (pattern, mode))
    # a non-strict route re-bound under a strict application (and back)
    route = Route('/a/<x?int>/', NO_OP, slash_mode=S_REDIRECT)
    strict = route.bind(Application(slash_mode=S_STRICT))
    loose = strict.bind(Application(slash_mode=S_REWRITE))
    own = route.bind(Application(slash_mode=S_STRICT), inherit_slashes=False)
    assert strict.match_path('/a/') == {'x': None} and strict.match_path('/a') is None
    assert strict.match_path('/a/5/') == {'x': 5} and strict.match_path('/a//5/') is None
    assert loose.match_path('/a') == {'x': None} == own.match_path('//a//')
    assert loose.match_path('/a//5') == {'x': 5} == own.match_path('/a/5///')
    # prefix + pattern is what gets compiled
    pre = route.bind(Application(slash_mode=S_STRICT), prefix='/<p+>')
    assert pre.pattern == '/<p+>/a/<x?int>/'
    assert pre.match_path('/u/v/a/3/') == {'p': ['u', 'v'], 'x': 3}
    try:
        route.bind(Application(), prefix='/<x>')
    except InvalidPattern as e:
        assert str(e) == 'duplicate path binding x'
    else:
        raise AssertionError


TYPES = [None, 'str', 'int', 'float']
OPS = ['', ':', '?', '*', '+']
NAMES = 'wxyz'


def render(elems, trailing):
    out = []
    for i, el in enumerate(elems):
        if el[0] == 'lit':
            out.append(el[1])
        else:
            _, op, type_name = el
            if type_name and not op:
                op = ':'
            out.append('<%s%s%s>' % (NAMES[i], op, type_name or ''))
    return '/' + '/'.join(out) + ('/' if trailing and out else '')


def gen_patterns(rng, count):
    pool = [('lit', 'a'), ('lit', '1'), ('lit', 'a-_1')]
    pool += [('bind', op, t) for op in OPS for t in TYPES]
    pats = set()
    # every single-element pattern ...
    for el in pool:
        for trailing in (False, True):
            pats.add(render([el], trailing))
    # ... and a random sample of longer ones (bindings favoured)
    while len(pats) < count:
        n = rng.randint(2, 4)
        elems = [rng.choice(pool if rng.random() < .8 else pool[:3])
                 for _ in range(n)]
        pats.add(render(elems, rng.random() < .5))
    return sorted(pats)


SEGMENTS = ['a', '1', '-1', '.5', '1e1', '+ 1', ' 1', 'e', u'\xe9', '1.', 'a-_1', '-', '+']


def gen_paths(rng, count):
    paths = list(all_paths(3))
    for _ in range(count):
        n = rng.randint(0, 6)
        p = ''
        for _ in range(n):
            p += rng.choice(['/', '/', '/', '/', '//', '///']) + rng.choice(SEGMENTS)
        p += rng.choice(['', '', '/', '//'])
        paths.append(p)
    return paths


def main():
    compile_checks()
    rng = random.Random(3)
    patterns = gen_patterns(rng, 170)
    assert '/<w>' in patterns and '/<w:>' in patterns and '/<w*float>/' in patterns
    paths = gen_paths(rng, 700)
    checked = matched = 0
    for pattern in patterns:
        for mode in MODES:
            br = bind(pattern, mode)
            for path in paths:
                got = br.match_path(path)
                want = ref_match(pattern, mode, path)
                assert same(got, want), (pattern, mode, path, got, want)
                checked += 1
                matched += got is not None
    assert matched > 20000, matched
    print('checked %d patterns, %d pattern/path pairs (%d matching)'
          % (len(patterns), checked, matched))
    print('PASS')
    return 0


if __name__ == '__main__':
    sys.exit(main())
