# -*- coding: utf-8 -*-
"""demo1: randomized (fixed seed) differential check of the bind-time dependency
check against an independent oracle, focused on the required/optional/provided
set arithmetic of chain_argspec / make_chain.

For every generated configuration the oracle predicts whether Application(...)
must succeed or raise NameError, and -- if it succeeds -- exactly which values
every middleware / endpoint / render function must receive on a request.
"""
import random
import sys

from clastic import Application, Route, Middleware, Response
from clastic.errors import ErrorHandler

_DFLT = 'dflt'
REQ_BUILTINS = frozenset(['request', '_application', '_route', '_dispatch_state'])
PROVIDABLE = ['p', 'q', 's']


def make_func(label, kind, spec, provides, log):
    required, optional, kwonly = spec
    params = []
    if kind == 'mw':
        params.append('next')
    params.extend(required)
    params.extend('%s=_DFLT' % n for n in optional)
    if kwonly:
        params.append('*')
        params.extend(kwonly)
    names = list(required) + list(optional) + list(kwonly)
    seen = '{' + ', '.join('%r: %s' % (n, n) for n in names) + '}'
    if kind == 'mw':
        ret = 'next(**_provided)'
    elif kind == 'endpoint':
        ret = "{'ep': 'ok'}"
    else:
        ret = "Response('ok')"
    src = ('def %s(%s):\n    _log.append((%r, %s))\n    return %s\n'
           % (label, ', '.join(params), label, seen, ret))
    env = {'_log': log, '_DFLT': _DFLT, 'Response': Response,
           '_provided': dict((p, 'prov_' + p) for p in provides)}
    exec(src, env)
    return env[label]


_MW_COUNTER = [0]


def make_mw(mw_spec, log):
    """mw_spec: dict phase -> (spec, provides); phase in request/endpoint/render"""
    _MW_COUNTER[0] += 1
    name = 'MW%d' % _MW_COUNTER[0]
    cls = type(name, (Middleware,), {})
    mw = cls()
    prov_attr = {'request': 'provides', 'endpoint': 'endpoint_provides',
                 'render': 'render_provides'}
    for phase, (spec, provides) in mw_spec.items():
        func = make_func('%s_%s' % (name, phase), 'mw', spec, provides, log)
        setattr(mw, phase, func)
        setattr(mw, prov_attr[phase], tuple(provides))
    mw._spec = mw_spec
    mw._name = name
    return mw


def canonical(name):
    if name == 'u':
        return 'uval'
    if name == 'r':
        return 'res_r'
    if name in PROVIDABLE:
        return 'prov_' + name
    if name == 'context':
        return {'ep': 'ok'}
    return '<builtin %s>' % name


def normalise(seen):
    ret = {}
    for k, v in seen.items():
        if k in REQ_BUILTINS:
            v = '<builtin %s>' % k
        ret[k] = v
    return ret


def oracle(mws, ep_spec, rn_spec, url, resources, ep_label='EP', rn_label='RN'):
    """Returns (ok, expected_log)."""
    base = set(url) | set(resources) | REQ_BUILTINS
    expected = []
    ok = True

    def visit(label, spec, avail):
        required, optional, kwonly = spec
        seen = {}
        good = True
        for n in list(required) + list(kwonly):
            if n in avail:
                seen[n] = canonical(n)
            else:
                good = False
        for n in optional:
            seen[n] = canonical(n) if n in avail else _DFLT
        expected.append((label, seen))
        return good

    for n in ep_spec[0] + ep_spec[1] + ep_spec[2]:
        if n == 'next':
            ok = False
    for n in rn_spec[0] + rn_spec[1] + rn_spec[2]:
        if n == 'next':
            ok = False

    avail = set(base)
    for mw in mws:
        if 'request' in mw._spec:
            spec, provides = mw._spec['request']
            ok &= visit(mw._name + '_request', spec, avail)
            avail |= set(provides)
    req_all = set(avail)

    avail = set(req_all)
    for mw in mws:
        if 'endpoint' in mw._spec:
            spec, provides = mw._spec['endpoint']
            ok &= visit(mw._name + '_endpoint', spec, avail)
            avail |= set(provides)
    ok &= visit(ep_label, ep_spec, avail)

    avail = req_all | set(['context'])
    for mw in mws:
        if 'render' in mw._spec:
            spec, provides = mw._spec['render']
            ok &= visit(mw._name + '_render', spec, avail)
            avail |= set(provides)
    ok &= visit(rn_label, rn_spec, avail)
    return ok, expected


NULL_EP_SPEC = (('request', '_application', '_route', '_dispatch_state'), (), ())
NULL_RN_SPEC = (('context',), (), ())


def rand_spec(rng, pool, optional_pool):
    names = list(pool)
    rng.shuffle(names)
    k = rng.choice([0, 0, 1, 1, 2, 3])
    chosen = names[:k]
    if rng.random() < 0.6:
        # bias towards satisfiable signatures so that both outcomes are well covered
        chosen = [n for n in chosen if n in ('u', 'r', 'request', '_route')]
    required, optional, kwonly = [], [], []
    for n in chosen:
        slot = rng.choice(['req', 'req', 'opt', 'kw'])
        if slot == 'opt' and n not in optional_pool:
            slot = 'req'
        {'req': required, 'opt': optional, 'kw': kwonly}[slot].append(n)
    return tuple(required), tuple(optional), tuple(kwonly)


def rand_config(rng):
    log = []
    free_provides = list(PROVIDABLE)
    rng.shuffle(free_provides)
    pool = ['u', 'r', 'request', 'p', 'q', 's', 'z', 'context', '_route']
    # optional params of *middleware* functions never name a providable arg:
    # that is the "cyclic" corner the property leaves open.
    mw_opt_pool = ['u', 'r', 'request', 'z', 'context', '_route']

    def rand_mw():
        mw_spec = {}
        for phase in ('request', 'endpoint', 'render'):
            if rng.random() < 0.55:
                provides = []
                while free_provides and rng.random() < 0.4:
                    provides.append(free_provides.pop())
                mw_spec[phase] = (rand_spec(rng, pool, mw_opt_pool), tuple(provides))
        return make_mw(mw_spec, log)

    n_app = rng.choice([0, 0, 1, 2])
    n_route = rng.choice([0, 1, 1, 2])
    app_mws = [rand_mw() for _ in range(n_app)]
    route_mws = [rand_mw() for _ in range(n_route)]
    ep_spec = rand_spec(rng, pool, pool)
    rn_spec = rand_spec(rng, pool, pool)
    if rng.random() < 0.03:
        ep_spec = (ep_spec[0] + ('next',), ep_spec[1], ep_spec[2])
    if rng.random() < 0.03:
        rn_spec = (rn_spec[0], rn_spec[1] + ('next',), rn_spec[2])
    resources = {'r': 'res_r'} if rng.random() < 0.7 else {}
    return log, app_mws, route_mws, ep_spec, rn_spec, resources


def run_one(rng, stats):
    log, app_mws, route_mws, ep_spec, rn_spec, resources = rand_config(rng)
    endpoint = make_func('EP', 'endpoint', ep_spec, (), log)
    render = make_func('RN', 'render', rn_spec, (), log)

    # merged order: application middlewares first, then the route's
    ok_route, exp_route = oracle(app_mws + route_mws, ep_spec, rn_spec, ['u'], resources)
    ok_null, exp_null = oracle(app_mws, NULL_EP_SPEC, NULL_RN_SPEC, ['_ignored'], resources,
                               ep_label=None, rn_label=None)
    expect_ok = ok_route and ok_null
    desc = (app_mws and [m._spec for m in app_mws], [m._spec for m in route_mws],
            ep_spec, rn_spec, resources)

    route = Route('/x/<u>', endpoint, render, middlewares=route_mws)
    try:
        app = Application([route], resources, app_mws,
                          error_handler=ErrorHandler(reraise_uncaught=True))
    except NameError:
        assert not expect_ok, 'rejected but oracle accepts: %r' % (desc,)
        stats['rejected'] += 1
        # add() on an already constructed application must agree
        if ok_null:
            app2 = Application([], resources, app_mws)
            try:
                app2.add(Route('/x/<u>', endpoint, render, middlewares=route_mws))
            except NameError:
                pass
            else:
                raise AssertionError('add() accepted what __init__ rejected: %r' % (desc,))
        return
    assert expect_ok, 'accepted but oracle rejects: %r' % (desc,)
    stats['accepted'] += 1

    cl = app.get_local_client()
    del log[:]
    resp = cl.get('/x/uval')
    assert resp.status_code == 200, (resp.status_code, desc)
    got = [(label, normalise(seen)) for label, seen in log]
    assert got == exp_route, '\n got %r\n exp %r\n cfg %r' % (got, exp_route, desc)

    # catch-all route: only the application-level middlewares run
    del log[:]
    resp = cl.get('/nowhere/at/all')
    assert resp.status_code == 404, (resp.status_code, desc)
    got = [(label, normalise(seen)) for label, seen in log]
    # (the 404 is itself a response, so the render phase is skipped)
    exp = [(label, seen) for label, seen in exp_null
           if label is not None and not label.endswith('_render')]
    assert got == exp, '\n got %r\n exp %r\n cfg %r' % (got, exp, desc)

    del log[:]
    resp = cl.post('/x/uval')  # no method restriction -> still 200
    assert resp.status_code == 200


def main():
    rng = random.Random(20240101)
    stats = {'accepted': 0, 'rejected': 0}
    for _ in range(700):
        run_one(rng, stats)
    assert stats['accepted'] > 100 and stats['rejected'] > 100, stats
    print('configs: %r' % (stats,))
    print('PASS')


if __name__ == '__main__':
    main()
    sys.exit(0)
