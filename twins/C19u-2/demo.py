# -*- coding: utf-8 -*-
"""demo2: every request that reaches a route is counted exactly once, under the
right key -- through a real Application and by driving
StatsMiddleware.request directly with fakes (incl. the odd corners)."""
import json
import random
import sys
import warnings
from collections import Counter

warnings.simplefilter('ignore')

from clastic import Application, redirect, GET, POST
from clastic.errors import NotFound, Forbidden, BadRequest
from clastic.render import render_basic
from clastic.middleware import stats as stats_mod
from clastic.middleware.stats import (StatsMiddleware, create_stats_app, Hit,
                                      RouteStatReservoir)


# ---------------------------------------------------------------- end to end

def ok():
    return 'fine'


def redir():
    return redirect('/ok')


def raised():
    raise Forbidden()


def returned():
    return BadRequest()


def boom():
    raise ValueError('x')


def item(name):
    if name == 'none':
        raise NotFound()
    if name == 'key':
        raise KeyError(name)
    return {'name': name}


# url -> (pattern, status key, http status)
OUTCOMES = {
    '/ok': ('/ok', '200', 200),
    '/redir': ('/redir', '302', 302),
    '/raised': ('/raised', '403', 403),
    '/returned': ('/returned', '400', 400),
    '/boom': ('/boom', "'ValueError'", 500),
    '/item/a': ('/item/<name>', '200', 200),
    '/item/none': ('/item/<name>', '404', 404),
    '/item/key': ('/item/<name>', "'KeyError'", 500),
    '/nope': ('/<_ignored*>', '404', 404),
    '/post': ('/<_ignored*>', '405', 405),
}


def make_app():
    mw = StatsMiddleware()
    app = Application([('/ok', ok, render_basic),
                       ('/redir', redir),
                       ('/raised', raised),
                       ('/returned', returned),
                       ('/boom', boom),
                       GET('/item/<name>', item, render_basic),
                       POST('/post', ok, render_basic),
                       ('/stats', create_stats_app())],
                      middlewares=[mw])
    return app, mw


def report_counts(data):
    return dict((patt, dict((st, d['count']) for st, d in by_status.items()))
                for patt, by_status in data['route_stats'].items())


def model_counts(model):
    ret = {}
    for (patt, status), n in model.items():
        ret.setdefault(patt, {})[status] = n
    return ret


def check_end_to_end():
    urls = sorted(OUTCOMES)
    for seed in range(12):
        rng = random.Random(seed)
        app, mw = make_app()
        cl = app.get_local_client()
        model = Counter()
        first_reset = mw.last_reset
        for step in range(120):
            r = rng.random()
            if r < 0.8:
                url = rng.choice(urls)
                patt, key, http_status = OUTCOMES[url]
                resp = cl.get(url)
                assert resp.status_code == http_status, (url, resp.status_code)
                model[(patt, key)] += 1
            elif r < 0.93:
                resp = cl.get('/stats/?format=json')
                assert resp.status_code == 200
                data = json.loads(resp.get_data(True))
                # the read itself is filed only after its body was built
                assert report_counts(data) == model_counts(model), (seed, step)
                assert 'reset' not in data
                assert data['start_time_utc'] == mw.last_reset.isoformat()
                model[('/stats/', '200')] += 1
            else:
                before = mw.last_reset
                resp = cl.post('/stats/reset?format=json')
                assert resp.status_code == 200
                data = json.loads(resp.get_data(True))
                assert data['reset'] is True
                assert report_counts(data) == model_counts(model), (seed, step)
                assert data['start_time_utc'] == before.isoformat()
                assert mw.last_reset >= before and mw.last_reset is not before
                model = Counter()
                # the reset request itself lands in the fresh table
                model[('/stats/reset', '200')] += 1
            # a route's counts always sum to the requests that reached it
            by_route = Counter()
            for (patt, key), n in model.items():
                by_route[patt] += n
            seen = Counter()
            for rt, by_status in mw.route_hits.items():
                for key, rsr in by_status.items():
                    assert isinstance(rsr, RouteStatReservoir)
                    seen[rt.pattern] += rsr.total_count
                    assert rsr.total_count == len(list(rsr)) == model[(rt.pattern, key)]
            assert seen == by_route, (seed, step)
        assert first_reset <= mw.last_reset


# ------------------------------------------------------------- direct driving

class FakeClock(object):
    def __init__(self):
        self.now = 1000.0
        self.calls = 0

    def time(self):
        self.calls += 1
        self.now += 0.5
        return self.now


class FakeRoute(object):
    def __init__(self, pattern):
        self.pattern = pattern


class FakeRequest(object):
    def __init__(self, path):
        self.path = path


class Resp(object):
    def __init__(self, **kw):
        self.__dict__.update(kw)


class CodedError(Exception):
    def __init__(self, **kw):
        Exception.__init__(self)
        self.__dict__.update(kw)


def drive(mw, route, nxt, path='/p'):
    """-> ('ok', resp) or ('exc', exception)"""
    try:
        return 'ok', mw.request(nxt, FakeRequest(path), route)
    except BaseException as exc:
        return 'exc', exc


def raiser(exc):
    def nxt():
        raise exc
    return nxt


def check_direct():
    real_time = stats_mod.time
    clock = FakeClock()
    stats_mod.time = clock
    try:
        mw = StatsMiddleware()
        assert len(mw.route_hits) == 0
        rt = FakeRoute('/fake/<x>')
        expected = []  # (status key, mime) in order of arrival

        sentinel = Resp(status_code=200, content_type='text/html; charset=utf-8')
        kind, got = drive(mw, rt, lambda: sentinel)
        assert kind == 'ok' and got is sentinel
        expected.append(('200', 'text/html'))

        for resp, key, mime in [
                (Resp(status_code=0, content_type=None), '0', ''),
                (Resp(status_code=None, content_type=''), 'None', ''),
                (Resp(content_type='application/json'), "'Resp'", 'application/json'),
                (Resp(status_code='201', content_type=';x'), "'201'", ''),
                ({'a': 1}, "'dict'", ''),
                (None, "'NoneType'", ''),
                (0, "'int'", '')]:
            kind, got = drive(mw, rt, lambda resp=resp: resp)
            assert kind == 'ok' and got is resp, (kind, got)
            expected.append((key, mime))

        # a response whose content_type cannot be partitioned: the TypeError
        # is what gets counted, and it propagates
        bad = Resp(status_code=200, content_type=b'text/html')
        kind, got = drive(mw, rt, lambda: bad)
        assert kind == 'exc' and type(got) is TypeError
        expected.append(("'TypeError'", ''))
        bad2 = Resp(status_code=200, content_type=7)
        kind, got = drive(mw, rt, lambda: bad2)
        assert kind == 'exc' and type(got) is AttributeError
        expected.append(("'AttributeError'", ''))

        for exc, key, mime in [
                (ValueError('v'), "'ValueError'", ''),
                (CodedError(code=418, content_type='text/plain; q=1'), '418', 'text/plain'),
                (CodedError(code=None), 'None', ''),
                (CodedError(content_type=''), "'CodedError'", ''),
                (Forbidden(), '403', None),
                (NotFound(), '404', None)]:
            kind, got = drive(mw, rt, raiser(exc))
            assert kind == 'exc' and got is exc, (kind, got)
            if isinstance(exc, (Forbidden, NotFound)):
                mime = getattr(exc, 'content_type', '').partition(';')[0]
            expected.append((key, mime))

        assert clock.calls == 2 * len(expected)
        tally = Counter(key for key, _ in expected)
        by_status = mw.route_hits[rt]
        assert dict((k, v.total_count) for k, v in by_status.items()) == dict(tally)
        assert list(mw.route_hits) == [rt]
        all_hits = sorted((h for rsr in by_status.values() for h in rsr),
                          key=lambda h: h.start_time)
        assert len(all_hits) == len(expected)
        for i, (hit, (key, mime)) in enumerate(zip(all_hits, expected)):
            assert type(hit) is Hit
            assert hit == Hit(start_time=1000.5 + i, url='/p', pattern='/fake/<x>',
                              status_code=key, duration=0.5, content_type=mime), hit
        for key, rsr in by_status.items():
            assert rsr.total_duration == 0.5 * tally[key]
            assert rsr.last_hit == max(h.start_time for h in rsr)

        # corners where nothing can be filed: the UnboundLocalError from the
        # finally block wins and no table entry appears
        n_routes = len(mw.route_hits)
        rt2 = FakeRoute('/other')
        calls_before = clock.calls
        for exc in (KeyboardInterrupt(), SystemExit(3), GeneratorExit(),
                    CodedError(code=500, content_type=None)):
            kind, got = drive(mw, rt2, raiser(exc))
            assert kind == 'exc' and type(got) is UnboundLocalError, (exc, got)
            assert got.__context__ is not None
        assert clock.calls == calls_before + 2 * 4
        assert len(mw.route_hits) == n_routes and rt2 not in mw.route_hits
        assert sum(v.total_count for v in by_status.values()) == len(expected)

        # distinct route objects with one pattern are kept apart in the table
        rt3, rt4 = FakeRoute('/same'), FakeRoute('/same')
        drive(mw, rt3, lambda: sentinel, path='/same')
        drive(mw, rt4, lambda: sentinel, path='/same')
        drive(mw, rt4, raiser(ValueError()), path='/same')
        assert mw.route_hits[rt3]['200'].total_count == 1
        assert mw.route_hits[rt4]['200'].total_count == 1
        assert mw.route_hits[rt4]["'ValueError'"].total_count == 1

        # reset: new empty table, later requests start from zero
        old_table, old_reset = mw.route_hits, mw.last_reset
        assert mw.reset() is None
        assert mw.route_hits is not old_table and len(mw.route_hits) == 0
        assert mw.last_reset >= old_reset
        assert old_table[rt]['200'].total_count == 1
        drive(mw, rt, lambda: sentinel)
        assert mw.route_hits[rt]['200'].total_count == 1
        # the table is a two-level defaultdict of fresh reservoirs
        fresh = mw.route_hits['anything']['x']
        assert type(fresh) is RouteStatReservoir and fresh.total_count == 0
        assert fresh is mw.route_hits['anything']['x']
        assert fresh is not mw.route_hits['other']['x']
    finally:
        stats_mod.time = real_time


def check_many_hits_one_route():
    # far past nothing special for the default capacity, but shrink it: the
    # count stays exact while the sample stays bounded
    mw = StatsMiddleware()
    rt = FakeRoute('/busy')
    resp = Resp(status_code=200, content_type='text/plain')
    drive(mw, rt, lambda: resp)
    mw.route_hits[rt]['200'].resize(5)
    random.seed(11)
    for i in range(500):
        drive(mw, rt, lambda: resp)
        if i % 50 == 0:
            drive(mw, rt, raiser(RuntimeError()))
    rsr = mw.route_hits[rt]['200']
    assert rsr.total_count == 501 and len(list(rsr)) == 5
    assert mw.route_hits[rt]["'RuntimeError'"].total_count == 10
    assert all(type(h) is Hit and h.status_code == '200' for h in rsr)


def main():
    check_end_to_end()
    check_direct()
    check_many_hits_one_route()
    print('PASS')
    return 0


if __name__ == '__main__':
    sys.exit(main())
