# -*- coding: utf-8 -*-
"""Demo for property C19: stats count every request once, bounded samples.

Standalone: prints PASS and exits 0 (on clean code and with the patch applied).
"""
import json
import random
import sys
from collections import defaultdict

from werkzeug.wrappers import Response

from clastic import Application, redirect
from clastic.errors import BadRequest, Forbidden
from clastic.middleware import stats as stats_mod
from clastic.middleware.stats import (StatsMiddleware, create_stats_app,
                                      Reservoir, RouteStatReservoir, Hit,
                                      fast_randint, get_stats_dict,
                                      get_and_reset_stats_dict)


def ok():
    return Response('ok', mimetype='text/plain')


def moved():
    return redirect('/ok')


def raised_400():
    raise BadRequest('nope')


def returned_403():
    return Forbidden('no way')


def boom():
    raise ValueError('boom')


def item(num):
    return Response('item %s' % num, mimetype='text/html')


def make_app():
    mw = StatsMiddleware()
    app = Application([('/ok', ok),
                       ('/moved', moved),
                       ('/bad', raised_400),
                       ('/forbidden', returned_403),
                       ('/boom', boom),
                       ('/item/<num:int>', item),
                       ('/stats', create_stats_app())],
                      middlewares=[mw])
    return app, mw


REQUESTS = [('/ok', '/ok', '200'),
            ('/moved', '/moved', '302'),
            ('/bad', '/bad', '400'),
            ('/forbidden', '/forbidden', '403'),
            ('/boom', '/boom', "'ValueError'"),
            ('/item/3', '/item/<num:int>', '200'),
            ('/item/44', '/item/<num:int>', '200'),
            ('/item/notanint', None, None),   # 404 on the null route
            ('/nowhere', None, None)]


def check_report(data, model, start_floor=None):
    assert set(data) >= {'route_stats', 'start_time_utc', 'cur_time_utc'}, data
    assert data['start_time_utc'] <= data['cur_time_utc']
    got = {}
    for pattern, by_status in data['route_stats'].items():
        for status, desc in by_status.items():
            got[(pattern, status)] = desc['count']
            assert desc['count'] >= 1
            assert desc['total_duration'] >= 0
            assert 'last_hit' in desc and 'mean' in desc and '0.99' in desc
    want = dict((k, v) for k, v in model.items() if v)
    assert got == want, (got, want)


def run_sequence(seed, steps=120):
    rng = random.Random(seed)
    app, mw = make_app()
    client = app.get_local_client()
    model = defaultdict(int)
    null_keys = set()
    for _ in range(steps):
        roll = rng.random()
        if roll < 0.12:
            resp = client.get('/stats/?format=json')
            assert resp.status_code == 200
            data = json.loads(resp.get_data(True))
            null_part = dict((k, v) for k, v in data['route_stats'].items()
                             if k not in KNOWN_PATTERNS)
            data['route_stats'] = dict((k, v) for k, v
                                       in data['route_stats'].items()
                                       if k in KNOWN_PATTERNS)
            check_report(data, model)
            null_total = sum(d['count'] for by in null_part.values()
                             for d in by.values())
            assert null_total == model_null[0], (null_part, model_null)
            for by in null_part.values():
                assert set(by) <= {'404', '405'}, by
            assert 'reset' not in data
            model[('/stats/', '200')] += 1
        elif roll < 0.18:
            resp = client.post('/stats/reset?format=json')
            assert resp.status_code == 200
            data = json.loads(resp.get_data(True))
            assert data['reset'] is True
            null_part = dict((k, v) for k, v in data['route_stats'].items()
                             if k not in KNOWN_PATTERNS)
            data['route_stats'] = dict((k, v) for k, v
                                       in data['route_stats'].items()
                                       if k in KNOWN_PATTERNS)
            check_report(data, model)
            null_total = sum(d['count'] for by in null_part.values()
                             for d in by.values())
            assert null_total == model_null[0]
            model.clear()
            model_null[0] = 0
            # the reset request itself is recorded after the reset
            model[('/stats/reset', '200')] += 1
        elif roll < 0.22:
            resp = client.get('/stats/reset')   # 405: wrong method
            assert resp.status_code == 405
            model_null[0] += 1
        else:
            path, pattern, status = rng.choice(REQUESTS)
            resp = client.get(path)
            if pattern is None:
                assert resp.status_code == 404
                model_null[0] += 1
            else:
                model[(pattern, status)] += 1
                if status.isdigit():
                    assert resp.status_code == int(status)
                else:
                    assert resp.status_code == 500
    # direct (non-HTTP) view of the same data
    direct = get_stats_dict(app)
    assert 'reset' not in direct
    total_direct = sum(d['count'] for by in direct['route_stats'].values()
                       for d in by.values())
    assert total_direct == sum(model.values()) + model_null[0]
    for rt, by_status in mw.route_hits.items():
        for status, rsv in by_status.items():
            assert isinstance(rsv, RouteStatReservoir)
            assert rsv.total_count == len(list(rsv))  # far below 16k
            assert all(isinstance(h, Hit) and h.status_code == status
                       and h.pattern == rt.pattern for h in rsv)
            assert abs(rsv.total_duration - sum(h.duration for h in rsv)) < 1e-6
            assert rsv.last_hit == rsv.to_list()[-1].start_time
    final = get_and_reset_stats_dict(app)
    assert final['reset'] is True
    assert final['route_stats'].keys() == direct['route_stats'].keys()
    assert get_stats_dict(app)['route_stats'] == {}
    assert not mw.route_hits


KNOWN_PATTERNS = {'/ok', '/moved', '/bad', '/forbidden', '/boom',
                  '/item/<num:int>', '/stats/', '/stats/reset'}
model_null = [0]


def check_not_installed():
    app = Application([('/stats', create_stats_app())])
    client = app.get_local_client()
    assert client.get('/stats/').status_code == 501
    assert client.post('/stats/reset').status_code == 501
    for func in (get_stats_dict, get_and_reset_stats_dict):
        try:
            func(app)
        except stats_mod.NotImplemented as e:
            assert 'StatsMiddleware not installed on app' in str(e.detail or e)
        else:
            raise AssertionError('expected NotImplemented')


def check_reservoir(seed):
    rng = random.Random(seed)
    random.seed(seed)
    cap = rng.randint(1, 12)
    rsv = Reservoir(cap=cap)
    added = set()
    count = 0
    for _ in range(rng.randint(50, 400)):
        roll = rng.random()
        if roll < 0.85:
            val = ('v', count)
            rsv.add(val)
            added.add(val)
            count += 1
        elif roll < 0.95:
            cap = rng.randint(1, 12)
            rsv.resize(cap)
        else:
            assert rsv.to_list() == list(rsv)
        items = list(rsv)
        assert len(items) <= cap, (len(items), cap)
        assert rsv.total_count == count
        assert set(items) <= added
        assert len(set(items)) == len(items)
        assert 'total_count=%r' % count in repr(rsv)
    # same seed -> same sample, i.e. the same draws of the random module
    random.seed(1234)
    one = Reservoir(cap=5, data=range(200))
    random.seed(1234)
    two = Reservoir(cap=5, data=range(200))
    assert list(one) == list(two) and one.total_count == two.total_count == 200
    # constructor edge cases
    assert Reservoir().total_count == 0 and list(Reservoir()) == []
    assert Reservoir(cap=False, data=[0, '', None]).to_list() == [0, '', None]
    box = [1, 2]
    keep = Reservoir(cap=3, container=box)
    keep.add(3)
    assert box == [1, 2, 3] and keep.total_count == 3   # aliasing, not a copy
    keep.add(4)
    assert len(box) == 3 and keep.total_count == 4
    try:
        Reservoir(cap=2, container=[1, 2])
    except AssertionError:
        pass
    else:
        raise AssertionError('expected AssertionError')
    for _ in range(200):
        a = rng.randint(0, 5)
        b = a + rng.randint(1, 9)
        assert a <= fast_randint(a, b) <= b


def check_golden_draws():
    """The sample chosen for a fixed seed must not move."""
    random.seed(99)
    rsv = Reservoir(cap=4, data=range(1000))
    state_after = random.random()
    random.seed(99)
    for _ in range(996):
        random.random()
    assert state_after == random.random()   # one draw per add above capacity
    assert rsv.total_count == 1000 and len(list(rsv)) == 4


def main():
    for seed in range(12):
        model_null[0] = 0
        run_sequence(seed)
    check_not_installed()
    for seed in range(60):
        check_reservoir(seed)
    check_golden_draws()
    print('PASS')


if __name__ == '__main__':
    main()
    sys.exit(0)
