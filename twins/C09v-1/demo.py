# -*- coding: utf-8 -*-
"""demo1: the error-code table (ERROR_CODE_MAP / __all__) and, for every
error class in it, status + negotiated format + escaping of the body."""
import json
import warnings
import xml.etree.ElementTree as ET
from html.parser import HTMLParser

warnings.simplefilter('ignore')

from werkzeug.test import EnvironBuilder
from werkzeug.wrappers import Request

from clastic import errors
from clastic.errors import HTTPException, ERROR_CODE_MAP, MIME_SUPPORT_MAP

EXPECTED_CODES = [None, 400, 401, 402, 403, 404, 405, 406, 407, 408, 409, 410,
                  411, 412, 413, 414, 415, 416, 417, 418, 422, 426, 428, 429,
                  431, 451, 500, 501, 502, 503, 504, 505]
EXPECTED_ALL = [
    'BadRequest', 'Unauthorized', 'PaymentRequired', 'Forbidden',
    'ContextualNotFound', 'MethodNotAllowed', 'NotAcceptable',
    'ProxyAuthenticationRequired', 'RequestTimeout', 'Conflict', 'Gone',
    'LengthRequired', 'PreconditionFailed', 'RequestEntityTooLarge',
    'RequestURITooLong', 'UnsupportedMediaType',
    'RequestedRangeNotSatisfiable', 'ExpectationFailed', 'ImATeapot',
    'UnprocessableEntity', 'UpgradeRequired', 'PreconditionRequired',
    'TooManyRequests', 'RequestHeaderFieldsTooLarge',
    'UnavailableForLegalReasons', 'ContextualInternalServerError',
    'NotImplemented', 'BadGateway', 'ServiceUnavailable', 'GatewayTimeout',
    'HTTPVersionNotSupported']

# --- the table itself -------------------------------------------------------
assert isinstance(ERROR_CODE_MAP, dict) and type(ERROR_CODE_MAP) is dict
assert list(ERROR_CODE_MAP) == EXPECTED_CODES, list(ERROR_CODE_MAP)
assert errors.ERROR_CODE_MAP is ERROR_CODE_MAP
assert errors.__all__ == EXPECTED_ALL, errors.__all__
assert ERROR_CODE_MAP[None] is HTTPException
# later definitions with the same code shadow earlier ones
assert ERROR_CODE_MAP[404] is errors.ContextualNotFound
assert ERROR_CODE_MAP[500] is errors.ContextualInternalServerError
assert ERROR_CODE_MAP[405] is errors.MethodNotAllowed
for code, cls in ERROR_CODE_MAP.items():
    assert isinstance(cls, type) and issubclass(cls, HTTPException)
    assert cls.code == code
    assert errors.__dict__[cls.__name__] is cls
# nothing that is not an error class slipped in; every error class is in
all_error_classes = [v for v in vars(errors).values()
                     if isinstance(v, type) and issubclass(v, HTTPException)]
assert set(ERROR_CODE_MAP.values()) <= set(all_error_classes)
assert {c.code for c in all_error_classes} == set(ERROR_CODE_MAP)
for name in ('ErrorHandler', 'ContextualErrorHandler', 'REPLErrorHandler',
             'ExceptionInfo', 'unicode', 'BaseResponse', 'T', 'glom'):
    assert getattr(errors, name) not in ERROR_CODE_MAP.values()
    assert name not in errors.__all__
assert 'HTTPException' not in errors.__all__  # code None is skipped


# --- helpers ----------------------------------------------------------------
class Tokens(HTMLParser):
    def __init__(self):
        HTMLParser.__init__(self, convert_charrefs=True)
        self.tags, self.text = [], []

    def handle_starttag(self, tag, attrs):
        self.tags.append((tag, dict(attrs)))

    def handle_data(self, data):
        self.text.append(data)


def tokens(body):
    p = Tokens()
    p.feed(body)
    p.close()
    return p


def make_request(accept=None, path='/'):
    headers = {} if accept is None else {'Accept': accept}
    return Request(EnvironBuilder(path=path, headers=headers).get_environ())


EVIL = ['<script>alert(1)</script>', '"quoted" & \'single\'', '{braces} {0} {code}',
        '{{#x}}{.}{/x}', u'caf\xe9 ☃ <b>', 'a]]>b', 'http://x/"><img src=x>']
ALLOWED_HTML_TAGS = {'html', 'head', 'title', 'body', 'h1', 'p', 'a'}
handler = errors.ErrorHandler()


def full_ctype(mime):
    return mime if mime == 'application/json' else mime + '; charset=utf-8'


def check_bodies(err, code, message, detail, error_type):
    for mime, fmt in MIME_SUPPORT_MAP.items():
        err.adapt(mime)
        assert err.status_code == code, (err, err.status_code)
        assert err.headers['Content-Type'] == full_ctype(mime)
        body = err.get_data(True)
        if fmt == 'json':
            data = json.loads(body)
            assert data['code'] == code and data['message'] == message
            assert data['detail'] == detail and data['error_type'] == error_type
        elif fmt == 'xml':
            root = ET.fromstring(body.encode('utf8'))
            assert root.tag == 'http_error'
            assert [c.tag for c in root] == ['code', 'message', 'detail', 'error_type']
            assert all(len(c) == 0 for c in root)
            assert root.find('code').text == str(code)
            assert root.find('message').text == message
            assert (root.find('detail').text or '') == detail
            assert (root.find('error_type').text or '') == (error_type or '')
        elif fmt == 'html':
            toks = tokens(body)
            if type(err).__name__.startswith('Contextual'):
                # debug pages: same tag skeleton as a page with harmless text
                plain = type(err)(detail='plain detail', message='plain', error_type='plain')
                assert [t for t, _ in toks.tags] == \
                    [t for t, _ in tokens(plain.to_html()).tags]
                continue
            assert {t for t, _ in toks.tags} <= ALLOWED_HTML_TAGS, toks.tags
            text = ''.join(toks.text)
            assert message in text and detail in text
            links = [a for t, a in toks.tags if t == 'a']
            if error_type and error_type.startswith('http'):
                assert links == [{'target': '_blank', 'href': error_type}], links
            else:
                assert links == []
        else:
            assert body.startswith('%s - %s' % (code, message))
            assert detail in body


# --- every class in the table: default fields --------------------------------
for code, cls in ERROR_CODE_MAP.items():
    err = cls()
    assert err.status_code == (code if code is not None else 200) or code is None
    if code is None:
        continue
    assert err.headers['Content-Type'] == 'text/plain; charset=utf-8'
    etype = err.error_type
    check_bodies(err, code, cls.message, cls.detail, etype)
    # overridden fields, markup everywhere
    for i, evil in enumerate(EVIL):
        err = cls(detail=evil, code=code + 90 if i % 2 else code, message='M ' + evil,
                  error_type=evil)
        check_bodies(err, err.code, 'M ' + evil, evil, evil)

# --- negotiation ---------------------------------------------------------------
NEGOTIATION = [
    (None, 'text/plain'), ('', 'text/plain'), ('text/html', 'text/html'),
    ('application/json', 'application/json'), ('application/xml', 'application/xml'),
    ('text/plain', 'text/plain'), ('image/png', 'text/plain'),
    ('text/*', 'text/html'), ('application/*', 'application/json'),
    ('*/*', 'text/html'), ('text/html;q=0.1, application/xml;q=0.9', 'application/xml'),
    ('application/json;q=0.5, text/plain;q=0.6', 'text/plain'),
    ('image/png, application/json;q=0.2', 'application/json'),
    (';;;,,,', 'text/plain'), ('text/html;q=0', 'text/plain'),
    ('garbage', 'text/plain'),
]
for accept, expected in NEGOTIATION:
    for cls in (errors.NotFound, errors.ImATeapot, errors.BadGateway):
        err = cls(detail='<i>x</i>')
        resp = handler.render_error(make_request(accept), err)
        assert resp is err
        ctype = resp.headers['Content-Type']
        assert ctype == full_ctype(expected), (accept, ctype)
        body = resp.get_data(True)
        if expected == 'application/json':
            assert json.loads(body)['detail'] == '<i>x</i>'
        elif expected == 'application/xml':
            assert ET.fromstring(body).find('detail').text == '<i>x</i>'
        elif expected == 'text/html':
            assert '<i>' not in body and '&lt;i&gt;x&lt;/i&gt;' in body
        else:
            assert body.startswith('%s - ' % cls.code)

print('PASS')
