# -*- coding: utf-8 -*-
"""demo2: every error becomes a complete response whose format follows the
Accept header; a broken render_error falls back to the default rendering of
the *same* error.  Focus: ErrorHandler.render_error, default_render_error and
HTTPException.adapt.

Prints PASS and exits 0 on success.
"""
import json

from werkzeug.test import EnvironBuilder
from werkzeug.wrappers import Request

import clastic.errors as errors_mod
from clastic import Application, Route, render_basic, Response, GET, POST
from clastic.application import default_render_error
from clastic.errors import (HTTPException, ErrorHandler, ContextualErrorHandler,
                            InternalServerError, BadGateway, NotFound, MethodNotAllowed,
                            MIME_SUPPORT_MAP)

ALL_ERROR_TYPES = [getattr(errors_mod, name) for name in errors_mod.__all__]
assert len(ALL_ERROR_TYPES) > 30

# (Accept header, expected mimetype of the error response)
ACCEPTS = [(None, 'text/plain'),
           ('', 'text/plain'),
           ('text/plain', 'text/plain'),
           ('text/html', 'text/html'),
           ('application/json', 'application/json'),
           ('application/xml', 'application/xml'),
           ('image/png', 'text/plain'),
           ('text/*', None),                       # html or plain, whichever werkzeug prefers
           ('*/*', None),
           ('text/html;q=0.2, application/json;q=0.9', 'application/json'),
           ('application/json;q=0, text/html;q=0.1', 'text/html'),
           ('application/xml, image/png;q=0.1', 'application/xml'),
           ('APPLICATION/JSON', 'application/json'),
           ('garbage;;;=', 'text/plain'),
           (u'text/html; charset=utf-8', None)]


def mimetype_of(response):
    return response.headers['Content-Type'].split(';')[0].strip().lower()


def mk_request(accept=None, path='/', method='GET'):
    headers = {} if accept is None else {'Accept': accept}
    return Request(EnvironBuilder(path=path, method=method, headers=headers).get_environ())


def body_matches(mimetype, text, err):
    if mimetype == 'application/json':
        data = json.loads(text)
        assert data['code'] == err.code and data['message'] == err.message
    elif mimetype == 'application/xml':
        assert text.startswith('<http_error><code>%s</code>' % err.code)
    elif mimetype == 'text/html':
        if type(err).__name__.startswith('Contextual'):
            assert '<html' in text.lower() and '</html>' in text.lower()
        else:
            assert text.startswith('<!doctype html>') and ('<title>%s - ' % err.code) in text
    else:
        assert mimetype == 'text/plain'
        assert text.startswith('%s - %s' % (err.code, err.message))


def check_direct_calls():
    """render_error / default_render_error called directly, no dispatch involved"""
    handler = ErrorHandler()
    ctx_handler = ContextualErrorHandler()
    for accept, want in ACCEPTS:
        for err_type in ALL_ERROR_TYPES:
            results = []
            for render in (handler.render_error, ctx_handler.render_error,
                           default_render_error,
                           lambda request, _error: default_render_error(request, _error, extra=1,
                                                                        _route=None, _application=None),
                           lambda request, _error: default_render_error(request=request, _error=_error)):
                err = err_type()
                ret = render(mk_request(accept), err)
                assert ret is err                       # the same object, adapted in place
                mimetype = mimetype_of(ret)
                assert mimetype in MIME_SUPPORT_MAP
                if want is not None:
                    assert mimetype == want, (accept, want, mimetype)
                assert ret.headers['Content-Type'] in (mimetype, mimetype + '; charset=utf-8')
                assert ret.status_code == err_type.code
                body_matches(mimetype, ret.get_data(True), err)
                results.append((mimetype, ret.get_data()))
            assert all(r == results[0] for r in results), (accept, err_type)

    # adapting is repeatable and follows the last request
    err = BadGateway('flip')
    for accept, want in ACCEPTS * 2:
        if want is None:
            continue
        assert handler.render_error(mk_request(accept), err) is err
        assert mimetype_of(err) == want
        assert default_render_error(mk_request(accept), err) is err
        assert mimetype_of(err) == want

    # failures propagate as they are: nothing is swallowed in the renderers
    class NoAccept(object):
        pass
    for render in (handler.render_error, default_render_error):
        try:
            render(NoAccept(), BadGateway())
        except AttributeError as e:
            assert 'accept_mimetypes' in str(e)
        else:
            raise AssertionError('expected AttributeError')
        try:
            render(mk_request('text/html'), object())
        except AttributeError as e:
            assert 'adapt' in str(e)
        else:
            raise AssertionError('expected AttributeError')

        class BadHTML(InternalServerError):
            def to_html(self):
                raise KeyError('to_html broke')
        try:
            render(mk_request('text/html'), BadHTML())
        except KeyError as e:
            assert e.args == ('to_html broke',)
        else:
            raise AssertionError('expected KeyError')
        err = BadHTML()
        assert render(mk_request('application/json'), err) is err

    # signatures are part of the injection contract
    from clastic.sinter import get_arg_names
    assert list(get_arg_names(handler.render_error)) == ['request', '_error'], get_arg_names(handler.render_error)
    assert list(get_arg_names(default_render_error)) == ['request', '_error']


def check_adapt():
    for err_type in ALL_ERROR_TYPES:
        err = err_type(u'détail <&> "q"')
        assert mimetype_of(err) == 'text/plain'
        for mt, fmt in list(MIME_SUPPORT_MAP.items()) + [(None, 'text'), ('image/png', 'text'),
                                                         ('', 'text'), (0, 'text'), (('a',), 'text')]:
            assert err.adapt(mt) is None
            want_mt = mt if mt in MIME_SUPPORT_MAP else 'text/plain'
            assert mimetype_of(err) == want_mt
            assert err.get_data(True) == getattr(err, 'to_' + fmt)()
            assert err.headers['Content-Length'] == str(len(err.get_data()))
        try:
            err.adapt(['unhashable'])
        except TypeError:
            pass
        else:
            raise AssertionError('expected TypeError for unhashable mimetype')
    # the constructor's mimetype argument goes through adapt as well
    assert mimetype_of(NotFound(mimetype='application/json')) == 'application/json'
    assert mimetype_of(NotFound(mimetype='who/knows')) == 'text/plain'

    # an instance attribute named to_<fmt> is honoured (getattr based lookup)
    err = NotFound()
    err.to_json = lambda: '{"patched": true}'
    err.adapt('application/json')
    assert err.get_data(True) == '{"patched": true}'


def fetch(app, path, accept=None, method='GET'):
    cl = app.get_local_client()
    headers = {} if accept is None else {'Accept': accept}
    resp = cl.open(path, method=method, headers=headers)
    assert isinstance(resp.get_data(), bytes)
    return resp


def check_through_application():
    calls = []

    class BrokenHandler(ErrorHandler):
        def render_error(self, request, _error, **kwargs):
            calls.append(_error)
            raise ZeroDivisionError('render_error is broken')

    class SwappingHandler(ErrorHandler):
        def render_error(self, request, _error, **kwargs):
            return BadGateway('swapped')

    class HTTPRaisingHandler(ErrorHandler):
        def render_error(self, request, _error, **kwargs):
            raise BadGateway('raised from render_error')

    class SuperHandler(ContextualErrorHandler):
        def render_error(self, request, _error):
            _error.headers['X-Seen'] = 'yes'
            return super(SuperHandler, self).render_error(request, _error)

    def boom():
        raise ValueError(u'kaputt ☃')

    def raise_each(code):
        raise errors_mod.ERROR_CODE_MAP[code]('raised %s' % code)

    def return_each(code):
        return errors_mod.ERROR_CODE_MAP[code]('returned %s' % code)

    def unbreaking():
        raise NotFound('soft', is_breaking=False)

    def mk_routes():
        return [('/boom', boom, render_basic),
                ('/none', lambda: None),
                ('/raise/<code:int>', raise_each),
                ('/return/<code:int>', return_each),
                GET('/soft', unbreaking),
                POST('/postonly', lambda: Response('posted')),
                ('/ok', lambda: 'ok', render_basic)]

    codes = sorted(c for c in errors_mod.ERROR_CODE_MAP if c)
    for mk_handler in (ErrorHandler, ContextualErrorHandler, BrokenHandler, SwappingHandler,
                       HTTPRaisingHandler, SuperHandler, lambda: None):
        handler = mk_handler()
        app = Application(mk_routes(), error_handler=handler)
        swapped = isinstance(handler, SwappingHandler)
        ctx = isinstance(handler, ContextualErrorHandler)
        for accept, want in ACCEPTS:
            del calls[:]
            # uncaught exception / non-response
            for path, needle in (('/boom', 'kaputt'), ('/none', 'expected Response')):
                resp = fetch(app, path, accept)
                if swapped:
                    # the renderer's return value is the response, as is
                    assert resp.status_code == 502 and mimetype_of(resp) == 'text/plain'
                    assert 'swapped' in resp.get_data(True)
                    continue
                assert resp.status_code == 500, (handler, path, resp.status)
                assert mimetype_of(resp) in MIME_SUPPORT_MAP
                if want is not None:
                    assert mimetype_of(resp) == want, (handler, accept, mimetype_of(resp))
                assert needle in resp.get_data(True)
                if not (ctx and mimetype_of(resp) in ('text/html', 'application/json')):
                    body_matches(mimetype_of(resp), resp.get_data(True), InternalServerError())
            if isinstance(handler, BrokenHandler):
                # the broken renderer was tried once per request, then the fallback kicked in
                assert len(calls) == 2 and all(isinstance(c, InternalServerError) for c in calls)

            # raised and returned HTTPExceptions keep their own status
            for code in codes[::3] if accept not in (None, 'text/html') else codes:
                for kind in ('raise', 'return'):
                    resp = fetch(app, '/%s/%s' % (kind, code), accept)
                    if swapped:
                        assert resp.status_code == 502
                        continue
                    assert resp.status_code == code, (kind, code, resp.status)
                    if want is not None:
                        assert mimetype_of(resp) == want
                    text = resp.get_data(True)
                    templated = (errors_mod.ERROR_CODE_MAP[code].__name__.startswith('Contextual')
                                 and mimetype_of(resp) == 'text/html')
                    # (MethodNotAllowed's first argument is not a detail)
                    if code != 405 and not templated:
                        needle = '%s %s' % ('raised' if kind == 'raise' else 'returned', code)
                        assert needle in text, (handler, accept, kind, code, text[:200])

            # 404 / 405 from the null route, non-breaking error
            for path, method, code in (('/nowhere', 'GET', 404), ('/postonly', 'GET', 405),
                                       ('/soft', 'GET', 404), ('/raise/notint', 'GET', 404)):
                resp = fetch(app, path, accept, method)
                assert resp.status_code == (502 if swapped else code), (path, resp.status)
                if want is not None and not swapped:
                    assert mimetype_of(resp) == want
            if isinstance(handler, SuperHandler):
                assert fetch(app, '/nowhere', accept).headers['X-Seen'] == 'yes'

            # and the app keeps serving
            resp = fetch(app, '/ok', accept)
            assert resp.status_code == 200 and resp.get_data() == b'ok'
            assert fetch(app, '/postonly', accept, 'POST').get_data() == b'posted'

    # per-route render_error that is not callable -> TypeError in execute_error -> default rendering
    rt = Route('/x', boom, render_basic, render_error='not callable')
    app = Application([rt])
    app.routes[0].render_error = 'still not callable'
    for accept, want in ACCEPTS:
        resp = fetch(app, '/x', accept)
        assert resp.status_code == 500 and 'kaputt' in resp.get_data(True)
        if want is not None:
            assert mimetype_of(resp) == want


def check_reraise():
    marker = KeyError('the original')

    def boom():
        raise marker
    app = Application([('/', boom), ('/gone', lambda: errors_mod.Gone())],
                      error_handler=ErrorHandler(reraise_uncaught=True))
    for accept, _ in ACCEPTS[:5]:
        try:
            fetch(app, '/', accept)
        except KeyError as e:
            assert e is marker
        else:
            raise AssertionError('expected the original exception')
        assert fetch(app, '/gone', accept).status_code == 410
        assert fetch(app, '/missing', accept).status_code == 404


def main():
    check_direct_calls()
    check_adapt()
    check_through_application()
    check_reraise()
    print('PASS')


if __name__ == '__main__':
    main()
