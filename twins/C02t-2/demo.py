# -*- coding: utf-8 -*-
"""demo2: make_middleware_chain / process_request.

Request-, endpoint- and render-phase functions each receive exactly the value
of the one source of every parameter they declare (identity-checked sentinels),
defaults only when no source exists, and never an undeclared name.
"""
import sys

from werkzeug.wrappers import Response

from clastic import Application, Middleware, Route
from clastic.middleware.core import make_middleware_chain, check_middlewares


class Sentinel(object):
    def __init__(self, label):
        self.label = label

    def __repr__(self):
        return '<S %s>' % self.label


class Recorder(object):
    def __init__(self):
        self.calls = []

    def rec(self, who, **kw):
        self.calls.append((who, kw))

    def get(self, who):
        found = [kw for (w, kw) in self.calls if w == who]
        assert len(found) == 1, (who, self.calls)
        return found[0]


def build(rec, ep_returns, with_render=True):
    class ReqMW(Middleware):
        provides = ('req_val', 'shared')

        def request(self, next, url_a, res_x, dflt_req='RQ'):
            rec.rec('ReqMW.request', url_a=url_a, res_x=res_x, dflt_req=dflt_req)
            ret = next(req_val=self.req_val, shared=self.shared)
            rec.rec('ReqMW.after', ret=ret)
            return ret

    class EpMW(Middleware):
        endpoint_provides = ('ep_val',)

        def endpoint(self, next, req_val, res_y, url_b=None):
            rec.rec('EpMW.endpoint', req_val=req_val, res_y=res_y, url_b=url_b)
            ret = next(ep_val=self.ep_val)
            rec.rec('EpMW.after', ret=ret)
            return ret

    class RnMW(Middleware):
        render_provides = ('rn_val',)

        def render(self, next, context, shared, res_x, nobody='NB'):
            rec.rec('RnMW.render', context=context, shared=shared, res_x=res_x,
                    nobody=nobody)
            return next(rn_val=self.rn_val)

    class AllMW(Middleware):
        provides = ('all_req',)
        endpoint_provides = ('all_ep',)
        render_provides = ('all_rn',)

        def request(self, next, request):
            rec.rec('AllMW.request', request=request)
            return next(all_req=self.all_req)

        def endpoint(self, next, all_req, ep_val):
            rec.rec('AllMW.endpoint', all_req=all_req, ep_val=ep_val)
            return next(all_ep=self.all_ep)

        def render(self, next, all_req, rn_val, context):
            rec.rec('AllMW.render', all_req=all_req, rn_val=rn_val, context=context)
            return next(all_rn=self.all_rn)

    mws = [ReqMW(), EpMW(), RnMW(), AllMW()]
    vals = {}
    for mw, names in zip(mws, [('req_val', 'shared'), ('ep_val',), ('rn_val',),
                               ('all_req', 'all_ep', 'all_rn')]):
        for n in names:
            vals[n] = Sentinel(n)
            setattr(mw, n, vals[n])

    def endpoint(url_a, url_b, res_x, req_val, ep_val, all_ep, shared,
                 ep_dflt='ED', res_y='overridden-by-resource'):
        rec.rec('endpoint', url_a=url_a, url_b=url_b, res_x=res_x, req_val=req_val,
                ep_val=ep_val, all_ep=all_ep, shared=shared, ep_dflt=ep_dflt,
                res_y=res_y)
        return ep_returns

    def render(context, rn_val, all_rn, all_req, url_a, res_y, rn_dflt='RD'):
        rec.rec('render', context=context, rn_val=rn_val, all_rn=all_rn,
                all_req=all_req, url_a=url_a, res_y=res_y, rn_dflt=rn_dflt)
        return Response('rendered')

    return mws, vals, endpoint, (render if with_render else None)


PREPROVIDED = ['url_a', 'url_b', 'res_x', 'res_y', 'request', '_application',
               '_route', '_dispatch_state', 'context', 'next']


def check_direct_chain():
    # drive the compiled chain directly, twice, with different sentinels
    for ep_returns in (Sentinel('ctx'), None, 0, '', {}, []):
        rec = Recorder()
        mws, vals, endpoint, render = build(rec, ep_returns)
        chain = make_middleware_chain(mws, endpoint, render, PREPROVIDED)
        assert chain.__name__ == 'next'
        for rnd in ('r1', 'r2'):
            del rec.calls[:]
            inp = dict((n, Sentinel(n + rnd)) for n in
                       ('url_a', 'url_b', 'res_x', 'res_y', 'request'))
            resp = chain(**inp)
            assert isinstance(resp, Response) and resp.get_data() == b'rendered'

            kw = rec.get('ReqMW.request')
            assert kw['url_a'] is inp['url_a'] and kw['res_x'] is inp['res_x']
            assert kw['dflt_req'] == 'RQ'
            kw = rec.get('AllMW.request')
            assert list(kw) == ['request'] and kw['request'] is inp['request']
            kw = rec.get('EpMW.endpoint')
            assert kw['req_val'] is vals['req_val']
            assert kw['res_y'] is inp['res_y']
            assert kw['url_b'] is inp['url_b']   # available, so default unused
            kw = rec.get('AllMW.endpoint')
            assert kw['all_req'] is vals['all_req'] and kw['ep_val'] is vals['ep_val']
            kw = rec.get('endpoint')
            assert kw['url_a'] is inp['url_a'] and kw['url_b'] is inp['url_b']
            assert kw['res_x'] is inp['res_x'] and kw['res_y'] is inp['res_y']
            assert kw['req_val'] is vals['req_val'] and kw['ep_val'] is vals['ep_val']
            assert kw['all_ep'] is vals['all_ep'] and kw['shared'] is vals['shared']
            assert kw['ep_dflt'] == 'ED'
            # the endpoint chain's result reaches the middleware unchanged
            assert rec.get('EpMW.after')['ret'] is ep_returns
            kw = rec.get('RnMW.render')
            assert kw['context'] is ep_returns
            assert kw['shared'] is vals['shared'] and kw['res_x'] is inp['res_x']
            assert kw['nobody'] == 'NB'
            kw = rec.get('AllMW.render')
            assert kw['all_req'] is vals['all_req'] and kw['rn_val'] is vals['rn_val']
            assert kw['context'] is ep_returns
            kw = rec.get('render')
            assert kw['context'] is ep_returns
            assert kw['rn_val'] is vals['rn_val'] and kw['all_rn'] is vals['all_rn']
            assert kw['all_req'] is vals['all_req'] and kw['url_a'] is inp['url_a']
            assert kw['res_y'] is inp['res_y'] and kw['rn_dflt'] == 'RD'
            assert rec.get('ReqMW.after')['ret'] is resp
            order = [w for (w, _) in rec.calls]
            assert order == ['ReqMW.request', 'AllMW.request', 'EpMW.endpoint',
                             'AllMW.endpoint', 'endpoint', 'EpMW.after',
                             'RnMW.render', 'AllMW.render', 'render',
                             'ReqMW.after'], order


def check_response_short_circuit():
    # an endpoint returning a Response skips the whole render phase
    direct = Response('direct')
    rec = Recorder()
    mws, vals, endpoint, render = build(rec, direct)
    chain = make_middleware_chain(mws, endpoint, render, PREPROVIDED)
    inp = dict((n, Sentinel(n)) for n in ('url_a', 'url_b', 'res_x', 'res_y', 'request'))
    resp = chain(**inp)
    assert resp is direct
    names = [w for (w, _) in rec.calls]
    assert 'render' not in names and 'RnMW.render' not in names \
        and 'AllMW.render' not in names, names
    assert rec.get('ReqMW.after')['ret'] is direct

    # Response subclasses too
    class MyResp(Response):
        pass
    sub = MyResp('sub')
    rec = Recorder()
    mws, vals, endpoint, render = build(rec, sub)
    chain = make_middleware_chain(mws, endpoint, render, PREPROVIDED)
    assert chain(**inp) is sub


def check_no_middlewares():
    got = []

    def endpoint(a, b='B'):
        got.append(('ep', a, b))
        return {'ctx': a}

    def render(context, a, c='C'):
        got.append(('rn', context, a, c))
        return Response('x')

    chain = make_middleware_chain([], endpoint, render, ['a', 'c', 'context', 'next'])
    s_a, s_c = Sentinel('a'), Sentinel('c')
    chain(a=s_a, c=s_c)
    assert got[0] == ('ep', s_a, 'B')
    assert got[1][1] == {'ctx': s_a} and got[1][2] is s_a and got[1][3] is s_c

    # zero-arg endpoint, render wants only the context
    got2 = []
    ctx = Sentinel('ctx')
    chain = make_middleware_chain([], lambda: ctx,
                                  lambda context: got2.append(context) or Response('y'),
                                  ['context', 'next', 'zzz'])
    chain()
    assert got2 == [ctx] and got2[0] is ctx


def check_errors():
    def expect(exc_type, frag, fn, *a, **kw):
        try:
            fn(*a, **kw)
        except exc_type as e:
            assert frag in str(e), (frag, str(e))
            assert type(e) is exc_type
        else:
            raise AssertionError('expected %s' % exc_type.__name__)

    ok_render = lambda context: Response('x')
    expect(NameError, "argument 'next' reserved for middleware use only",
           make_middleware_chain, [], lambda next: 1, ok_render, ['next', 'context'])
    expect(NameError, "argument 'next' reserved for middleware use only",
           make_middleware_chain, [], lambda: 1, lambda next, context: 1, ['next', 'context'])
    expect(NameError, "unresolved endpoint middleware arguments: ['missing']",
           make_middleware_chain, [], lambda missing: 1, ok_render, ['next', 'context'])
    expect(NameError, "unresolved render middleware arguments: ['missing']",
           make_middleware_chain, [], lambda: 1, lambda context, missing: 1,
           ['next', 'context'])
    # context is not available to the endpoint phase
    expect(NameError, "unresolved endpoint middleware arguments: ['context']",
           make_middleware_chain, [], lambda context: 1, ok_render, ['next', 'context'])

    class NeedsMW(Middleware):
        def request(self, next, nothere):
            return next()
    expect(NameError, "unresolved request middleware arguments: ['nothere']",
           make_middleware_chain, [NeedsMW()], lambda: 1, ok_render, ['next', 'context'])

    # an endpoint-phase provide is not visible to request-phase functions
    class EpProv(Middleware):
        endpoint_provides = ('late',)

        def endpoint(self, next):
            return next(late=1)

    class WantsLate(Middleware):
        def request(self, next, late):
            return next()
    expect(NameError, "unresolved request middleware arguments: ['late']",
           make_middleware_chain, [EpProv(), WantsLate()], lambda: 1, ok_render,
           ['next', 'context'])

    # a render-phase provide is not visible to the endpoint
    class RnProv(Middleware):
        render_provides = ('rn_only',)

        def render(self, next):
            return next(rn_only=1)
    expect(NameError, "unresolved endpoint middleware arguments: ['rn_only']",
           make_middleware_chain, [RnProv()], lambda rn_only: 1, ok_render,
           ['next', 'context'])

    class P1(Middleware):
        provides = ('dup',)

        def request(self, next):
            return next(dup=1)

    class P2(Middleware):
        endpoint_provides = ('dup',)

        def endpoint(self, next):
            return next(dup=2)
    expect(NameError, 'found conflicting provides', check_middlewares, [P1(), P2()])
    assert check_middlewares([P1()], {'url': ['a'], 'resources': ['b']}) is True


def check_app_level():
    rec = Recorder()
    ctx = Sentinel('ctx')
    mws, vals, endpoint, render = build(rec, ctx)
    res_x, res_y = Sentinel('res_x'), Sentinel('res_y')
    route = Route('/<url_a>/<url_b:int>', endpoint, render, middlewares=mws)
    app = Application([route], resources={'res_x': res_x, 'res_y': res_y})
    cl = app.get_local_client()
    for a, b in (('alpha', 1), ('beta', 0), ('0', 99)):
        del rec.calls[:]
        resp = cl.get('/%s/%s' % (a, b))
        assert resp.status_code == 200 and resp.get_data() == b'rendered'
        kw = rec.get('endpoint')
        assert kw['url_a'] == a and kw['url_b'] == b and type(kw['url_b']) is int
        assert kw['res_x'] is res_x and kw['res_y'] is res_y
        assert kw['req_val'] is vals['req_val'] and kw['shared'] is vals['shared']
        assert kw['ep_dflt'] == 'ED'
        kw = rec.get('render')
        assert kw['context'] is ctx and kw['url_a'] == a and kw['res_y'] is res_y
        assert kw['rn_val'] is vals['rn_val'] and kw['rn_dflt'] == 'RD'
        kw = rec.get('EpMW.endpoint')
        assert kw['url_b'] == b and type(kw['url_b']) is int
        assert rec.get('AllMW.request')['request'].path == '/%s/%s' % (a, b)


def main():
    check_direct_chain()
    check_response_short_circuit()
    check_no_middlewares()
    check_errors()
    check_app_level()
    print('PASS')
    return 0


if __name__ == '__main__':
    sys.exit(main())
