# -*- coding: utf-8 -*-
"""demo2: faithful serving, conditional requests and fault handling of
clastic.static.build_file_response (directly and through StaticApplication).

Every regular file is answered with its exact bytes, Content-Length,
Last-Modified and a guessed/sniffed Content-Type; If-Modified-Since at or
after the file time gives a body-less 304; OS errors injected at each
filesystem call give non-breaking 404/403 and never a 500.
Prints PASS and a digest of all observations.
"""
import os
import sys
import errno
import shutil
import hashlib
import builtins
import mimetypes
import tempfile
from datetime import datetime, timedelta

sys.path.insert(0, os.path.dirname(os.path.abspath(__file__)))

from werkzeug.http import http_date
from werkzeug.wrappers import Response
from werkzeug.wsgi import FileWrapper

from clastic import Application, StaticApplication
from clastic import static as static_mod
from clastic.static import build_file_response
from clastic.errors import Forbidden, NotFound, HTTPException

mimetypes.init()

MTIME = 1400000000
MTIME_DT = datetime.utcfromtimestamp(MTIME)
LOG = []


def log(*a):
    LOG.append(repr(a))


def write(path, data, mtime=MTIME):
    d = os.path.dirname(path)
    if not os.path.isdir(d):
        os.makedirs(d)
    with open(path, 'wb') as f:
        f.write(data)
    os.utime(path, (mtime, mtime))


FILES = {
    'a.txt': b'hello text\n',
    'page.html': b'<html></html>',
    'style.css': b'body {}',
    'img.png': b'\x89PNG\r\n\x1a\n' + bytes(bytearray(range(256))),
    'archive.tar.gz': b'\x1f\x8b\x08\x00',
    'empty': b'',
    'empty.txt': b'',
    'noext_text': b'just some text\twith tabs\n',
    'noext_bin': b'\x00\x01\x02 binary',
    'noext_latin': u'caf\xe9'.encode('latin-1'),
    'noext_late_bin': (b'a' * 1024) + b'\x00\x00',      # binary after the peek window
    'noext_edge_bin': (b'a' * 1023) + b'\x00',           # binary inside the peek window
    'weird.zzzunknown': b'\x00\x00',
    'weird2.zzzunknown': b'text',
    'sub/dir/deep.json': b'{"a": 1}',
    'sp ace.bin': b'\x00' * 5000,
    u'\xfcml\xe4ut.txt': u'\xfcml\xe4ut'.encode('utf-8'),
    'big.txt': b'0123456789' * 20000,
}


def expected_mime(full, text='text/plain', binary='application/octet-stream'):
    mt = mimetypes.guess_type(full)[0]
    if mt:
        return mt
    with open(full, 'rb') as f:
        head = f.read(1024)
    printable = set([7, 8, 9, 10, 12, 13, 27] + list(range(32, 256)))
    if head and any(b not in printable for b in bytearray(head)):
        return binary
    return text


def consume(resp):
    body = b''.join(resp.response)
    close = getattr(resp.response, 'close', None)
    if close:
        close()
    return body


def outcome(func, *a, **kw):
    """-> ('ok', resp) | ('Forbidden', exc) | ('NotFound', exc)"""
    try:
        resp = func(*a, **kw)
    except HTTPException as e:
        assert type(e) in (Forbidden, NotFound), type(e)
        assert e.is_breaking is False
        return type(e).__name__, e
    return 'ok', resp


# ---------------------------------------------------------------- faults
class Faults(object):
    """Counts filesystem calls (os.stat / open) that touch *base* and makes
    the k-th one fail."""

    def __init__(self, base):
        self.base = base
        self.real_stat = os.stat
        self.real_open = builtins.open
        self.reset()

    def reset(self, fail_at=None, err=None, bad_read=None):
        self.calls = []
        self.fail_at = fail_at
        self.err = err
        self.bad_read = bad_read
        self.opened = []

    def _mine(self, path):
        try:
            p = os.fspath(path)
        except TypeError:
            return False
        return isinstance(p, str) and p.startswith(self.base)

    def _tick(self, kind, path):
        idx = len(self.calls)
        self.calls.append(kind)
        if self.fail_at is not None and idx == self.fail_at:
            if isinstance(self.err, int):
                raise OSError(self.err, os.strerror(self.err), path)
            raise self.err

    def stat(self, path, *a, **kw):
        if self._mine(path):
            self._tick('stat', path)
        return self.real_stat(path, *a, **kw)

    def open(self, path, *a, **kw):
        if self._mine(path):
            self._tick('open', path)
            f = self.real_open(path, *a, **kw)
            if self.bad_read:
                f = BadFile(f, self.bad_read)
            self.opened.append(f)
            return f
        return self.real_open(path, *a, **kw)

    def __enter__(self):
        os.stat = self.stat
        builtins.open = self.open
        return self

    def __exit__(self, *exc):
        os.stat = self.real_stat
        builtins.open = self.real_open


class BadFile(object):
    def __init__(self, f, which):
        self._f = f
        self._which = which
        self.closed_by_server = False

    def _maybe(self, name):
        if name == self._which:
            raise IOError(errno.EIO, 'injected %s failure' % name)

    def tell(self):
        self._maybe('tell')
        return self._f.tell()

    def read(self, *a):
        self._maybe('read')
        return self._f.read(*a)

    def seek(self, *a):
        self._maybe('seek')
        return self._f.seek(*a)

    def close(self):
        self.closed_by_server = True
        return self._f.close()


class MyResponse(Response):
    pass


class MyWrapper(FileWrapper):
    pass


def main():
    base = tempfile.mkdtemp(prefix='c14demo2_')
    try:
        root = os.path.join(base, 'root')
        for rel, data in FILES.items():
            write(os.path.join(root, *rel.split('/')), data)
        write(os.path.join(root, 'newer.txt'), b'newer', mtime=MTIME + 1000)
        write(os.path.join(base, 'secret.txt'), b'SECRET')

        # ---- 1. plain serving: bytes, length, date, type ----------------
        for rel, data in sorted(FILES.items()):
            full = os.path.join(root, *rel.split('/'))
            for kw in ({}, {'cache_timeout': 360}, {'cache_timeout': 0},
                       {'cache_timeout': 360, 'cached_modify_time': None},
                       {'mimetype': ''},
                       {'default_text_mime': 'text/x-demo',
                        'default_binary_mime': 'application/x-demo'}):
                kind, resp = outcome(build_file_response, full, **kw)
                assert kind == 'ok', (rel, kw, kind)
                assert type(resp) is Response
                assert type(resp.response) is FileWrapper
                assert resp.status_code == 200
                body = consume(resp)
                assert body == data, rel
                assert resp.content_length == len(data)
                assert resp.headers['Content-Length'] == str(len(data))
                assert resp.last_modified.replace(tzinfo=None) == MTIME_DT
                assert resp.headers['Last-Modified'] == http_date(MTIME)
                exp = expected_mime(full, kw.get('default_text_mime', 'text/plain'),
                                    kw.get('default_binary_mime',
                                           'application/octet-stream'))
                assert resp.mimetype == exp, (rel, resp.mimetype, exp)
                assert resp.cache_control.max_age == kw.get('cache_timeout')
                assert not resp.cache_control.public
                log('plain', rel, sorted(kw), resp.mimetype, len(body),
                    resp.headers.get('Cache-Control'))
            # explicit mimetype always wins, no sniffing
            kind, resp = outcome(build_file_response, full, mimetype='x/y')
            assert kind == 'ok' and resp.mimetype == 'x/y'
            assert consume(resp) == data
            # custom wrapper / response types are honoured
            kind, resp = outcome(build_file_response, full,
                                 file_wrapper=MyWrapper, response_type=MyResponse)
            assert kind == 'ok' and type(resp) is MyResponse
            assert type(resp.response) is MyWrapper
            assert consume(resp) == data

        # the sniff leaves the file position untouched
        kind, resp = outcome(build_file_response, os.path.join(root, 'noext_bin'))
        assert resp.response.file.tell() == 0
        consume(resp)
        assert expected_mime(os.path.join(root, 'noext_late_bin')) == 'text/plain'
        assert expected_mime(os.path.join(root, 'noext_edge_bin')) == \
            'application/octet-stream'
        assert expected_mime(os.path.join(root, 'empty')) == 'text/plain'

        # ---- 2. conditional requests -------------------------------------
        full = os.path.join(root, 'a.txt')
        for delta in (-86400, -1, 0, 1, 86400):
            since = MTIME_DT + timedelta(seconds=delta)
            for timeout in (360, 1, 0, None):
                kind, resp = outcome(build_file_response, full,
                                     cache_timeout=timeout,
                                     cached_modify_time=since)
                assert kind == 'ok'
                if timeout and delta >= 0:
                    assert resp.status_code == 304
                    assert consume(resp) == b''
                    assert resp.cache_control.public
                    assert resp.cache_control.max_age == timeout
                    assert resp.last_modified is None
                else:
                    assert resp.status_code == 200
                    assert consume(resp) == FILES['a.txt']
                    assert bool(resp.cache_control.public) == bool(timeout)
                    assert resp.cache_control.max_age == timeout
                    assert resp.last_modified.replace(tzinfo=None) == MTIME_DT
                log('cond', delta, timeout, resp.status_code,
                    resp.headers.get('Cache-Control'))

        # missing / non-regular / malformed paths
        missing = os.path.join(root, 'nope.txt')
        adir = os.path.join(root, 'sub')
        nul = os.path.join(root, 'a\0b')
        for p, name in ((missing, 'missing'), (adir, 'dir'), (nul, 'nul'),
                        (os.path.join(full, 'x'), 'notdir')):
            kind, exc = outcome(build_file_response, p)
            assert kind == 'NotFound', (name, kind)
            kind2, exc = outcome(build_file_response, p, cache_timeout=360)
            assert kind2 == 'NotFound'
            kind3, exc = outcome(build_file_response, p, cache_timeout=360,
                                 cached_modify_time=MTIME_DT)
            # a directory has an mtime (newer than MTIME): then "not a file"
            if name == 'dir':
                assert kind3 == 'NotFound'
            else:
                assert kind3 == 'Forbidden', (name, kind3)
            log('odd', name, kind, kind2, kind3)
        kind, resp = outcome(build_file_response, adir, cache_timeout=360,
                             cached_modify_time=datetime(2100, 1, 1))
        assert kind == 'ok' and resp.status_code == 304   # only the date is compared
        log('odd-dir-304', kind, resp.status_code)

        # ---- 3. faults at each filesystem call ---------------------------
        errs = [errno.ENOENT, errno.EACCES, errno.EIO, errno.EISDIR,
                errno.ENOTDIR, errno.ELOOP, ValueError('embedded null byte')]
        faults = Faults(base)
        with faults:
            # discover the call sequences without faults
            faults.reset()
            kind, resp = outcome(build_file_response, full)
            consume(resp)
            plain_calls = list(faults.calls)
            assert plain_calls == ['stat', 'open', 'stat', 'stat'], plain_calls
            faults.reset()
            kind, resp = outcome(build_file_response, full, cache_timeout=5,
                                 cached_modify_time=datetime(1990, 1, 1))
            consume(resp)
            cond_calls = list(faults.calls)
            assert cond_calls == ['stat'] + plain_calls, cond_calls
            faults.reset()
            kind, resp = outcome(build_file_response, full, cache_timeout=5,
                                 cached_modify_time=MTIME_DT)
            assert resp.status_code == 304 and faults.calls == ['stat']

            for err in errs:
                ename = err if isinstance(err, int) else 'ValueError'
                for k in range(len(plain_calls)):
                    faults.reset(fail_at=k, err=err)
                    kind, exc = outcome(build_file_response, full)
                    # k == 0 is the isfile() probe: "not there"; later: refused
                    assert kind == ('NotFound' if k == 0 else 'Forbidden'), (ename, k, kind)
                    log('fault', ename, k, kind, list(faults.calls))
                    for f in faults.opened:
                        f.close()
                for k in range(len(cond_calls)):
                    faults.reset(fail_at=k, err=err)
                    kind, exc = outcome(build_file_response, full, cache_timeout=5,
                                        cached_modify_time=datetime(1990, 1, 1))
                    assert kind == ('NotFound' if k == 1 else 'Forbidden'), (ename, k, kind)
                    log('faultc', ename, k, kind, list(faults.calls))
                    for f in faults.opened:
                        f.close()
                faults.reset(fail_at=0, err=err)
                kind, exc = outcome(build_file_response, full, cache_timeout=5,
                                    cached_modify_time=MTIME_DT)
                assert kind == 'Forbidden'

            # failures while sniffing the content: refused, and the file closed
            for which in ('tell', 'read', 'seek'):
                faults.reset(bad_read=which)
                kind, exc = outcome(build_file_response, os.path.join(root, 'noext_bin'))
                assert kind == 'Forbidden', (which, kind)
                assert len(faults.opened) == 1 and faults.opened[0].closed_by_server
                log('sniff-fault', which, kind)
                # no sniffing when the name is enough: such a file is served
                faults.reset(bad_read=which)
                kind, resp = outcome(build_file_response, full)
                assert kind == 'ok' and not faults.opened[0].closed_by_server
                faults.opened[0].close()
                faults.reset(bad_read=which)
                kind, resp = outcome(build_file_response,
                                     os.path.join(root, 'noext_bin'), mimetype='a/b')
                assert kind == 'ok' and resp.mimetype == 'a/b'
                faults.opened[0].close()

        # ---- 4. through HTTP: overlapping apps, vanishing files, 304 ------
        root_b = os.path.join(base, 'root_b')
        write(os.path.join(root_b, 'a.txt'), b'fallback a')
        write(os.path.join(root_b, 'only_b.txt'), b'only b')
        app = Application([('/', StaticApplication(root)),
                           ('/', StaticApplication([root_b]))])
        client = app.get_local_client()
        resp = client.get('/a.txt')
        assert resp.status_code == 200 and resp.get_data() == FILES['a.txt']
        last_mod = resp.headers['Last-Modified']
        assert last_mod == http_date(MTIME)
        assert resp.headers['Cache-Control'] == 'max-age=360'
        resp = client.get('/only_b.txt')
        assert resp.status_code == 200 and resp.get_data() == b'only b'
        assert client.get('/nowhere.txt').status_code == 404
        assert client.get('/../secret.txt').status_code == 403

        for rel, data in sorted(FILES.items()):
            resp = client.get('/' + rel)
            assert resp.status_code == 200 and resp.get_data() == data, rel
            assert int(resp.headers['Content-Length']) == len(data)
            lm = resp.headers['Last-Modified']
            resp2 = client.get('/' + rel, headers={'If-Modified-Since': lm})
            assert resp2.status_code == 304 and resp2.get_data() == b'', rel
            assert 'public' in resp2.headers['Cache-Control']
            assert 'max-age=360' in resp2.headers['Cache-Control']
            resp3 = client.get('/' + rel, headers={
                'If-Modified-Since': http_date(MTIME - 1)})
            assert resp3.status_code == 200 and resp3.get_data() == data
            resp4 = client.get('/' + rel, headers={
                'If-Modified-Since': http_date(MTIME + 5000)})
            assert resp4.status_code == 304 and resp4.get_data() == b''
            log('http', rel, resp.mimetype, resp2.status_code, resp3.status_code,
                resp4.status_code, resp2.headers['Cache-Control'])

        with faults:
            faults.reset()
            assert client.get('/a.txt').status_code == 200
            n_calls = len(faults.calls)
            for f in faults.opened:
                f.close()
            assert n_calls == 5   # find_file probe + the four in build_file_response
            for err in errs:
                ename = err if isinstance(err, int) else 'ValueError'
                for k in range(n_calls):
                    for headers in ({}, {'If-Modified-Since': http_date(MTIME - 9)}):
                        faults.reset(fail_at=k, err=err)
                        resp = client.get('/a.txt', headers=headers)
                        body = resp.get_data()
                        # the first app fails softly; the second one takes over
                        assert resp.status_code == 200, (ename, k, resp.status_code)
                        assert body == b'fallback a', (ename, k)
                        log('http-fault', ename, k, bool(headers), resp.status_code,
                            list(faults.calls))
                        for f in faults.opened:
                            f.close()
            # same faults on a file nobody else has: soft 404 / 403, never 500
            for err in errs:
                ename = err if isinstance(err, int) else 'ValueError'
                for k in range(n_calls):
                    faults.reset(fail_at=k, err=err)
                    resp = client.get('/page.html')
                    assert resp.status_code in (403, 404), (ename, k, resp.status_code)
                    assert b'<html></html>' != resp.get_data()
                    log('http-fault2', ename, k, resp.status_code)
                    for f in faults.opened:
                        f.close()
                # revalidation of a vanished file
                faults.reset(fail_at=1, err=err)
                resp = client.get('/page.html', headers={
                    'If-Modified-Since': http_date(MTIME)})
                assert resp.status_code in (403, 404), (ename, resp.status_code)
                log('http-fault3', ename, resp.status_code)

        digest = hashlib.sha1('\n'.join(LOG).replace(base, '<BASE>')
                              .encode('utf-8')).hexdigest()
        print('observations: %d  digest: %s' % (len(LOG), digest))
    finally:
        shutil.rmtree(base, ignore_errors=True)
    print('PASS')


if __name__ == '__main__':
    main()
