# -*- coding: utf-8 -*-
"""demo2: which media type the simple renderers put on their responses, for
serialized text/bytes, scalars, containers, format= and Accept negotiation, and
for subclasses that re-configure BasicRender.  Prints PASS, exits 0."""
import json
import datetime
import collections

from werkzeug.test import EnvironBuilder
from werkzeug.wrappers import Request

from clastic import Application
from clastic.render import (BasicRender, JSONRender, JSONPRender,
                            TabularRender, render_basic, render_json,
                            render_json_dev)


def req(query_string='', accept=None):
    headers = {'Accept': accept} if accept is not None else {}
    env = EnvironBuilder(path='/', query_string=query_string,
                         headers=headers).get_environ()
    return Request(env)


def ctype(resp):
    return resp.headers['Content-Type']


class Obj(object):
    def __repr__(self):
        return 'Obj!'


PAD = ' ' * 200
TEXTS = [
    # (text, expected mimetype)
    ('', 'text/plain'),
    ('hello', 'text/plain'),
    ('{}', 'application/json'),
    ('[]', 'application/json'),
    ('{"a": [1, 2]}', 'application/json'),
    ('[1, {"b": null}]', 'application/json'),
    ('{not json at all}', 'application/json'),   # only the brackets are looked at
    ('{]', 'text/plain'),
    ('[}', 'text/plain'),
    ('{', 'text/plain'),
    ('[', 'text/plain'),
    (' {}', 'text/plain'),
    ('{} ', 'text/plain'),
    ('<html><body>hi</body></html>', 'text/html'),
    ('<!DOCTYPE html>\n<html lang="en"><head></head></html>', 'text/html'),
    ('<HTML></HTML>', 'text/plain'),             # case-sensitive sniffing
    ('x' * 163 + '<html>', 'text/html'),          # '<html' ends at byte 168
    ('x' * 164 + '<html>', 'text/plain'),         # ... one byte too late
    (PAD + '<html>', 'text/plain'),
    ('[<html>]', 'application/json'),             # JSON guess comes first
    (u'sn\xf6 ☃', 'text/plain'),
    (u'{"k": "☃"}', 'application/json'),
    (u'\xe9' * 82 + '<html>', 'text/html'),       # window counts bytes: 164 + 5 > 168?
]


def check_serialized():
    for text, expected in TEXTS:
        data = text.encode('utf8')
        if text.startswith(u'\xe9'):
            expected = 'text/html' if b'<html' in data[:168] else 'text/plain'
        for value in (text, data):
            for r in (req(), req('format=json'), req('format=html'),
                      req('format=bogus'), req(accept='text/html'),
                      req(accept='application/json')):
                resp = render_basic(value, r, None)
                assert resp.status_code == 200
                assert resp.mimetype == expected, (text, resp.mimetype)
                assert resp.get_data() == data
                if expected.startswith('text/'):
                    assert ctype(resp) == expected + '; charset=utf-8'
                else:
                    assert ctype(resp) == expected


def check_scalars_and_objects():
    def gen():
        yield 'a'
    g = gen()
    values = [0, 1, -1, 10 ** 30, 0.0, 1.5, float('inf'), None, True, False,
              Obj(), datetime.datetime(2001, 2, 3, 4, 5, 6), object, len,
              1 + 2j, g, iter([1])]
    for v in values:
        for r in (req(), req('format=html'), req('format=nope'),
                  req(accept='application/json')):
            resp = render_basic(v, r, None)
            assert resp.status_code == 200
            assert ctype(resp) == 'text/plain; charset=utf-8'
            assert resp.get_data(True) == str(v)


def check_containers():
    od = collections.OrderedDict([('b', 1), ('a', 2)])
    containers = [
        ({}, {}), ([], []), ((), []), ({'a': 1}, {'a': 1}), ([1, 'x', None], [1, 'x', None]),
        ((1, 2), [1, 2]), (od, {'a': 2, 'b': 1}),
        ({'n': {'m': [1, (2, 3)]}}, {'n': {'m': [1, [2, 3]]}}),
        ({'d': datetime.date(2020, 5, 6)}, {'d': '2020-05-06'}),
        ({'o': Obj()}, {'o': 'Obj!'}),          # render_basic is dev_mode
        (frozenset([5]), [5]), (range(3), [0, 1, 2]),
        (collections.deque([1, 2]), [1, 2]),
    ]
    json_reqs = [req(), req('format=json'), req('format='), req('other=html'),
                 req(accept='application/json'), req(accept='text/plain'),
                 req(accept=''), req(accept='application/json, text/html;q=0.1'),
                 req('format=json', accept='text/html')]
    for value, expected in containers:
        for r in json_reqs:
            resp = render_basic(value, r, None)
            assert resp.status_code == 200
            assert ctype(resp) == 'application/json; charset=utf-8', (value, ctype(resp))
            assert json.loads(resp.get_data(True)) == expected
    html_reqs = [req('format=html'), req(accept='text/html'), req(accept='*/*'),
                 req(accept='text/*'), req('format=html', accept='application/json'),
                 req(accept='text/html;q=0.9, application/json;q=0.8')]
    tabular = [{'a': 1, 'b': 'two'}, [1, 2, 3], [{'a': 1}, {'a': 2}],
               [[1, 2], [3, 4]], ('x', 'y')]
    for value in tabular:
        for r in html_reqs:
            resp = render_basic(value, r, None)
            assert resp.status_code == 200
            assert ctype(resp) == 'text/html; charset=utf-8', ctype(resp)
            text = resp.get_data(True)
            assert text.startswith('<html>') and text.endswith('</html>')
            assert '<table class="clastic-atr-table">' in text
    # bad format parameter on a container: ValueError naming the formats
    for value in ({'a': 1}, [], ()):
        for fmt in ('xml', 'HTML', 'text/html', 'application/json'):
            try:
                render_basic(value, req('format=' + fmt), None)
            except ValueError as e:
                msg = str(e)
                assert msg.startswith('format expected one of ')
                assert 'html' in msg and 'json' in msg and repr(fmt) in msg
            else:
                raise AssertionError('expected ValueError for %r' % fmt)


def check_class_configuration():
    assert BasicRender._default_mime == 'application/json'
    assert BasicRender._format_mime_map == {'html': 'text/html',
                                            'json': 'application/json'}
    assert list(BasicRender._format_mime_map) == ['html', 'json']
    assert all(type(v) is str for v in BasicRender._format_mime_map.values())
    br = BasicRender()
    assert br._mime_format_map == {'text/html': 'html', 'application/json': 'json'}
    assert list(br.formats) == ['html', 'json']
    assert list(br.mimetypes) == ['text/html', 'application/json']

    class HtmlFirst(BasicRender):
        _default_mime = 'text/html'

    resp = HtmlFirst()({'a': 1}, req(), None)
    assert ctype(resp) == 'text/html; charset=utf-8'
    resp = HtmlFirst()({'a': 1}, req('format=json'), None)
    assert ctype(resp) == 'application/json; charset=utf-8'

    class WithText(BasicRender):
        _format_mime_map = {'html': 'text/html', 'json': 'application/json',
                            'txt': 'text/plain', 'js': 'application/javascript'}

    wt = WithText()
    resp = wt({'a': 1}, req('format=txt'), None)
    assert ctype(resp) == 'text/plain; charset=utf-8'
    assert resp.get_data(True) == "{'a': 1}"
    resp = wt([1], req('format=js'), None)   # mapped, but no renderer: text
    assert ctype(resp) == 'text/plain; charset=utf-8'
    assert resp.get_data(True) == '[1]'
    resp = wt([1], req(accept='text/plain'), None)
    assert ctype(resp) == 'text/plain; charset=utf-8'
    resp = wt([1], req(), None)
    assert ctype(resp) == 'application/json; charset=utf-8'

    class OddDefault(BasicRender):
        _default_mime = 'text/csv'

    resp = OddDefault()([1, 2], req(), None)
    assert ctype(resp) == 'text/plain; charset=utf-8'
    assert resp.get_data(True) == '[1, 2]'


def check_json_renderers():
    for r, cb, expected in [
            (render_json, None, 'application/json; charset=utf-8'),
            (render_json_dev, None, 'application/json; charset=utf-8'),
            (JSONRender(streaming=True, encoding='ascii'), None,
             'application/json; charset=ascii'),
            (JSONPRender(), '', 'application/json; charset=utf-8'),
            (JSONPRender(), 'fn', 'application/javascript; charset=utf-8'),
            (JSONPRender(streaming=True, encoding='utf-8'), 'fn',
             'application/javascript; charset=utf-8')]:
        for value in ({}, [], {'a': [1, 2.5, None, True, 'x']}, 'str', 0, None,
                      u'☃'):
            if cb is None:
                resp = r(value)
            else:
                resp = r(req('callback=' + cb), value)
            assert resp.status_code == 200
            assert ctype(resp) == expected
            text = resp.get_data(True)
            if cb:
                assert text.startswith(cb + '(') and text.endswith(');')
                text = text[len(cb) + 1:-2]
            assert json.loads(text) == value


def check_through_application():
    def ep_text():
        return '{"pre": "serialized"}'

    def ep_dict():
        "a docstring, shown in the HTML rendering"
        return {'k': 'v'}

    def ep_num():
        return 42

    custom = BasicRender(tabular_render=TabularRender(max_depth=2),
                         json_render=JSONRender(streaming=True))
    app = Application([('/text', ep_text, render_basic),
                       ('/dict', ep_dict, render_basic),
                       ('/num', ep_num, render_basic),
                       ('/custom', ep_dict, custom),
                       ('/jsonp', ep_dict, JSONPRender())])
    c = app.get_local_client()
    assert c.get('/text').headers['Content-Type'] == 'application/json'
    assert c.get('/dict').headers['Content-Type'] == \
        'application/json; charset=utf-8'
    resp = c.get('/dict?format=html')
    assert resp.headers['Content-Type'] == 'text/html; charset=utf-8'
    assert 'a docstring, shown in the HTML rendering' in resp.get_data(True)
    assert c.get('/num').headers['Content-Type'] == 'text/plain; charset=utf-8'
    assert c.get('/custom').headers['Content-Type'] == \
        'application/json; charset=utf-8'
    assert c.get('/custom', headers={'Accept': 'text/html'}).headers[
        'Content-Type'] == 'text/html; charset=utf-8'
    assert c.get('/jsonp?callback=f').headers['Content-Type'] == \
        'application/javascript; charset=utf-8'
    assert c.get('/jsonp').headers['Content-Type'] == \
        'application/json; charset=utf-8'


if __name__ == '__main__':
    check_serialized()
    check_scalars_and_objects()
    check_containers()
    check_class_configuration()
    check_json_renderers()
    check_through_application()
    print('PASS')
