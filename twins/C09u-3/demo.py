# -*- coding: utf-8 -*-
"""demo3: HTML and XML error bodies (HTTPException.to_html / to_xml), the
format selection of HTTPException.adapt and the Content-Type that goes with
it, for default and debug error handlers.

Prints PASS and exits 0 when every assertion holds.
"""
import sys
import json
import html
import xml.etree.ElementTree as ET
from html.parser import HTMLParser

from clastic import Application, render_basic, errors, GET
from clastic.errors import HTTPException

CONTENT_TYPES = {'text/html': 'text/html; charset=utf-8',
                 'application/json': 'application/json',
                 'text/plain': 'text/plain; charset=utf-8',
                 'application/xml': 'application/xml; charset=utf-8'}

NASTY = [
    'plain detail',
    '<script>alert(1)</script>',
    '</p></body></html><img src=x onerror=alert(1)>',
    '"quoted" & \'single\' <b> &amp; &lt;',
    '{detail} {0} {code!r} {message:>10} {{}} }{ {',
    '{{ template }} {% syntax %} ${x} <%= y %> {#req}{/req}',
    ']]> <![CDATA[ <?xml version="1.0"?> <!-- c -->',
    u'non-ascii: é中文 \U0001f600',
    'line one\nline two\n\n\tline four',
    ' ',
]
CONTROL = 'ctl\x01\x0b\x1f<x>&'
ERROR_TYPES = [None, '', 'some_type', 'http://example.com/e?a=1&b=<2>"\'',
               'https://x/{error_type}', 'httpish <i>', ' http://lead', 'HTTP://UP',
               '<i>type</i>', '{error_type}{0}', u'typé', 42, b'http<b>', ('http', '<t>')]
MESSAGES = [None, 'Custom <msg> & "stuff" {message}', '', 0]


def esc(value):
    """Independent model of the field escaping."""
    if value is None:
        return ''
    if isinstance(value, str):
        return html.escape(value, True)
    return html.escape(repr(value), True)


def expected_html(code, message, detail, error_type):
    c, m, d, t = esc(code), esc(message), esc(detail), esc(error_type)
    out = ('<!doctype html><html>\n<head><title>' + c + ' - ' + m +
           '</title></head>\n<body><h1>' + m + '</h1>\n')
    if d:
        out += '<p>' + d + '</p>\n'
    if t:
        if t[:4] == 'http':
            out += ('<p>Error type: <a target="_blank" href="' + t + '">' + t +
                    '</a></p>\n')
        else:
            out += '<p>Error type: ' + t + '</p>\n'
    return out + '</body></html>'


def expected_xml(code, message, detail, error_type):
    return ('<http_error><code>' + esc(code) + '</code><message>' + esc(message) +
            '</message><detail>' + esc(detail) + '</detail><error_type>' +
            esc(error_type) + '</error_type></http_error>')


class TagCollector(HTMLParser):
    def __init__(self):
        HTMLParser.__init__(self, convert_charrefs=True)
        self.events = []

    def handle_starttag(self, tag, attrs):
        self.events.append(('start', tag, dict(attrs)))

    def handle_endtag(self, tag):
        self.events.append(('end', tag))

    def handle_data(self, data):
        if self.events and self.events[-1][0] == 'data':
            self.events[-1] = ('data', self.events[-1][1] + data)
        else:
            self.events.append(('data', data))

    def handle_comment(self, data):
        self.events.append(('comment', data))

    def handle_pi(self, data):
        self.events.append(('pi', data))

    def unknown_decl(self, data):
        self.events.append(('decl', data))


def html_events(body):
    tc = TagCollector()
    tc.feed(body)
    tc.close()
    return tc.events


def as_text(value):
    if value is None:
        return ''
    return value if isinstance(value, str) else repr(value)


def check_simple_html(body, code, message, detail, error_type):
    """Structure of the simple page as an HTML tokenizer sees it."""
    ev = [e for e in html_events(body) if e != ('data', '\n')]
    exp = [('start', 'html', {}), ('start', 'head', {}), ('start', 'title', {}),
           ('data', '%s - %s' % (as_text(code), as_text(message))), ('end', 'title'),
           ('end', 'head'), ('start', 'body', {}), ('start', 'h1', {})]
    if as_text(message):
        exp.append(('data', as_text(message)))
    exp.append(('end', 'h1'))
    if detail:
        exp += [('start', 'p', {}), ('data', detail), ('end', 'p')]
    if error_type is not None and as_text(error_type):
        t = as_text(error_type)
        exp.append(('start', 'p', {}))
        if t.startswith('http'):
            exp += [('data', 'Error type: '),
                    ('start', 'a', {'target': '_blank', 'href': t}),
                    ('data', t), ('end', 'a')]
        else:
            exp.append(('data', 'Error type: ' + t))
        exp.append(('end', 'p'))
    exp += [('end', 'body'), ('end', 'html')]
    assert ev == exp, (ev, exp)


def check_xml(body, code, message, detail, error_type):
    root = ET.fromstring(body.encode('utf-8'))
    assert root.tag == 'http_error' and not root.attrib and root.text is None
    assert [c.tag for c in root] == ['code', 'message', 'detail', 'error_type']
    assert all(len(c) == 0 and not c.attrib and c.tail is None for c in root)
    got = [c.text or '' for c in root]
    exp = ['' if v is None else as_text(v) for v in (code, message, detail, error_type)]
    assert got == exp, (got, exp)


def check_direct():
    classes = [HTTPException, errors.BadRequest, errors.NotFound, errors.ImATeapot,
               errors.InternalServerError, errors.GatewayTimeout]
    for cls in classes:
        for detail in NASTY + [CONTROL, None]:
            for error_type in ERROR_TYPES:
                if isinstance(error_type, tuple) and detail is not NASTY[0]:
                    continue
                for message in MESSAGES:
                    kw = {}
                    if message is not None:
                        kw['message'] = message
                    if error_type is not None and not isinstance(error_type, tuple):
                        kw['error_type'] = error_type
                    exc = cls(detail, **kw)
                    if isinstance(error_type, tuple):
                        exc.error_type = error_type  # (to_text can't take tuples)
                    code = cls.code
                    msg = cls.message if message is None else message
                    det = detail or cls.detail
                    e_html = expected_html(code, msg, det, error_type)
                    e_xml = expected_xml(code, msg, det, error_type)
                    assert exc.to_html() == e_html, (exc.to_html(), e_html)
                    assert exc.to_xml() == e_xml, (exc.to_xml(), e_xml)
                    check_simple_html(e_html, code, msg, det, error_type)
                    if detail is not CONTROL:
                        check_xml(e_xml, code, msg, det, error_type)
                    # adapt: body and Content-Type always agree
                    for mt, ctype in CONTENT_TYPES.items():
                        if isinstance(error_type, tuple) and mt == 'text/plain':
                            continue
                        exc.adapt(mt)
                        assert exc.headers['Content-Type'] == ctype
                        assert exc.status_code == (code or 200) or code is None
                        body = exc.get_data(True)
                        if mt == 'text/html':
                            assert body == e_html
                        elif mt == 'application/xml':
                            assert body == e_xml
                        elif mt == 'application/json':
                            data = json.loads(body)
                            assert data['code'] == code and data['message'] == msg
                            assert data['detail'] == det
                            if isinstance(error_type, (bytes, tuple)):
                                assert 'error_type' in data
                            else:
                                assert data['error_type'] == error_type
                        else:
                            assert body == exc.to_text()
    # mimetype given to the constructor
    for mt, ctype in CONTENT_TYPES.items():
        exc = errors.Forbidden('<d>', mimetype=mt)
        assert exc.headers['Content-Type'] == ctype
        assert exc.get_data(True) == getattr(exc, 'to_' + errors.MIME_SUPPORT_MAP[mt])()
    exc = errors.Forbidden('<d>', mimetype='image/png')
    assert exc.headers['Content-Type'] == 'text/plain; charset=utf-8'
    assert exc.get_data(True) == '403 - Access forbidden\n\n<d>'


def check_adapt_fallbacks():
    exc = errors.Conflict('<d> & {x}', error_type='http://<e>')
    text = exc.to_text()
    exc.adapt('text/html')
    assert exc.get_data(True).startswith('<!doctype html>')
    for unsupported in (None, '', 'image/png', 'TEXT/HTML', 'text/html ', 'text/*', '*/*',
                        'html', 'json', 'application/xhtml+xml', 'text/xml', 0, 1.5,
                        ('text/html',), frozenset(), True, b'text/html'):
        exc.adapt('text/html')
        exc.adapt(unsupported)
        assert exc.get_data(True) == text, unsupported
        assert exc.headers['Content-Type'] == 'text/plain; charset=utf-8', unsupported
    exc.adapt('application/xml')
    exc.adapt()
    assert exc.headers['Content-Type'] == 'text/plain; charset=utf-8'
    # unhashable lookups are a TypeError and leave the response untouched
    exc.adapt('application/json')
    before = (exc.get_data(True), exc.headers['Content-Type'])
    for unhashable in (['text/html'], {'text/html': 1}, set()):
        try:
            exc.adapt(unhashable)
        except TypeError:
            pass
        else:
            raise AssertionError('expected TypeError')
        assert (exc.get_data(True), exc.headers['Content-Type']) == before
    # a str subclass key still finds its format and is passed on as given
    class MT(str):
        pass
    exc.adapt(MT('application/xml'))
    assert exc.headers['Content-Type'] == 'application/xml; charset=utf-8'
    assert exc.get_data(True) == exc.to_xml()

    # renderers are looked up on the instance at adapt() time
    class Custom(errors.Gone):
        def to_html(self):
            return '<custom>' + self.to_escaped_dict()['detail'] + '</custom>'

        def to_xml(self):
            raise ValueError('no xml here')

    c = Custom('<x>')
    c.adapt('text/html')
    assert c.get_data(True) == '<custom>&lt;x&gt;</custom>'
    assert c.headers['Content-Type'] == 'text/html; charset=utf-8'
    try:
        c.adapt('application/xml')
    except ValueError:
        pass
    else:
        raise AssertionError('expected ValueError')
    # a failing renderer leaves body and header as they were
    assert c.get_data(True) == '<custom>&lt;x&gt;</custom>'
    assert c.headers['Content-Type'] == 'text/html; charset=utf-8'
    c.to_json = lambda: '{"patched": true}'
    c.adapt('application/json')
    assert c.get_data(True) == '{"patched": true}'
    # the charset of the response is honoured
    c2 = errors.Gone('x')
    c2.charset = 'latin-1'
    c2.adapt('text/html')
    assert c2.headers['Content-Type'] == 'text/html; charset=latin-1'

    # incomplete dicts surface as KeyError from both renderers
    class Partial(errors.Gone):
        def to_dict(self):
            ret = super(Partial, self).to_dict()
            del ret[self.drop]
            return ret

    for drop in ('code', 'message', 'detail', 'error_type'):
        Partial.drop = drop
        p = Partial('d', error_type='http://t')
        for render in (p.to_html, p.to_xml):
            try:
                render()
            except KeyError as ke:
                assert ke.args == (drop,), ke.args
            else:
                raise AssertionError('expected KeyError')

    # extra keys in the dict are ignored; values with braces are inert
    class Extra(errors.Gone):
        def to_dict(self):
            return dict(super(Extra, self).to_dict(), extra='{code}', detail='{extra}<')

    x = Extra()
    assert '<p>{extra}&lt;</p>' in x.to_html()
    assert '<detail>{extra}&lt;</detail>' in x.to_xml()
    # to_html / to_xml do not modify the instance
    g = errors.Gone('<d>', error_type='http://t')
    snap = dict(g.to_dict())
    g.to_html(), g.to_xml()
    assert g.to_dict() == snap and g.get_data(True) == g.to_text()


def _make_raiser(factory):
    def raiser():
        secret_local = '<local>&"markup"</local>'  # shows up on the debug page
        raise factory()
    return raiser


ACCEPT_CASES = {
    'text/html': 'text/html',
    'application/json': 'application/json',
    'application/xml': 'application/xml',
    'text/plain': 'text/plain',
    'text/html;q=0.2, application/xml;q=0.8, text/plain;q=0.1': 'application/xml',
    'application/xml;q=0, text/html;q=0.3': 'text/html',
    'application/*': None,      # json or xml
    'text/*;q=0.5, application/json;q=0.4': None,
    '*/*': None,
    '': None,
    'image/png, video/*': 'text/plain',
    'text/html;q=0': 'text/plain',
    'garbage;;q=x': 'text/plain',
    'application/xhtml+xml': 'text/plain',
}


def check_http(debug):
    detail = '</p><script>x("{detail}")</script> & \'q\''
    etype = 'http://e/<t>?a=1&b="2"'
    routes = [GET('/teapot', _make_raiser(lambda: errors.ImATeapot(detail, error_type=etype)),
                  render_basic),
              GET('/boom', _make_raiser(lambda: KeyError('<boom> & {x} </pre>')),
                  render_basic),
              GET('/ret', lambda: errors.PaymentRequired(detail, code=499), render_basic)]
    app = Application(routes, debug=debug)
    cl = app.get_local_client()
    for accept, want in ACCEPT_CASES.items():
        for path, code in (('/teapot', 418), ('/boom', 500), ('/<nf>&"', 404), ('/ret', 499)):
            resp = cl.get(path, headers={'Accept': accept})
            assert resp.status_code == code, (path, resp.status_code)
            mt = resp.mimetype
            assert mt in CONTENT_TYPES, mt
            assert resp.headers['Content-Type'] == CONTENT_TYPES[mt]
            if want is not None:
                assert mt == want, (accept, mt, want)
            body = resp.get_data(True)
            if mt == 'application/json':
                data = json.loads(body)
                assert data['code'] == code
                for key in ('message', 'detail', 'error_type'):
                    assert key in data
                if path in ('/teapot', '/ret'):
                    assert data['detail'] == detail
            elif mt == 'application/xml':
                root = ET.fromstring(body.encode('utf-8'))
                assert [c.tag for c in root] == ['code', 'message', 'detail', 'error_type']
                assert root[0].text == str(code) and all(len(c) == 0 for c in root)
                if path == '/teapot':
                    assert body == expected_xml(418, errors.ImATeapot.message, detail, etype)
                if path == '/boom':
                    assert '<boom> & {x} </pre>' in root[2].text
            elif mt == 'text/plain':
                assert body.startswith('%d - ' % code)
            elif path == '/teapot':
                assert body == expected_html(418, errors.ImATeapot.message, detail, etype)
                check_simple_html(body, 418, errors.ImATeapot.message, detail, etype)
            elif path == '/ret':
                check_simple_html(body, 499, 'Payment required', detail, None)
            elif not debug:
                if path == '/boom':
                    ev = html_events(body)
                    assert not [e for e in ev if e[0] == 'start' and e[1] in ('boom', 'pre')]
                    assert any(e[0] == 'data' and '<boom> & {x} </pre>' in e[1] for e in ev)
                else:
                    check_simple_html(body, 404, 'Not found', errors.NotFound.detail, None)
            else:
                ev = html_events(body)
                tags = set(e[1] for e in ev if e[0] == 'start')
                assert not tags & {'boom', 'nf', 'local', 'script_injected'}, tags
                text = ''.join(e[1] for e in ev if e[0] == 'data')
                if path == '/boom':
                    assert '<boom> & {x} </pre>' in text
                    assert '<local>&"markup"</local>' in text
                    assert '&lt;boom&gt; &amp; {x} &lt;/pre&gt;' in body
                else:
                    assert '/<nf>&"' in text and '/&lt;nf&gt;&amp;&quot;' in body


def main():
    check_direct()
    check_adapt_fallbacks()
    check_http(debug=False)
    check_http(debug=True)
    print('PASS')
    return 0


if __name__ == '__main__':
    sys.exit(main())
