# -*- coding: utf-8 -*-
"""Demo for property C03: middlewares nest in the documented M-shaped order.

Standalone: prints PASS and exits 0 when every assertion holds.
"""
import itertools
import sys

from werkzeug.wrappers import Response

from clastic import Application, Route
from clastic.middleware import Middleware
from clastic.middleware import core
from clastic.middleware.core import merge_middlewares, make_middleware_chain
from clastic import sinter

TRACE = []


class Boom(Exception):
    pass


def _act(trace_name, mode, next, after_ok=None):
    """mode: None | 'raise_before' | 'raise_after' | 'short' | 'swallow'"""
    TRACE.append('>' + trace_name)
    if mode == 'raise_before':
        TRACE.append('!' + trace_name)
        raise Boom(trace_name)
    if mode == 'short':
        TRACE.append('<' + trace_name)
        return Response('short:' + trace_name)
    try:
        ret = next()
    except Boom as e:
        TRACE.append('x' + trace_name + ':' + e.args[0])
        if mode == 'swallow':
            TRACE.append('<' + trace_name)
            return Response('swallowed:' + trace_name)
        raise
    if mode == 'raise_after':
        TRACE.append('!' + trace_name)
        raise Boom(trace_name)
    TRACE.append('<' + trace_name)
    return ret


def make_mw_type(type_name, stages=('request', 'endpoint', 'render'),
                 unique=True, reorderable=True):
    ns = {'unique': unique, 'reorderable': reorderable}

    def __init__(self, label, modes=None):
        self.label = label
        self.modes = modes or {}
    ns['__init__'] = __init__

    if 'request' in stages:
        def request(self, next):
            return _act(self.label + '.req', self.modes.get('request'), next)
        ns['request'] = request
    if 'endpoint' in stages:
        def endpoint(self, next):
            return _act(self.label + '.ep', self.modes.get('endpoint'), next)
        ns['endpoint'] = endpoint
    if 'render' in stages:
        def render(self, next, context):
            return _act(self.label + '.rn', self.modes.get('render'), next)
        ns['render'] = render
    return type(type_name, (Middleware,), ns)


MWA = make_mw_type('MWA')
MWB = make_mw_type('MWB')
MWC = make_mw_type('MWC')
MWReqOnly = make_mw_type('MWReqOnly', stages=('request',))
MWRnOnly = make_mw_type('MWRnOnly', stages=('render',))
MWMulti = make_mw_type('MWMulti', unique=False)
MWFixed = make_mw_type('MWFixed', reorderable=False)

EP_MODE = {'mode': None}
RN_MODE = {'mode': None}


def endpoint():
    TRACE.append('>EP')
    if EP_MODE['mode'] == 'raise':
        TRACE.append('!EP')
        raise Boom('EP')
    TRACE.append('<EP')
    if EP_MODE['mode'] == 'response':
        return Response('direct')
    return {'ctx': 1}


def render(context):
    TRACE.append('>RN')
    if RN_MODE['mode'] == 'raise':
        TRACE.append('!RN')
        raise Boom('RN')
    TRACE.append('<RN')
    return Response('rendered:%r' % (context,))


def run(app, path='/'):
    del TRACE[:]
    broute = [r for r in app.routes if r.pattern == path][0]
    try:
        resp = broute.execute('REQUEST')
        out = ('ok', resp.get_data(as_text=True))
    except Boom as e:
        out = ('boom', e.args[0])
    return out, list(TRACE), broute


# ---- a reference model of the onion ---------------------------------------

def model(labels_with_stages, modes, ep_mode=None, rn_mode=None):
    """labels_with_stages: list of (label, stages); modes: {(label, stage): mode}."""
    trace = []

    def layer(names, innermost):
        def call(i):
            if i == len(names):
                return innermost()
            nm = names[i]
            return _model_act(trace, nm, modes.get(nm), lambda: call(i + 1))
        return call(0)

    def ep_final():
        trace.append('>EP')
        if ep_mode == 'raise':
            trace.append('!EP')
            raise Boom('EP')
        trace.append('<EP')
        return 'RESP:direct' if ep_mode == 'response' else 'CTX'

    def rn_final():
        trace.append('>RN')
        if rn_mode == 'raise':
            trace.append('!RN')
            raise Boom('RN')
        trace.append('<RN')
        return 'RESP:rendered'

    req = [l + '.req' for l, s in labels_with_stages if 'request' in s]
    ep = [l + '.ep' for l, s in labels_with_stages if 'endpoint' in s]
    rn = [l + '.rn' for l, s in labels_with_stages if 'render' in s]

    def inner():
        ctx = layer(ep, ep_final)
        if ctx.startswith('RESP:'):
            return ctx
        return layer(rn, rn_final)

    try:
        ret = layer(req, inner)
        kind = 'ok'
    except Boom as e:
        ret = e.args[0]
        kind = 'boom'
    return kind, ret, trace


def _model_act(trace, nm, mode, next):
    trace.append('>' + nm)
    if mode == 'raise_before':
        trace.append('!' + nm)
        raise Boom(nm)
    if mode == 'short':
        trace.append('<' + nm)
        return 'RESP:short:' + nm
    try:
        ret = next()
    except Boom as e:
        trace.append('x' + nm + ':' + e.args[0])
        if mode == 'swallow':
            trace.append('<' + nm)
            return 'RESP:swallowed:' + nm
        raise
    if mode == 'raise_after':
        trace.append('!' + nm)
        raise Boom(nm)
    trace.append('<' + nm)
    return ret


ALL3 = ('request', 'endpoint', 'render')
STAGE_SUFFIX = {'request': '.req', 'endpoint': '.ep', 'render': '.rn'}


def check_stack(outer, sub, route_level, expected_labels, checks):
    """Build outer app > sub app > route, with one fault injected at a time."""
    # fault-free + every single fault
    faults = [None]
    for label, stages in expected_labels:
        for st in stages:
            for mode in ('raise_before', 'raise_after', 'short', 'swallow'):
                faults.append((label, st, mode))
    finals = [(None, None), ('raise', None), ('response', None), (None, 'raise')]
    n = 0
    for fault, (ep_mode, rn_mode) in itertools.product(faults, finals):
        all_mws = outer + sub + route_level
        for mw in all_mws:
            mw.modes = {}
        modes = {}
        if fault:
            label, st, mode = fault
            for mw in all_mws:
                if mw.label == label:
                    mw.modes = {st: mode}
            modes[label + STAGE_SUFFIX[st]] = mode
        EP_MODE['mode'], RN_MODE['mode'] = ep_mode, rn_mode
        route = Route('/', endpoint, render, middlewares=route_level)
        subapp = Application([route], middlewares=sub)
        app = Application([('/', subapp)], middlewares=outer)
        (kind, payload), trace, broute = run(app)
        exp_kind, exp_ret, exp_trace = model(expected_labels, modes, ep_mode, rn_mode)
        assert trace == exp_trace, (fault, ep_mode, rn_mode, trace, exp_trace)
        assert kind == exp_kind, (fault, kind, exp_kind)
        if kind == 'boom':
            assert payload == exp_ret
        elif exp_ret == 'RESP:rendered':
            assert payload == "rendered:{'ctx': 1}", payload
        else:
            assert payload == exp_ret[len('RESP:'):], (payload, exp_ret)
        assert [m.label for m in broute.middlewares] == [l for l, _ in expected_labels]
        n += 1
    checks.append(n)


def main():
    checks = []

    # 1. app-level, sub-app-level and route-level, all distinct types
    check_stack([MWA('a')], [MWB('b')], [MWC('c')],
                [('a', ALL3), ('b', ALL3), ('c', ALL3)], checks)

    # 2. unique type repeated at inner levels: kept once, at outermost position
    check_stack([MWA('a-outer'), MWReqOnly('r')], [MWB('b'), MWA('a-sub')],
                [MWA('a-route'), MWRnOnly('n')],
                [('a-outer', ALL3), ('r', ('request',)), ('b', ALL3),
                 ('n', ('render',))], checks)

    # 3. non-unique type: every instance kept, outermost first
    check_stack([MWMulti('m1')], [MWMulti('m2'), MWA('a')], [MWMulti('m3')],
                [('m1', ALL3), ('m2', ALL3), ('a', ALL3), ('m3', ALL3)], checks)

    # 4. no middlewares at all
    check_stack([], [], [], [], checks)

    # 5. non-reorderable unique middleware: once is fine, twice is an error
    check_stack([MWFixed('f')], [MWA('a')], [], [('f', ALL3), ('a', ALL3)], checks)
    try:
        Application([('/', Application([Route('/', endpoint, render)],
                                       middlewares=[MWFixed('f2')]))],
                    middlewares=[MWFixed('f1')])
    except ValueError as e:
        assert str(e) == "multiple inclusion of unique middleware 'MWFixed'", str(e)
    else:
        raise AssertionError('expected ValueError')

    # 6. merge_middlewares directly: order, copying, inputs untouched
    a, b, a2, m1, m2, f1, f2 = (MWA('a'), MWB('b'), MWA('a2'), MWMulti('m1'),
                                MWMulti('m2'), MWFixed('f1'), MWFixed('f2'))
    old, new = [a2, m2, b], (a, m1)
    merged = merge_middlewares(old, new)
    assert type(merged) is list
    assert [m.label for m in merged] == ['a', 'm1', 'm2', 'b']
    assert merged[0] is a and old == [a2, m2, b] and new == (a, m1)
    assert merge_middlewares([], []) == []
    assert merge_middlewares(iter([a]), iter([b]))[0] is b
    assert [m.label for m in merge_middlewares([a, a2], [])] == ['a']
    assert [m.label for m in merge_middlewares([f1], [a])] == ['a', 'f1']
    for bad_old, bad_new in (([f2], [f1]), ([f1, f2], [])):
        try:
            merge_middlewares(bad_old, bad_new)
        except ValueError as e:
            assert str(e) == "multiple inclusion of unique middleware 'MWFixed'"
        else:
            raise AssertionError('expected ValueError')

    # 7. generated source: exact nesting text
    def f0(next, alpha, beta=2):
        return next(gamma=alpha)

    def f1_(next, gamma):
        return next()

    def fin(gamma, beta, zeta=None):
        return (gamma, beta, zeta)

    src = sinter.build_chain_str([f0, f1_, fin], [['alpha', 'beta'], ['gamma'], []], 'next')
    assert src == (
        'def next(alpha, beta):\n'
        '    def next(gamma):\n'
        '        def next():\n'
        '            __traceback_hide__ = True\n'
        '            return funcs[2](beta=beta, gamma=gamma)\n'
        '        __traceback_hide__ = True\n'
        '        return funcs[1](gamma=gamma, next=next)\n'
        '    __traceback_hide__ = True\n'
        '    return funcs[0](alpha=alpha, beta=beta, next=next)\n'), src
    assert sinter.build_chain_str([], [], 'next') == ''
    sofar = set(['next', 'zeta'])
    src2 = sinter.build_chain_str([fin], [()], 'nxt', sofar, 2)
    assert src2 == ('        def nxt():\n'
                    '            __traceback_hide__ = True\n'
                    '            return funcs[2](zeta=zeta)\n'), src2
    assert sofar == set(['next', 'zeta'])

    chain, args, unres = sinter.make_chain((f0, f1_), (('gamma',), ()), fin,
                                           ['alpha', 'beta', 'zeta', 'unused'], 'next')
    assert (args, unres) == (set(['alpha', 'beta', 'zeta']), set()), (args, unres)
    assert chain(alpha=1, beta=5, zeta=9) == (1, 5, 9)
    chain, args, unres = sinter.make_chain([f1_], [()], fin, ['beta'], 'next')
    assert (args, unres) == (set(['gamma', 'beta']), set(['gamma']))
    assert sinter.chain_argspec([f0, f1_, fin], [('gamma',), (), ()], 'next') == \
        (set(['alpha', 'beta']), set(['beta', 'zeta']))

    # 8. the innermost function: render skipped for Response contexts
    calls = []

    def ep(x, y=0):
        calls.append(('ep', x, y))
        return x

    def rn(context, y):
        calls.append(('rn', context, y))
        return 'R(%r)' % (context,)

    inner = core._create_request_inner(endpoint=ep, render=rn, all_args=['x', 'y'],
                                       endpoint_args=['x', 'y'], render_args=['context', 'y'])
    assert inner.__name__ == 'process_request'
    resp = Response('r')
    assert inner(x=resp, y=1) is resp and calls == [('ep', resp, 1)]
    del calls[:]
    for falsy in (0, '', None, {}):
        assert inner(falsy, 2) == 'R(%r)' % (falsy,)
    assert [c[0] for c in calls] == ['ep', 'rn'] * 4
    assert core._named_arg_str(['b', 'a']) == 'b=b, a=a'
    assert core._named_arg_str([]) == ''
    assert core._named_arg_str(iter(['q'])) == 'q=q'

    # 9. bind-time errors of make_middleware_chain: type, message, precedence
    def bad_ep(next):
        pass

    def bad_rn(context, next):
        pass

    def needs(context, missing):
        pass

    class NeedsEp(Middleware):
        def endpoint(self, next, nope):
            return next()

    class NeedsReq(Middleware):
        def request(self, next, nope_req):
            return next()

    cases = [
        (([], bad_ep, bad_rn, []), "argument 'next' reserved for middleware use only (%r)" % bad_ep),
        (([], endpoint, bad_rn, []), "argument 'next' reserved for middleware use only (%r)" % bad_rn),
        (([NeedsEp(), NeedsReq()], endpoint, needs, []), "unresolved endpoint middleware arguments: ['nope']"),
        (([NeedsReq()], endpoint, needs, []), "unresolved render middleware arguments: ['missing']"),
        (([NeedsReq()], endpoint, render, ['next', 'context']), "unresolved request middleware arguments: ['nope_req']"),
        (([], needs, render, ['context', 'missing']), "unresolved endpoint middleware arguments: ['context']"),
    ]
    for call_args, msg in cases:
        try:
            make_middleware_chain(*call_args)
        except NameError as e:
            assert str(e) == msg, (str(e), msg)
        else:
            raise AssertionError('expected NameError: ' + msg)
    # keyword call + preprovided given as a one-shot iterable
    chain = make_middleware_chain(middlewares=[NeedsReq()], endpoint=endpoint, render=render,
                                  preprovided=iter(['nope_req', 'other']))
    EP_MODE['mode'] = RN_MODE['mode'] = None
    assert chain.__name__ == 'next'
    assert list(sinter.get_arg_names(chain)) == ['nope_req'], sinter.get_arg_names(chain)
    assert chain(nope_req=1).get_data(as_text=True) == "rendered:{'ctx': 1}"

    assert sum(checks) > 400, checks
    print('PASS (%d onion scenarios)' % sum(checks))
    return 0


if __name__ == '__main__':
    sys.exit(main())
